"""A Python mirror of the documented stack machine.

NOT a reference and not trusted: it only *steers* the generators towards streams that the real
checker accepts deep into the rule set (so that Generalization / Substitution / Instantiate /
ModusPonens are exercised on interesting proved terms).  Verdicts always come from the Lean model
(`pi2drv`) and the real checker.
"""
from __future__ import annotations


class Rej(Exception):
    pass


class SideRej(Rej):
    """rejection by a side condition (freshness, positivity, capture, constraint, well-formedness) — as opposed to a stack
    or typing error.  In LENIENT mode these checks are skipped: the generators use it to continue a walk *as if* a weakened
    checker had accepted, so that a checker that lost a side condition is driven on to an unsound conclusion."""


LENIENT = False


def e_fresh(p, e):
    k = p[0]
    if k == 'evar':
        return p[1] != e
    if k in ('svar', 'sym'):
        return True
    if k == 'mv':
        return e in p[2]
    if k in ('imp', 'app'):
        return e_fresh(p[1], e) and e_fresh(p[2], e)
    if k == 'ex':
        return e == p[1] or e_fresh(p[2], e)
    if k == 'mu':
        return e_fresh(p[2], e)
    if k == 'esub':
        if e == p[2]:
            return e_fresh(p[3], e)
        return e_fresh(p[1], e) and e_fresh(p[3], e)
    if k == 'ssub':
        return e_fresh(p[1], e) and e_fresh(p[3], e)
    raise ValueError(p)


def s_fresh(p, s):
    k = p[0]
    if k == 'svar':
        return p[1] != s
    if k in ('evar', 'sym'):
        return True
    if k == 'mv':
        return s in p[3]
    if k in ('imp', 'app'):
        return s_fresh(p[1], s) and s_fresh(p[2], s)
    if k == 'ex':
        return s_fresh(p[2], s)
    if k == 'mu':
        return s == p[1] or s_fresh(p[2], s)
    if k == 'esub':
        return s_fresh(p[1], s) and s_fresh(p[3], s)
    if k == 'ssub':
        if s == p[2]:
            return s_fresh(p[3], s)
        return s_fresh(p[1], s) and s_fresh(p[3], s)
    raise ValueError(p)


def positive(p, s):
    k = p[0]
    if k in ('evar', 'svar', 'sym'):
        return True
    if k == 'mv':
        return s in p[4]
    if k == 'imp':
        return negative(p[1], s) and positive(p[2], s)
    if k == 'app':
        return positive(p[1], s) and positive(p[2], s)
    if k == 'ex':
        return positive(p[2], s)
    if k == 'mu':
        return s == p[1] or positive(p[2], s)
    if k == 'esub':
        return positive(p[1], s) and s_fresh(p[3], s)
    if k == 'ssub':
        pp = s_fresh(p[3], s) or (positive(p[1], p[2]) and positive(p[3], s)) or (negative(p[1], p[2]) and negative(p[3], s))
        if s == p[2]:
            return pp
        return positive(p[1], s) and pp
    raise ValueError(p)


def negative(p, s):
    k = p[0]
    if k in ('evar', 'sym'):
        return True
    if k == 'svar':
        return p[1] != s
    if k == 'mv':
        return s in p[5]
    if k == 'imp':
        return positive(p[1], s) and negative(p[2], s)
    if k == 'app':
        return negative(p[1], s) and negative(p[2], s)
    if k == 'ex':
        return negative(p[2], s)
    if k == 'mu':
        return s == p[1] or negative(p[2], s)
    if k == 'esub':
        return negative(p[1], s) and s_fresh(p[3], s)
    if k == 'ssub':
        pn = s_fresh(p[3], s) or (positive(p[1], p[2]) and negative(p[3], s)) or (negative(p[1], p[2]) and positive(p[3], s))
        if s == p[2]:
            return pn
        return negative(p[1], s) and pn
    raise ValueError(p)


def is_meta(p):
    return p[0] in ('mv', 'esub', 'ssub')


def apply_esubst(p, x, plug):
    k = p[0]
    if k == 'evar':
        return plug if p[1] == x else p
    if k in ('imp', 'app'):
        return (k, apply_esubst(p[1], x, plug), apply_esubst(p[2], x, plug))
    if k == 'ex':
        if p[1] == x:
            return p
        if not e_fresh(plug, p[1]) and not LENIENT:
            raise SideRej('captureE')
        return ('ex', p[1], apply_esubst(p[2], x, plug))
    if k == 'mu':
        if not s_fresh(plug, p[1]) and not LENIENT:
            raise SideRej('captureS')
        return ('mu', p[1], apply_esubst(p[2], x, plug))
    if k == 'mv' and x in p[2]:
        return p
    if is_meta(p):
        return ('esub', p, x, plug)
    return p


def apply_ssubst(p, X, plug):
    k = p[0]
    if k == 'svar':
        return plug if p[1] == X else p
    if k in ('imp', 'app'):
        return (k, apply_ssubst(p[1], X, plug), apply_ssubst(p[2], X, plug))
    if k == 'ex':
        if not e_fresh(plug, p[1]) and not LENIENT:
            raise SideRej('captureE')
        return ('ex', p[1], apply_ssubst(p[2], X, plug))
    if k == 'mu':
        if p[1] == X:
            return p
        if not s_fresh(plug, p[1]) and not LENIENT:
            raise SideRej('captureS')
        return ('mu', p[1], apply_ssubst(p[2], X, plug))
    if k == 'mv' and X in p[3]:
        return p
    if is_meta(p):
        return ('ssub', p, X, plug)
    return p


def instantiate(p, ids, plugs):
    k = p[0]
    if k in ('evar', 'svar', 'sym'):
        return p
    if k == 'mv':
        if p[1] in ids:
            q = plugs[ids.index(p[1])]
            if not LENIENT:
                for e in p[2]:
                    if not e_fresh(q, e):
                        raise SideRej('constraint')
                for s in p[3]:
                    if not s_fresh(q, s):
                        raise SideRej('constraint')
                for s in p[4]:
                    if not positive(q, s):
                        raise SideRej('constraint')
                for s in p[5]:
                    if not negative(q, s):
                        raise SideRej('constraint')
            return q
        return p
    if k in ('imp', 'app'):
        return (k, instantiate(p[1], ids, plugs), instantiate(p[2], ids, plugs))
    if k in ('ex', 'mu'):
        return (k, p[1], instantiate(p[2], ids, plugs))
    if k == 'esub':
        return apply_esubst(instantiate(p[1], ids, plugs), p[2], instantiate(p[3], ids, plugs))
    if k == 'ssub':
        return apply_ssubst(instantiate(p[1], ids, plugs), p[2], instantiate(p[3], ids, plugs))
    raise ValueError(p)


def phi(n):
    return ('mv', n, (), (), (), (), ())


BOT = ('mu', 0, ('svar', 0))
PROP1 = ('imp', phi(0), ('imp', phi(1), phi(0)))
PROP2 = ('imp', ('imp', phi(0), ('imp', phi(1), phi(2))), ('imp', ('imp', phi(0), phi(1)), ('imp', phi(0), phi(2))))
PROP3 = ('imp', ('imp', ('imp', phi(0), BOT), BOT), phi(0))
QUANT = ('imp', ('esub', phi(0), 0, ('evar', 1)), ('ex', 0, phi(0)))
EXIST = ('ex', 0, ('evar', 0))

OPC = {'evar': 2, 'svar': 3, 'sym': 4, 'implies': 5, 'app': 6, 'mu': 7, 'ex': 8, 'metavar': 9, 'esubst': 10,
       'ssubst': 11, 'prop1': 12, 'prop2': 13, 'prop3': 14, 'quantifier': 15, 'existence': 19, 'mp': 21, 'gen': 22,
       'subst': 24, 'instantiate': 26, 'pop': 27, 'save': 28, 'load': 29, 'publish': 30, 'cleanmv': 137}


def enc(ins):
    """instruction tuple -> bytes (list of ints)"""
    k = ins[0]
    if k in ('evar', 'svar', 'sym', 'mu', 'ex', 'esubst', 'ssubst', 'gen', 'subst', 'load', 'cleanmv'):
        return [OPC[k], ins[1]]
    if k == 'metavar':
        out = [OPC[k], ins[1]]
        for l in ins[2:7]:
            out += [len(l)] + list(l)
        return out
    if k == 'instantiate':
        return [OPC[k], len(ins[1])] + list(ins[1])
    return [OPC[k]]


def build(p):
    """instructions that push pattern p (no well-formedness guarantee)"""
    k = p[0]
    if k in ('evar', 'svar', 'sym'):
        return [(k, p[1])]
    if k == 'mv':
        if not any(p[2:7]):
            return [('cleanmv', p[1])]
        return [('metavar',) + tuple(p[1:7])]
    if k == 'imp':
        return build(p[1]) + build(p[2]) + [('implies',)]
    if k == 'app':
        return build(p[1]) + build(p[2]) + [('app',)]
    if k in ('ex', 'mu'):
        return build(p[2]) + [(k, p[1])]
    if k == 'esub':
        return build(p[3]) + build(p[1]) + [('esubst', p[2])]
    if k == 'ssub':
        return build(p[3]) + build(p[1]) + [('ssubst', p[2])]
    raise ValueError(p)


class Mach:
    def __init__(self):
        self.stack, self.memory, self.claims = [], [], []

    def copy(self):
        m = Mach()
        m.stack, m.memory, m.claims = list(self.stack), list(self.memory), list(self.claims)
        return m

    def pop_pat(self):
        if not self.stack or self.stack[-1][0] != 'P':
            raise Rej('type')
        return self.stack.pop()[1]

    def pop_proved(self):
        if not self.stack or self.stack[-1][0] != 'T':
            raise Rej('type')
        return self.stack.pop()[1]

    def step(self, ins, phase):
        k = ins[0]
        S = self.stack
        if k in ('evar', 'svar', 'sym'):
            S.append(('P', (k, ins[1])))
        elif k == 'cleanmv':
            S.append(('P', phi(ins[1])))
        elif k == 'metavar':
            if any(h in ins[2] for h in ins[6]) and not LENIENT:
                raise SideRej('mvWF')
            S.append(('P', ('mv',) + tuple(ins[1:7])))
        elif k in ('implies', 'app'):
            r = self.pop_pat(); l = self.pop_pat()
            S.append(('P', ('imp' if k == 'implies' else 'app', l, r)))
        elif k == 'ex':
            S.append(('P', ('ex', ins[1], self.pop_pat())))
        elif k == 'mu':
            p = self.pop_pat()
            if not positive(p, ins[1]) and not LENIENT:
                raise SideRej('muNotPositive')
            S.append(('P', ('mu', ins[1], p)))
        elif k == 'esubst':
            p = self.pop_pat(); plug = self.pop_pat()
            if not is_meta(p):
                raise Rej('substWF')
            if (plug == ('evar', ins[1]) or e_fresh(p, ins[1])) and not LENIENT:
                raise SideRej('substWF')
            S.append(('P', ('esub', p, ins[1], plug)))
        elif k == 'ssubst':
            p = self.pop_pat(); plug = self.pop_pat()
            if not is_meta(p):
                raise Rej('substWF')
            if (plug == ('svar', ins[1]) or s_fresh(p, ins[1])) and not LENIENT:
                raise SideRej('substWF')
            S.append(('P', ('ssub', p, ins[1], plug)))
        elif k == 'prop1':
            S.append(('T', PROP1))
        elif k == 'prop2':
            S.append(('T', PROP2))
        elif k == 'prop3':
            S.append(('T', PROP3))
        elif k == 'quantifier':
            S.append(('T', QUANT))
        elif k == 'existence':
            S.append(('T', EXIST))
        elif k == 'mp':
            p2 = self.pop_proved(); p1 = self.pop_proved()
            if p1[0] != 'imp' or p1[1] != p2:
                raise Rej('mp')
            S.append(('T', p1[2]))
        elif k == 'gen':
            p = self.pop_proved()
            if p[0] != 'imp':
                raise Rej('gen')
            if not e_fresh(p[2], ins[1]) and not LENIENT:
                raise SideRej('gen')
            S.append(('T', ('imp', ('ex', ins[1], p[1]), p[2])))
        elif k == 'subst':
            p = self.pop_proved(); plug = self.pop_pat()
            S.append(('T', apply_ssubst(p, ins[1], plug)))
        elif k == 'instantiate':
            if not S:
                raise Rej('underflow')
            kind, p = S.pop()
            plugs = [self.pop_pat() for _ in ins[1]]
            S.append((kind, instantiate(p, list(ins[1]), plugs)))
        elif k == 'pop':
            if not S:
                raise Rej('underflow')
            S.pop()
        elif k == 'save':
            if not S:
                raise Rej('underflow')
            self.memory.append(S[-1])
        elif k == 'load':
            if ins[1] >= len(self.memory):
                raise Rej('badIndex')
            S.append(self.memory[ins[1]])
        elif k == 'publish':
            if phase == 'gamma':
                self.memory.append(('T', self.pop_pat()))
            elif phase == 'claim':
                self.claims.append(self.pop_pat())
            else:
                if not self.claims:
                    raise Rej('claims')
                c = self.claims.pop()
                t = self.pop_proved()
                if c != t:
                    raise Rej('claimMismatch')
        else:
            raise Rej('badOpcode')


def subst_wf(p):
    """every ESubst/SSubst node is one the machine can hold: meta head, not redundant (lib.rs well_formed)"""
    k = p[0]
    if k in ('evar', 'svar', 'sym', 'mv'):
        return True
    if k in ('imp', 'app'):
        return subst_wf(p[1]) and subst_wf(p[2])
    if k in ('ex', 'mu'):
        return subst_wf(p[2])
    if k == 'esub':
        return is_meta(p[1]) and p[3] != ('evar', p[2]) and not e_fresh(p[1], p[2]) and subst_wf(p[1]) and subst_wf(p[3])
    if k == 'ssub':
        return is_meta(p[1]) and p[3] != ('svar', p[2]) and not s_fresh(p[1], p[2]) and subst_wf(p[1]) and subst_wf(p[3])
    raise ValueError(p)


def decode(bs):
    """bytes -> list of instruction tuples, or None (mirror of lean/Pi2/Codec.lean decode; steering/filters only)"""
    names = {v: k for k, v in OPC.items()}
    out, i = [], 0
    n = len(bs)
    while i < n:
        nm = names.get(bs[i])
        if nm is None:
            return None
        if nm in ('evar', 'svar', 'sym', 'mu', 'ex', 'esubst', 'ssubst', 'gen', 'subst', 'load', 'cleanmv'):
            if i + 1 >= n:
                return None
            out.append((nm, bs[i + 1])); i += 2
        elif nm == 'metavar':
            if i + 1 >= n:
                return None
            mid = bs[i + 1]; i += 2
            lists = []
            for _ in range(5):
                if i >= n or i + 1 + bs[i] > n:
                    return None
                lists.append(tuple(bs[i + 1:i + 1 + bs[i]])); i += 1 + bs[i]
            out.append(('metavar', mid) + tuple(lists))
        elif nm == 'instantiate':
            if i + 1 >= n or i + 2 + bs[i + 1] > n:
                return None
            out.append(('instantiate', tuple(bs[i + 2:i + 2 + bs[i + 1]]))); i += 2 + bs[i + 1]
        else:
            out.append((nm,)); i += 1
    return out


def machine_wf(p):
    """could the machine construct this (expanded) pattern: Mu bodies positive, substitutions and metavariables well-formed"""
    k = p[0]
    if k in ('evar', 'svar', 'sym'):
        return True
    if k == 'mv':
        return not any(h in p[2] for h in p[6])
    if k in ('imp', 'app'):
        return machine_wf(p[1]) and machine_wf(p[2])
    if k == 'ex':
        return machine_wf(p[2])
    if k == 'mu':
        return machine_wf(p[2]) and positive(p[2], p[1])
    if k == 'esub':
        return (is_meta(p[1]) and p[3] != ('evar', p[2]) and not e_fresh(p[1], p[2]) and machine_wf(p[1]) and machine_wf(p[3]))
    if k == 'ssub':
        return (is_meta(p[1]) and p[3] != ('svar', p[2]) and not s_fresh(p[1], p[2]) and machine_wf(p[1]) and machine_wf(p[3]))
    raise ValueError(p)
