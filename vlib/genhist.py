"""Generator of call histories for the generator-side properties (C04, C14, C03, C19b): gamma phase with a few
axioms, claim phase, proof phase as a steered random walk over interpreter calls."""
from __future__ import annotations

from . import gen, pymach as pm, pytrack as pt


def _try(tr, seq):
    t = tr.copy()
    try:
        for c in seq:
            t.call(c)
    except pt.Raise:
        return None
    return t


def npat_for_calls(rng, depth, subst=0.4):
    return gen.gen_npat(rng, depth, constrained=0.2, subst=subst)


def proof_walk(rng, tr, length, residue_base, touch_residue=False):
    """steered walk in the proof phase that ends with a proved term on top and (unless touch_residue) never
    consumes stack entries at index < residue_base.  Returns (calls, tracker)."""
    calls = []
    for _ in range(length):
        S = tr.stack
        live = len(S) - residue_base
        opts = [('pat', 3), ('axiom', 3)]
        if tr.memory:
            opts.append(('load', 2))
        if live >= 1 or touch_residue and S:
            opts += [('save', 1.5), ('pop', 0.4)]
            top = S[-1][0]
            if top == 'pattern':
                opts += [('exists', 1), ('mu', 0.7), ('instpat', 1.5)]
                if (live >= 2 or touch_residue) and len(S) >= 2 and S[-2][0] == 'pattern':
                    opts += [('implies', 2), ('app', 1), ('esubst', 1.5), ('ssubst', 1.5)]
            else:
                opts += [('gen', 2), ('inst', 4), ('weaken', 2)]
                if (live >= 2 or touch_residue) and len(S) >= 2 and S[-2][0] == 'proved':
                    opts += [('mp', 4)]
        tot = sum(w for _, w in opts)
        r = rng.random() * tot
        for name, w in opts:
            r -= w
            if r <= 0:
                break
        seq = make(rng, name, tr)
        if not seq:
            continue
        t2 = _try(tr, seq)
        if t2 is None:
            continue
        if not touch_residue and len(t2.stack) < residue_base:
            continue
        tr = t2
        calls += seq
    # make sure a proved term is on top
    if not tr.stack or tr.stack[-1][0] != 'proved' or len(tr.stack) <= residue_base:
        seq = [('prop1',)]
        tr = _try(tr, seq)
        calls += seq
    return calls, tr


def make(rng, name, tr):
    S = tr.stack
    if name == 'pat':
        return pt.compile_pattern(npat_for_calls(rng, rng.choice((0, 1, 1, 2))))
    if name == 'axiom':
        return [(rng.choice(('prop1', 'prop2', 'prop3', 'quantifier')),)]
    if name in ('save', 'pop', 'implies', 'app', 'mp'):
        return [(name,)]
    if name == 'load':
        return [('load', rng.choice(tr.memory))]
    if name in ('exists', 'mu', 'esubst', 'ssubst', 'gen'):
        return [(name, rng.choice(gen.IDS))]
    if name == 'instpat':
        # pattern on top becomes the body: plugs must be BELOW it -> save; pop; plugs; load
        body = S[-1]
        n = rng.choice((0, 1, 2))
        keys = rng.sample([0, 1, 2, 3], n)
        seq = [('save',), ('pop',)]
        for _ in range(n):
            seq += pt.compile_pattern(npat_for_calls(rng, 1))
        seq += [('load', body), ('instantiate-pattern', tuple(keys))]
        return seq
    if name == 'inst':
        prf = S[-1]
        mvs = sorted(pt.metavars(prf[1])) or [0]
        n = rng.choice((1, 1, 2, 3))
        pool = list(dict.fromkeys(mvs + [0, 1, 2]))
        keys = rng.sample(pool, min(n, len(pool)))
        rng.shuffle(keys)
        seq = [('save',), ('pop',)]
        for _ in keys:
            seq += pt.compile_pattern(npat_for_calls(rng, rng.choice((0, 1, 2)), subst=0.2))
        seq += [('load', prf), ('instantiate', tuple(keys))]
        return seq
    if name == 'weaken':
        # Proved A on top  ->  Proved (B -> A)
        A = S[-1]
        B = npat_for_calls(rng, 1, subst=0.0)
        return ([('save',), ('pop',)] + pt.compile_pattern(B) + pt.compile_pattern(A[1]) +
                [('prop1',), ('instantiate', (1, 0)), ('load', A), ('mp',)])
    raise ValueError(name)


def gen_history(rng, length=30, n_axioms=None, n_proofs=None, touch_residue=False):
    """returns (claims (declared order), calls)"""
    tr = pt.Tracker()
    calls = []
    n_axioms = rng.choice((0, 1, 2)) if n_axioms is None else n_axioms
    published = []
    for _ in range(n_axioms + (1 if n_axioms and rng.random() < 0.4 else 0)):
        # sometimes the same axiom is published twice (as with a module reachable along two import paths)
        ax = rng.choice(published) if published and rng.random() < 0.4 else npat_for_calls(rng, 2, subst=0.2)
        published.append(ax)
        seq = pt.compile_pattern(ax) + [('publish-axiom',)]
        t2 = _try(tr, seq)
        if t2 is not None:
            tr = t2
            calls += seq
    gamma_calls = calls
    # proof phase first (on a copy), to learn the conclusions that will be claimed
    ptr = tr.copy()
    ptr.phase = 'proof'
    ptr.stack = []
    proof_calls = []
    claims = []
    n_proofs = rng.choice((0, 1, 1, 2)) if n_proofs is None else n_proofs
    for _ in range(n_proofs):
        base = len(ptr.stack)
        seq, ptr = proof_walk(rng, ptr, max(3, length // max(1, n_proofs)), base, touch_residue)
        proof_calls += seq
        if ptr.stack and ptr.stack[-1][0] == 'proved':
            claims.append(ptr.stack[-1][1])
            proof_calls.append(('publish-proof',))
            if touch_residue and rng.random() < 0.5:
                proof_calls.append(('pop',))
                ptr.stack.pop()
    if n_proofs == 0:
        seq, ptr = proof_walk(rng, ptr, length, 0, touch_residue)
        proof_calls += seq
    claim_calls = []
    for c in reversed(claims):
        claim_calls += pt.compile_pattern(c) + [('publish-claim',)]
    calls = gamma_calls + [('into-claim',)] + claim_calls + [('into-proof',)] + proof_calls
    return claims, calls


def history_to_s(claims, calls):
    from . import sx
    return '(claims %s) (calls %s)' % (' '.join(sx.pat_to_s(c) for c in claims), ' '.join(pt.call_to_s(c) for c in calls))
