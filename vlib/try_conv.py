"""Validation of the converter specification and translation on generated databases (run: python3 -m vlib.try_conv [n] [seed]).

For databases of `vlib/props/c16.py` (`make_case`: GenDB + a valid compressed proof; `make_ncase`: the same with DECLARED NOTATIONS,
`$a #Notation ( n v… ) BODY $.`, `vlib/mmgen3.py` — there `dbOfMDb` must deliver the bodies (`Ctor.body`) the check's model has):
  1. the model database the check builds from the GENERATOR's knowledge (`c16.model_spec`) is compared with the specification
     `MM.ConvSpec.dbOfMDb` applied to the database as the REAL parser delivers it (driver command `mmdb`): floats, imp/app arguments,
     constructors, rules, proof rules, goal, label list, steps — modulo the numbering of constants (`s<N>` -> position among `$c`)
     and `appArgs` when the database has no `app-is-pattern`;
  2. the GENERATED converter (`Pi2/Gen/MMConv.lean`, driver command `mmconv`) is compared with the REAL `MetamathConverter`
     (harness command `mmconvdump`) on every query `translate.py` makes (differential test of the translator).
  3. the shape predicate `MM.ConvSpec.FragmentShape` (Pi2/MM/ConvShape.lean; the only hypothesis of
     `C16.converter_text_is_the_model_of_shape` / `C16.translation_text_is_the_model_of_shape`) and the run-time fragment
     `ConvTie.InFragmentX` (which `ConvCoh.inFragmentX_of_shape` derives from it) are evaluated on every generated database: a
     database on which one of them is false is a finding.
Also run on a few hand-written databases outside GenDB's habits (see `EXTRA`)."""
from __future__ import annotations

import json
import random
import re
import sys

from . import core, sx
from .props import c16


def hx(s):
    return 'h' + s.encode('utf-8').hex()


EXTRA = [
    # constants used as heads before / without their is-pattern axiom, a rule with a constant-only conclusion, nested constructor
    ('$c #Pattern |- ( ) \\imp \\app s0 s1 f $.  $v x y z $.  y-is-pattern $f #Pattern y $.  x-is-pattern $f #Pattern x $.  z-is-pattern $f #Pattern z $.\n'
     'imp-is-pattern $a #Pattern ( \\imp x y ) $.  app-is-pattern $a #Pattern ( \\app y x ) $.  s0-is-pattern $a #Pattern s0 $.  f-is-pattern $a #Pattern ( f y x ) $.\n'
     'proof-rule-prop-1 $a |- ( \\imp y ( \\imp x y ) ) $.  proof-rule-prop-2 $a |- ( \\imp ( \\imp z ( \\imp x y ) ) ( \\imp ( \\imp z x ) ( \\imp z y ) ) ) $.\n'
     '${ proof-rule-mp.0 $e |- ( \\imp y x ) $.  proof-rule-mp.1 $e |- y $.  proof-rule-mp $a |- x $. $}\n'
     'ax0 $a |- ( f s0 ( \\app s1 x ) ) $.  ${ r.0 $e |- ( \\imp x s0 ) $.  r.1 $e |- z $.  r $a |- ( f z ( f x s1 ) ) $. $}\n'
     'goal $p |- ( \\imp s0 ( \\imp s0 s0 ) ) $= ( s0-is-pattern proof-rule-prop-1 ) AAB $.\n', 'goal'),
]


OUTSIDE_NOTATION = [0]   # notation databases on which the generated converter answered `(outside)` (last `compare`)


def compare(cases, extra=()):
    """findings (dicts with `key`, `what`, …) and counters for the cases of `c16.make_case`"""
    srcs = []
    OUTSIDE_NOTATION[0] = 0
    for c in cases:
        for name, src in c['sources'].items():
            srcs.append((src, 'goal', c, name))
    for src, tgt in extra:
        srcs.append((src, tgt, None, 'extra'))
    dumps = core.py_h(['mmconvdump %s %s' % (s.encode().hex(), hx(t)) for s, t, _, _ in srcs])
    reqs, keep, findings = [], [], []
    for (s, t, c, name), d in zip(srcs, dumps):
        if not d.startswith('(dump '):
            findings.append({'key': 'conv-harness', 'what': 'mmconvdump failed: ' + d[:200], 'database': s[-900:]})
            continue
        i = d.index('(mdb')
        depth, k = 0, i
        while True:
            if d[k] == '(':
                depth += 1
            elif d[k] == ')':
                depth -= 1
                if depth == 0:
                    break
            k += 1
        mdb, real = d[i:k + 1], d[k + 2:-1]
        reqs += [f'mmdb {mdb} {hx(t)}', f'mmconv {mdb} {hx(t)}']
        keep.append((s, t, c, name, real))
    ans = core.lean_gen(reqs)
    if ans is None:
        # the second driver (generated code) did not build in this run: the proof gate reports the broken tie
        return findings, 0, 0
    n_spec = n_conv = 0
    for k, (s, t, c, name, real) in enumerate(keep):
        spec, conv = ans[2 * k], ans[2 * k + 1]
        n_conv += 1
        if c is not None and c.get('notations') and conv == '(outside)':
            # the GENERATED converter does not cover `#Notation` statements: `MetamathConverter._add_notation` is in transconv.OUTSIDE
            # (listed in the header of Pi2/Gen/MMConv.lean), so `_import_axiom` of a sugar axiom is `Res.outside` — not an answer that
            # differs from the real converter's, but no answer; counted, and reported by c16 as coverage
            OUTSIDE_NOTATION[0] += 1
        elif conv != real:
            findings.append({'key': 'converter-differs', 'database': s[-1500:], 'lean': conv[:1500], 'python': real[:1500],
                             'what': 'correspondence: the generated converter (Pi2/Gen/MMConv.lean) and the real MetamathConverter answer a query differently'})
        if c is None:
            continue
        n_spec += 1
        if not spec.startswith('(spec '):
            findings.append({'key': 'spec-outside', 'database': s[-1500:], 'lean': spec[:300],
                             'what': 'the specification dbOfMDb rejects a generated database: ' + spec[:100]})
            continue
        x = sx.parse(spec)[0]
        consts = [bytes.fromhex(a[1:]).decode() for a in x[5][1]]
        want = c['specs'][name]
        # the check numbers constants `s<k>` by k and declared notations `n<k>` by 1000 + k (`c16.sym_id`); `dbOfMDb` by position among `$c`
        def cidx(k):
            k = int(k)
            return consts.index('n%d' % (k - 1000) if k >= 1000 else 's%d' % k)
        want = re.sub(r'\(con (\d+)', lambda m: '(con %d' % cidx(m.group(1)), want)
        wx = sx.parse('(' + want + ')')[0]
        wdb = list(wx[0])
        # constructor entries `(sym (args))` / `(sym (args) (body TERM))`: the body's constants are renumbered by the substitution above
        wdb[4] = ['ctors'] + [[str(cidx(cc[0]))] + list(cc[1:]) for cc in wdb[4][1:]]
        if not c['db'].with_app:
            wdb[3] = x[1][3]
        frag = x[-2]
        if x[-3] != ['shape', 'true']:
            findings.append({'key': 'not-in-shape', 'database': s[-1500:], 'shape': str(x[-3]),
                             'what': 'a generated database does not satisfy MM.ConvSpec.FragmentShape (hypothesis of converter_text_is_the_model_of_shape / translation_text_is_the_model_of_shape)'})
        # the run-time fragment of the converter TIE (ConvTie.InFragmentX) is notation-free: evaluated on the notation-free cases only
        if frag[:2] != ['frag', 'true'] and not c.get('notations'):
            findings.append({'key': 'not-in-fragment', 'database': s[-1500:], 'frag': str(frag),
                             'what': 'a generated database does not satisfy ConvTie.InFragmentX (hypothesis of converter_text_is_the_model / translation_text_is_the_model)'})
        if not (wdb == x[1] and wx[1] == x[2] and wx[2] == x[3] and wx[3] == x[4]) or x[-1] != ['wf', 'true']:
            findings.append({'key': 'spec-differs', 'database': s[-1500:], 'dbOfMDb': spec[:1500], 'check': want[:1500],
                             'what': 'the specification dbOfMDb applied to the parsed database differs from the model database the check builds from the generator'})
    return findings, n_spec, n_conv


def run(n=60, seed=1):
    rng = random.Random(seed)
    cases = [c16.make_case(rng, True) for _ in range(n)] + [c16.make_ncase(rng, True) for _ in range(n)]
    findings, n_spec, n_conv = compare(cases, EXTRA)
    for f in findings:
        print(json.dumps(f, indent=1)[:3000])
    print(f'try_conv: {n_spec} spec comparisons, {n_conv} converter comparisons ({OUTSIDE_NOTATION[0]} of them: generated converter outside its '
          f'fragment on a #Notation database), {len(findings)} disagreements')
    return len(findings)


if __name__ == '__main__':
    a = sys.argv[1:]
    sys.exit(1 if run(int(a[0]) if a else 60, int(a[1]) if len(a) > 1 else 1) else 0)
