"""Translator: matching and destructuring of generation/src/proof_generation/pattern.py (Python `ast`) -> Lean functions
(`Pi2/Gen/PyMatch.lean`), statement by statement, regenerated on every run:

  `MetaVar.can_be_replaced_by`, `Instantiate.simplify`, `Pattern.unwrap`, `Pattern.extract` (classmethods, `cls` becomes
  a parameter), `EVar / SVar / Symbol / Exists / Mu .deconstruct` (static methods), `match_single`, `match`,
  `Notation.matches`, `Notation.assert_matches`, and the table of pattern-valued dataclass fields sorted by field name
  (what `tuple([v for _, v in sorted(vars(pattern).items()) if isinstance(v, Pattern)])` in `unwrap` evaluates to).

`Pi2/MatchTie.lean` proves them equal to the hand-written model `NPat.headF`, `NPat.matchF`, `NPat.matchListF`,
`NPat.notationMatchesF` (`Pi2/Match.lean`) that the theorems of C13 are stated about.

Target language: the continuation-passing combinators of `Pi2/InterpSupport.lean` and `Pi2/MatchSupport.lean`
(`Py α = Option (Option α)`: outer `none` = out of fuel, inner `none` = an exception; a value that may be Python's `None`
is an `Option` inside).  Fuel: a function that calls itself is defined by cases on the fuel and passes `n` to every call
of its body; a `while` loop consumes one unit per iteration; a non-recursive function passes its fuel on.

Every expression has a static type (from the annotations); accepted statements:
  `pass`, `x: T` (declaration), `x = e`, `x: T = e`, `d[k] = v`, `return e`, `raise E(...)`, `assert x is not None[, msg]`,
  `if`/`else` (a branch that does not return continues with the statements after the `if`), with the tests
     `isinstance(x, C)` (C a class: the fields of `x` become available), `x is None`, `x is not None`, `x`, `not x`
     (x an optional local: narrowed in the branch where it is not `None` / truthy),
     `(a := e1) [and (b := e2)]` (truthiness, short-circuit, `a`/`b` narrowed in the body), any other boolean expression,
  `while isinstance(x, C): <assignments>`, `for a, b in equations: ...`.
Accepted expressions: names, `None`, `True`, `False`, integers, `{}`, `x.field` (x narrowed by `isinstance`, or `self`),
  `a is None`, `a is not None`, `a == b`, `a != b` (ids: pure; patterns: `NPat.peqF`, fuel), `k in d`, `d[k]`, `t[i]`,
  `not e`, `and`/`or`, `a if c else b`, `(a, b)`, `isinstance(e, C)`, `MetaVar(i)`, calls of the translated functions,
  `C.unwrap(e)`, `cls.unwrap(e)`, `C.extract(e)`, `C.deconstruct(e)`, `e.simplify()`, `e.can_be_replaced_by(e')`,
  `e.instantiate(d)`, `self.matches(e)`, `tuple(f(i) for i in range(k))`, and the literal field comprehension of `unwrap`.
Everything else is reported as a problem and makes the generated file define `translated := false`."""
from __future__ import annotations

import ast
import os

from . import core

# class -> (constructor of `NPat`, dataclass fields in the order of the constructor's arguments)
CLASSES = {
    'EVar': ('evar', ['name']), 'SVar': ('svar', ['name']), 'Symbol': ('sym', ['name']),
    'Implies': ('imp', ['left', 'right']), 'App': ('app', ['left', 'right']),
    'Exists': ('ex', ['var', 'subpattern']), 'Mu': ('mu', ['var', 'subpattern']),
    'MetaVar': ('mv', ['name', 'e_fresh', 's_fresh', 'positive', 'negative', 'app_ctx_holes']),
    'ESubst': ('esub', ['pattern', 'var', 'plug']), 'SSubst': ('ssub', ['pattern', 'var', 'plug']),
    'Instantiate': ('inst', ['pattern', 'inst']),
}
# annotation of a dataclass field -> (type of the field in the translation, is the value a `Pattern` object?)
FIELD_ANN = {'int': ('Int', False), 'str': ('Str', False), 'Pattern': ('Pat', True), 'MetaVar | ESubst | SSubst': ('Pat', True),
             'EVar': ('EVarO', True), 'SVar': ('SVarO', True), 'tuple[EVar, ...]': ('Vars', False),
             'tuple[SVar, ...]': ('Vars', False), 'InstantiationDict': ('Dict', False)}
ANN = {'Pattern': 'Pat', 'int': 'Int', 'str': 'Str', 'bool': 'Bool', 'dict[int, Pattern]': 'Dict',
       'dict[int, Pattern] | None': ('Opt', 'Dict'), 'tuple[Pattern, ...]': 'Tuple',
       'tuple[Pattern, ...] | None': ('Opt', 'Tuple'), 'None | tuple[Pattern, ...]': ('Opt', 'Tuple'),
       'int | None': ('Opt', 'Int'), 'str | None': ('Opt', 'Str'), 'tuple[int, Pattern] | None': ('Opt', 'Pair'),
       'list[tuple[Pattern, Pattern]]': 'Eqs'}
LEAN_TY = {'Pat': 'NPat', 'Int': 'Nat', 'Str': 'Nat', 'Bool': 'Bool', 'Dict': 'Dict', 'Tuple': 'List NPat',
           'Pair': 'Nat × NPat', 'Eqs': 'List (NPat × NPat)', 'Cls': 'PyClass', 'Notation': 'PyNotation',
           'EVarO': 'VId', 'SVarO': 'VId', 'Vars': 'List VId'}
TRUTHY = {'Dict': 'truthyDict', 'Tuple': 'truthyTuple', 'Pair': 'truthyPair', 'Int': 'truthyInt'}
FIELD_COMPREHENSION = 'tuple([v for _, v in sorted(vars(pattern).items()) if isinstance(v, Pattern)])'
KEYWORDS = {'match'}
# (class or None, function, kind); the order is the order of the generated file (callees first)
FUNCTIONS = [('MetaVar', 'can_be_replaced_by', 'method'), ('Instantiate', 'simplify', 'method'),
             ('Pattern', 'unwrap', 'classmethod'), ('Pattern', 'extract', 'classmethod'),
             ('EVar', 'deconstruct', 'staticmethod'), ('SVar', 'deconstruct', 'staticmethod'),
             ('Symbol', 'deconstruct', 'staticmethod'), ('Exists', 'deconstruct', 'staticmethod'),
             ('Mu', 'deconstruct', 'staticmethod'),
             (None, 'match_single', 'function'), (None, 'match', 'function'),
             ('Notation', 'matches', 'method'), ('Notation', 'assert_matches', 'method')]


class TrErr(Exception):
    pass


class NotPure(Exception):
    pass


def lty(t):
    if isinstance(t, tuple):
        return f'Option ({lty(t[1])})' if ' ' in lty(t[1]) else f'Option {lty(t[1])}'
    return LEAN_TY[t]


def is_opt(t):
    return isinstance(t, tuple) and t[0] == 'Opt'


def ann_ty(node):
    if node is None:
        raise TrErr('missing type annotation')
    u = ast.unparse(node)
    if u not in ANN:
        raise TrErr(f'type annotation {u}')
    return ANN[u]


def lname(n):
    return f'«{n}»' if n in KEYWORDS else n


def indent(lines):
    return ['  ' + l for l in lines]


def wrap(opener, body, closer=''):
    """opener (\n  body…) closer"""
    if not body:
        raise TrErr('internal: empty block')
    b = indent(body)
    b[-1] = b[-1] + ')' + closer
    return [opener + ' ('] + b


def terminates(stmts):
    if not stmts:
        return False
    s = stmts[-1]
    if isinstance(s, (ast.Return, ast.Raise)):
        return True
    if isinstance(s, ast.If) and s.orelse:
        return terminates(s.body) and terminates(s.orelse)
    return False


class Var:
    def __init__(self, lean, ty, cls=None, fields=None):
        self.lean, self.ty, self.cls, self.fields = lean, ty, cls, fields or {}


class Sig:
    def __init__(self, lean, kind, params, defaults, ret, fuel):
        self.lean, self.kind, self.params, self.defaults, self.ret, self.fuel = lean, kind, params, defaults, ret, fuel


class F:
    """translation of one function body"""

    def __init__(self, mod, owner, fn, kind):
        self.mod, self.owner, self.fn, self.kind = mod, owner, fn, kind
        self.qual = f'{owner}.{fn.name}' if owner else fn.name
        self.tmp = 0
        self.fuel = False
        self.recursive = False
        self.env = {}
        self.params = []
        self.defaults = {}
        a = fn.args
        if a.vararg or a.kwarg or a.kwonlyargs or a.posonlyargs:
            raise TrErr('parameter list')
        args = list(a.args)
        want_first = {'method': 'self', 'classmethod': 'cls'}.get(kind)
        if want_first:
            if not args or args[0].arg != want_first:
                raise TrErr(f'first parameter is not `{want_first}`')
            args = args[1:]
        ndef = len(a.defaults)
        for i, p in enumerate(args):
            ty = ann_ty(p.annotation)
            self.params.append((p.arg, ty))
            self.env[p.arg] = Var('a_' + p.arg, ty)
            j = i - (len(args) - ndef)
            if j >= 0:
                d = a.defaults[j]
                if isinstance(d, ast.Constant) and d.value is None and is_opt(ty):
                    self.defaults[p.arg] = 'none'
                else:
                    raise TrErr('default value ' + ast.unparse(d))
        self.ret = ann_ty(fn.returns)
        if kind == 'classmethod':
            self.env['cls'] = Var('cls', 'Cls')
        if kind == 'method':
            if owner == 'Notation':
                self.env['self'] = Var('self', 'Notation')
            else:
                self.env['self'] = self.narrowed('self', 'self', owner)

    # ---- helpers -----------------------------------------------------------------------------
    def fresh(self):
        self.tmp += 1
        return f't{self.tmp}'

    def narrowed(self, pyname, lean, cls):
        fields = {}
        for f, (ty, _) in self.mod.fields[cls]:
            fields[f] = (f'b_{pyname}_{f}', ty)
        return Var(lean, 'Pat', cls, fields)

    def ctor_pattern(self, pyname, cls):
        con, order = CLASSES[cls]
        return f'.{con} ' + ' '.join(f'b_{pyname}_{f}' for f in order)

    def truth(self, v, ty):
        if ty == 'Bool':
            return v
        if ty == 'Dict':
            return f'(!{v}.isEmpty)'
        if ty == 'Int':
            return f'({v} != 0)'
        if is_opt(ty) and ty[1] in TRUTHY:
            return f'({TRUTHY[ty[1]]} {v}).isSome'
        raise TrErr(f'truth value of a {ty}')

    def co(self, v, ty, want):
        if ty == want:
            return v
        if ty == 'NoneT' and is_opt(want):
            return 'none'
        if is_opt(want) and ty == want[1]:
            return f'(some {v})'
        raise TrErr(f'a value of type {ty} where {want} is expected: {v}')

    def join(self, t1, t2):
        if t1 == t2:
            return t1
        if t1 == 'NoneT' and is_opt(t2):
            return t2
        if t2 == 'NoneT' and is_opt(t1):
            return t1
        if t1 == 'NoneT':
            return ('Opt', t2)
        if t2 == 'NoneT':
            return ('Opt', t1)
        if is_opt(t1) and t1[1] == t2:
            return t1
        if is_opt(t2) and t2[1] == t1:
            return t2
        raise TrErr(f'the branches have the types {t1} / {t2}')

    def class_const(self, x):
        return isinstance(x, ast.Name) and x.id in CLASSES and x.id not in self.env

    # ---- pure expressions: (lean, type) or NotPure -------------------------------------------
    def pure(self, x):
        if isinstance(x, ast.Name):
            if x.id in self.env:
                v = self.env[x.id]
                return v.lean, v.ty
            raise TrErr(f'unknown name {x.id}')
        if isinstance(x, ast.Constant):
            if x.value is None:
                return 'none', 'NoneT'
            if isinstance(x.value, bool):
                return ('true' if x.value else 'false'), 'Bool'
            if isinstance(x.value, int):
                return str(x.value), 'Int'
            raise TrErr('constant ' + ast.unparse(x))
        if isinstance(x, ast.Dict) and not x.keys:
            return '[]', 'Dict'
        if isinstance(x, ast.Attribute):
            if isinstance(x.value, ast.Name) and x.value.id in self.env:
                v = self.env[x.value.id]
                if v.ty == 'Notation' and x.attr in self.mod.notation_fields:
                    return f'{v.lean}.{x.attr}', self.mod.notation_fields[x.attr]
                if v.cls is not None:
                    if x.attr in v.fields:
                        return v.fields[x.attr]
                    raise TrErr(f'{v.cls} has no field {x.attr}')
                raise TrErr(f'attribute of a value whose class is not known: {ast.unparse(x)}')
            raise TrErr('attribute ' + ast.unparse(x))
        if isinstance(x, ast.Tuple) and len(x.elts) == 2:
            a, at = self.pure(x.elts[0])
            b, bt = self.pure(x.elts[1])
            if at == 'Int' and bt == 'Pat':
                return f'({a}, {b})', 'Pair'
            raise TrErr(f'a tuple of a {at} and a {bt}')
        if isinstance(x, ast.UnaryOp) and isinstance(x.op, ast.Not):
            v, ty = self.pure(x.operand)
            return f'(!{self.truth(v, ty)})', 'Bool'
        if isinstance(x, ast.BoolOp):
            parts = []
            for o in x.values:
                v, ty = self.pure(o)
                parts.append(self.truth(v, ty))
            return '(' + (' && ' if isinstance(x.op, ast.And) else ' || ').join(parts) + ')', 'Bool'
        if isinstance(x, ast.Compare) and len(x.ops) == 1:
            op = x.ops[0]
            l, lt = self.pure(x.left)
            r, rt = self.pure(x.comparators[0])
            if isinstance(op, (ast.Is, ast.IsNot)):
                if rt == 'NoneT' and is_opt(lt):
                    return f'{l}.{"isNone" if isinstance(op, ast.Is) else "isSome"}', 'Bool'
                raise TrErr('comparison ' + ast.unparse(x))
            if isinstance(op, (ast.Eq, ast.NotEq)):
                sym = '==' if isinstance(op, ast.Eq) else '!='
                ids = ('Int', 'Str', ('Opt', 'Int'), ('Opt', 'Str'))
                if lt in ids and rt == lt:
                    return f'({l} {sym} {r})', 'Bool'
                if lt == 'Pat' and rt == 'Pat':
                    raise NotPure()
                raise TrErr(f'comparison of a {lt} with a {rt}: ' + ast.unparse(x))
            if isinstance(op, (ast.In, ast.NotIn)):
                if lt == 'Int' and rt == 'Dict':
                    t = f'(dictHas {r} {l})'
                    return (t if isinstance(op, ast.In) else f'(!{t})'), 'Bool'
            raise TrErr('comparison ' + ast.unparse(x))
        if isinstance(x, ast.Subscript):
            v, ty = self.pure(x.value)
            if ty == 'Pair' and isinstance(x.slice, ast.Constant) and x.slice.value in (0, 1):
                return (f'{v}.1', 'Int') if x.slice.value == 0 else (f'{v}.2', 'Pat')
            if ty in ('Dict', 'Tuple'):
                raise NotPure()
            raise TrErr(f'subscript of a {ty}: ' + ast.unparse(x))
        if isinstance(x, ast.IfExp):
            return self.ifexp_pure(x)
        if isinstance(x, ast.Call):
            if ast.unparse(x) == FIELD_COMPREHENSION and 'pattern' in self.env and self.env['pattern'].ty == 'Pat':
                return f'(patternFields {self.env["pattern"].lean})', 'Tuple'
            f = x.func
            if isinstance(f, ast.Name) and f.id == 'isinstance' and len(x.args) == 2 and not x.keywords:
                v, ty = self.pure(x.args[0])
                if ty != 'Pat':
                    raise TrErr('isinstance of a ' + str(ty))
                c = x.args[1]
                if self.class_const(c) or (isinstance(c, ast.Name) and c.id == 'Pattern' and 'Pattern' not in self.env):
                    return f'(isinstance {v} PyClass.{c.id})', 'Bool'
                cv, cty = self.pure(c)
                if cty == 'Cls':
                    return f'(isinstance {v} {cv})', 'Bool'
                raise TrErr('isinstance: ' + ast.unparse(x))
            if isinstance(f, ast.Name) and f.id == 'MetaVar' and len(x.args) == 1 and not x.keywords:
                v, ty = self.pure(x.args[0])
                if ty != 'Int':
                    raise TrErr('constructor call ' + ast.unparse(x))
                if not self.mod.metavar_defaults_ok:
                    raise TrErr('MetaVar(i): the defaults of the constraint fields are not `()`')
                return f'(NPat.mv {v} [] [] [] [] [])', 'Pat'
            raise NotPure()
        raise TrErr('expression ' + ast.unparse(x))

    def ifexp_pure(self, x):
        c = x.test
        if isinstance(c, ast.Name) and c.id in self.env and is_opt(self.env[c.id].ty):
            v = self.env[c.id]
            if v.ty[1] not in TRUTHY:
                raise TrErr(f'truth value of a {v.ty}')
            save = dict(self.env)
            self.env[c.id] = Var(v.lean, v.ty[1])
            try:
                a, at = self.pure(x.body)
            finally:
                self.env = save
            b, bt = self.pure(x.orelse)
            ty = self.join(at, bt)
            return f'(ifTruthy ({TRUTHY[v.ty[1]]} {v.lean}) (fun {v.lean} => {self.co(a, at, ty)}) {self.co(b, bt, ty)})', ty
        cv, cty = self.pure(c)
        a, at = self.pure(x.body)
        b, bt = self.pure(x.orelse)
        ty = self.join(at, bt)
        return f'(if {self.truth(cv, cty)} then {self.co(a, at, ty)} else {self.co(b, bt, ty)})', ty

    # ---- expressions with effects, continuation-passing: k(lean, type) -> lines ----------------
    def ex(self, x, k):
        try:
            v, ty = self.pure(x)
        except NotPure:
            return self.ex_eff(x, k)
        return k(v, ty)

    def ex_list(self, xs, k, acc=None):
        acc = acc or []
        if not xs:
            return k(acc)
        return self.ex(xs[0], lambda v, ty: self.ex_list(xs[1:], k, acc + [(v, ty)]))

    def py_term(self, x, want=None):
        """the expression as one Lean term of type `Py _`; returns (term, type)"""
        got = {}

        def k(v, ty):
            got['ty'] = ty
            return [f'ret {self.co(v, ty, want) if want else v}']
        lines = self.ex(x, k)
        if 'ty' not in got:
            raise TrErr('internal: expression without a value: ' + ast.unparse(x))
        if len(lines) == 2 and lines[0].startswith('call (') and lines[0].endswith(f') fun t{self.tmp} =>') and lines[1] == f'ret t{self.tmp}':
            return lines[0][len('call '):-len(f' fun t{self.tmp} =>')], got['ty']
        return '(' + ' '.join(l.strip() for l in lines) + ')', got['ty']

    def ex_eff(self, x, k):
        if isinstance(x, ast.UnaryOp) and isinstance(x.op, ast.Not):
            return self.ex(x.operand, lambda v, ty: k(f'(!{self.truth(v, ty)})', 'Bool'))
        if isinstance(x, ast.BoolOp):
            comb = 'andB' if isinstance(x.op, ast.And) else 'orB'
            terms = []
            for o in x.values:
                def kk(v, ty):
                    return [f'ret {self.truth(v, ty)}']
                lines = self.ex(o, kk)
                terms.append('(' + ' '.join(l.strip() for l in lines) + ')')
            t = terms[-1]
            for u in reversed(terms[:-1]):
                t = f'({comb} {u} {t})'
            r = self.fresh()
            return [f'call {t} fun {r} =>'] + k(r, 'Bool')
        if isinstance(x, ast.Compare) and len(x.ops) == 1:
            op = x.ops[0]

            def cmp(vs):
                (l, lt), (r, rt) = vs
                if isinstance(op, (ast.Eq, ast.NotEq)) and lt == 'Pat' and rt == 'Pat':
                    self.fuel = True
                    t = self.fresh()
                    return [f'fuel (NPat.peqF n {l} {r}) fun {t} =>'] + k(t if isinstance(op, ast.Eq) else f'(!{t})', 'Bool')
                if isinstance(op, (ast.Eq, ast.NotEq)) and lt == rt and lt in ('Int', 'Str', ('Opt', 'Int'), ('Opt', 'Str')):
                    return k(f'({l} {"==" if isinstance(op, ast.Eq) else "!="} {r})', 'Bool')
                if isinstance(op, (ast.Is, ast.IsNot)) and rt == 'NoneT' and is_opt(lt):
                    return k(f'{l}.{"isNone" if isinstance(op, ast.Is) else "isSome"}', 'Bool')
                raise TrErr(f'comparison of a {lt} with a {rt}: ' + ast.unparse(x))
            return self.ex_list([x.left, x.comparators[0]], cmp)
        if isinstance(x, ast.Subscript):
            def sub(vs):
                (v, ty), (i, ity) = vs
                t = self.fresh()
                if ty == 'Dict' and ity == 'Int':
                    return [f'dictGet {v} {i} fun {t} =>'] + k(t, 'Pat')
                if ty == 'Tuple' and ity == 'Int':
                    return [f'index {v} {i} fun {t} =>'] + k(t, 'Pat')
                if ty == 'Pair' and isinstance(x.slice, ast.Constant) and x.slice.value in (0, 1):
                    return k(f'{v}.1', 'Int') if x.slice.value == 0 else k(f'{v}.2', 'Pat')
                raise TrErr(f'subscript of a {ty}: ' + ast.unparse(x))
            return self.ex_list([x.value, x.slice], sub)
        if isinstance(x, ast.IfExp):
            def cond(cv, cty):
                got = []

                def kk(v, ty):
                    got.append(ty)
                    return k(v, ty)
                a = self.ex(x.body, kk)
                b = self.ex(x.orelse, kk)
                if len(got) != 2 or got[0] != got[1]:
                    raise TrErr(f'the branches of a conditional expression have different types: {got}')
                return wrap(f'if {self.truth(cv, cty)} then', a, ' else') + b
            return self.ex(x.test, cond)
        if isinstance(x, ast.Tuple) and len(x.elts) == 2:
            def tup(vs):
                (a, at), (b, bt) = vs
                if at == 'Int' and bt == 'Pat':
                    return k(f'({a}, {b})', 'Pair')
                raise TrErr(f'a tuple of a {at} and a {bt}')
            return self.ex_list(list(x.elts), tup)
        if isinstance(x, ast.Call):
            return self.call(x, k)
        raise TrErr('expression ' + ast.unparse(x))

    def invoke(self, sig, head_args, x, k, skip_first=None):
        """call of a translated function: evaluate the arguments left to right, then `call`"""
        names = [p for p, _ in sig.params]
        if len(x.args) > len(names):
            raise TrErr('too many arguments: ' + ast.unparse(x))
        given = dict(zip(names, x.args))
        for kw in x.keywords:
            if kw.arg is None or kw.arg not in names or kw.arg in given:
                raise TrErr('keyword argument: ' + ast.unparse(x))
            given[kw.arg] = kw.value
        order = [p for p in names if p in given]
        for p in names:
            if p not in given and p not in sig.defaults:
                raise TrErr(f'argument {p} missing: ' + ast.unparse(x))

        def done(vs):
            vals = dict(zip(order, vs))
            parts = [sig.lean] + head_args
            if sig.fuel:
                self.fuel = True
                parts.append('n')
            parts += skip_first or []
            for p, pty in sig.params:
                if p in vals:
                    parts.append(self.co(vals[p][0], vals[p][1], pty))
                else:
                    parts.append(sig.defaults[p])
            t = self.fresh()
            return [f'call ({" ".join(parts)}) fun {t} =>'] + k(t, sig.ret)
        return self.ex_list([given[p] for p in order], done)

    def sig_of(self, qual):
        if qual == self.qual:
            self.recursive = True
            self.fuel = True
            return Sig(self.lean_name(), self.kind, self.params, self.defaults, self.ret, True)
        if qual in self.mod.sigs:
            return self.mod.sigs[qual]
        raise TrErr(f'call of {qual}, which is not translated')

    def lean_name(self):
        return f'{self.owner}.{lname(self.fn.name)}' if self.owner else lname(self.fn.name)

    def call(self, x, k):
        f = x.func
        if isinstance(f, ast.Name):
            if f.id == 'tuple' and len(x.args) == 1 and isinstance(x.args[0], ast.GeneratorExp) and not x.keywords:
                return self.genexp(x.args[0], k)
            if f.id in self.mod.functions and f.id not in self.env:
                return self.invoke(self.sig_of(f.id), [], x, k)
            raise TrErr('call ' + ast.unparse(x))
        if isinstance(f, ast.Attribute):
            recv = f.value
            # C.unwrap(e) / C.extract(e) / cls.unwrap(e): classmethods of Pattern, inherited by every class
            if f.attr in self.mod.classmethods:
                if self.class_const(recv) or (isinstance(recv, ast.Name) and recv.id == 'Pattern'):
                    if f.attr in self.mod.overridden.get(recv.id, ()):
                        raise TrErr(f'{recv.id} overrides {f.attr}')
                    return self.invoke(self.sig_of('Pattern.' + f.attr), [f'PyClass.{recv.id}'], x, k)
                if isinstance(recv, ast.Name) and recv.id in self.env and self.env[recv.id].ty == 'Cls':
                    return self.invoke(self.sig_of('Pattern.' + f.attr), [self.env[recv.id].lean], x, k)
                raise TrErr('call ' + ast.unparse(x))
            # C.deconstruct(e): static method of the class C
            if self.class_const(recv) and f'{recv.id}.{f.attr}' in self.mod.statics:
                return self.invoke(self.sig_of(f'{recv.id}.{f.attr}'), [], x, k)
            # e.m(...): a method that exactly one class defines
            if f.attr in self.mod.methods:
                owner = self.mod.methods[f.attr]

                def withrecv(v, ty):
                    want = 'Notation' if owner == 'Notation' else 'Pat'
                    if ty != want:
                        raise TrErr(f'method {f.attr} of a {ty}')
                    return self.invoke(self.sig_of(f'{owner}.{f.attr}'), [], x, k, skip_first=[v])
                return self.ex(recv, withrecv)
            if f.attr == 'instantiate' and len(x.args) == 1 and not x.keywords:
                def inst(vs):
                    (p, pt), (d, dt) = vs
                    if pt != 'Pat' or dt != 'Dict':
                        raise TrErr('call ' + ast.unparse(x))
                    self.fuel = True
                    t = self.fresh()
                    return [f'fuel (NPat.instF n {d} {p}) fun {t} =>'] + k(t, 'Pat')
                return self.ex_list([recv, x.args[0]], inst)
        raise TrErr('call ' + ast.unparse(x))

    def genexp(self, g, k):
        if len(g.generators) != 1:
            raise TrErr('generator expression ' + ast.unparse(g))
        c = g.generators[0]
        it = c.iter
        if c.ifs or c.is_async or not isinstance(c.target, ast.Name) or not (
                isinstance(it, ast.Call) and isinstance(it.func, ast.Name) and it.func.id == 'range' and len(it.args) == 1 and not it.keywords):
            raise TrErr('generator expression ' + ast.unparse(g))
        bound, bty = self.pure(it.args[0])
        if bty != 'Int':
            raise TrErr('range of a ' + str(bty))
        save = dict(self.env)
        self.env[c.target.id] = Var('v_' + c.target.id, 'Int')
        try:
            term, ty = self.py_term(g.elt)
        finally:
            self.env = save
        if ty != 'Pat':
            raise TrErr(f'a tuple of values of type {ty}')
        t = self.fresh()
        return [f'mapPy (List.range {bound}) (fun v_{c.target.id} => {term}) fun {t} =>'] + k(t, 'Tuple')

    # ---- statements --------------------------------------------------------------------------
    def ret_lines(self, v, ty):
        return [f'ret {self.co(v, ty, self.ret)}']

    def comment(self, st):
        src = ast.unparse(st).split('\n')
        return '-- ' + src[0] + (' …' if len(src) > 1 else '')

    def block(self, stmts, fall):
        """`fall`: None at the end of the function body, else a function () -> lines (what happens after the block)"""
        if not stmts:
            if fall is None:
                raise TrErr('the function can end without `return`')
            return fall()
        st, rest = stmts[0], list(stmts[1:])
        if isinstance(st, ast.Expr) and isinstance(st.value, ast.Constant) and (st.value.value is Ellipsis or isinstance(st.value.value, str)):
            return self.block(rest, fall)
        out = [self.comment(st)]
        if isinstance(st, ast.Pass):
            return out + self.block(rest, fall)
        if isinstance(st, (ast.Return, ast.Raise)) and rest:
            raise TrErr('statement after return')
        if isinstance(st, ast.AnnAssign) and isinstance(st.target, ast.Name):
            want = ann_ty(st.annotation)
            if st.value is None:
                return out + self.block(rest, fall)                       # a declaration
            return out + self.ex(st.value, lambda v, ty: self.assign(st.target.id, self.co(v, ty, want), want, rest, fall))
        if isinstance(st, ast.Assign) and len(st.targets) == 1:
            tg = st.targets[0]
            if isinstance(tg, ast.Name):
                return out + self.ex(st.value, lambda v, ty: self.assign(tg.id, v, ty, rest, fall))
            if isinstance(tg, ast.Subscript) and isinstance(tg.value, ast.Name) and tg.value.id in self.env:
                d = self.env[tg.value.id]
                if d.ty != 'Dict':
                    raise TrErr(f'item assignment to a {d.ty}')

                def setitem(vs):
                    (kk, kt), (v, vt) = vs
                    if kt != 'Int' or vt != 'Pat':
                        raise TrErr('item assignment ' + ast.unparse(st))
                    return self.assign(tg.value.id, f'dictSet {d.lean} {kk} {v}', 'Dict', rest, fall)
                return out + self.ex_list([tg.slice, st.value], setitem)
            raise TrErr('assignment target ' + ast.unparse(tg))
        if isinstance(st, ast.Return):
            if st.value is None:
                return out + self.ret_lines('none', 'NoneT')
            return out + self.ex(st.value, self.ret_lines)
        if isinstance(st, ast.Raise):
            # the message is evaluated only to be raised: an exception either way
            return out + ['raise']
        if isinstance(st, ast.Assert):
            t = st.test
            if isinstance(t, ast.Compare) and len(t.ops) == 1 and isinstance(t.ops[0], ast.IsNot) and isinstance(t.left, ast.Name) \
                    and isinstance(t.comparators[0], ast.Constant) and t.comparators[0].value is None and t.left.id in self.env \
                    and is_opt(self.env[t.left.id].ty):
                v = self.env[t.left.id]
                self.env[t.left.id] = Var('v_' + t.left.id, v.ty[1])
                return out + [f'match {v.lean} with', '| none => raise', f'| some v_{t.left.id} =>'] + self.block(rest, fall)
            return out + self.ex(t, lambda v, ty: [f'assert_ {self.truth(v, ty)} <|'] + self.block(rest, fall))
        if isinstance(st, ast.If):
            return out + self.if_stmt(st, rest, fall)
        if isinstance(st, ast.While):
            return out + self.while_stmt(st, rest, fall)
        if isinstance(st, ast.For):
            return out + self.for_stmt(st, rest, fall)
        raise TrErr('statement ' + ast.unparse(st).split('\n')[0])

    def assign(self, name, v, ty, rest, fall):
        if ty == 'NoneT':
            raise TrErr(f'`{name} = None`')
        if not is_opt(ty) and ty not in LEAN_TY:
            raise TrErr(f'a local of type {ty}')
        self.env[name] = Var('v_' + name, ty)
        return [f'let v_{name} : {lty(ty)} := {v}'] + self.block(rest, fall)

    def branch(self, stmts, fall, env):
        save = self.env
        self.env = dict(env)
        try:
            return self.block(stmts, fall)
        finally:
            self.env = save

    def if_stmt(self, st, rest, fall):
        t_term, e_term = terminates(st.body), bool(st.orelse) and terminates(st.orelse)
        if t_term and e_term and rest:
            raise TrErr('statement after return')
        then_s = list(st.body) + ([] if t_term else rest)
        else_s = list(st.orelse) + ([] if e_term else rest)
        test = st.test
        env = dict(self.env)

        def arms(scrut, then_pat, then_env, else_pat, else_env):
            a = self.branch(then_s, fall, then_env)
            b = self.branch(else_s, fall, else_env)
            return [f'match {scrut} with'] + wrap(f'| {then_pat} =>', a) + [f'| {else_pat} =>'] + b

        # isinstance(x, C) with a class constant: the fields of x are available in the body
        if isinstance(test, ast.Call) and isinstance(test.func, ast.Name) and test.func.id == 'isinstance' and len(test.args) == 2 \
                and isinstance(test.args[0], ast.Name) and test.args[0].id in env and self.class_const(test.args[1]) \
                and env[test.args[0].id].ty == 'Pat':
            nm, cls = test.args[0].id, test.args[1].id
            v = env[nm]
            tenv = dict(env)
            tenv[nm] = self.narrowed(nm, v.lean, cls)
            return arms(v.lean, self.ctor_pattern(nm, cls), tenv, '_', env)
        # x is None / x is not None / x / not x   on an optional local
        neg, nm, truthy = None, None, False
        if isinstance(test, ast.Compare) and len(test.ops) == 1 and isinstance(test.ops[0], (ast.Is, ast.IsNot)) \
                and isinstance(test.left, ast.Name) and isinstance(test.comparators[0], ast.Constant) and test.comparators[0].value is None:
            nm, neg = test.left.id, isinstance(test.ops[0], ast.Is)
        elif isinstance(test, ast.Name):
            nm, neg, truthy = test.id, False, True
        elif isinstance(test, ast.UnaryOp) and isinstance(test.op, ast.Not) and isinstance(test.operand, ast.Name):
            nm, neg, truthy = test.operand.id, True, True
        if nm is not None and nm in env and is_opt(env[nm].ty) and (not truthy or env[nm].ty[1] in TRUTHY):
            v = env[nm]
            senv = dict(env)
            senv[nm] = Var('v_' + nm, v.ty[1])
            scrut = f'{TRUTHY[v.ty[1]]} {v.lean}' if truthy else v.lean
            if neg:
                return arms(scrut, 'none', env, f'some v_{nm}', senv)
            return arms(scrut, f'some v_{nm}', senv, 'none', env)
        # (a := e1) [and (b := e2)]
        conj = test.values if isinstance(test, ast.BoolOp) and isinstance(test.op, ast.And) else [test]
        if all(isinstance(c, ast.NamedExpr) for c in conj):
            if len(conj) > 2:
                raise TrErr('more than two `:=` in a condition')
            parts, names = [], []
            tenv = dict(env)
            for c in conj:
                self.env = dict(tenv)               # the second conjunct sees the first binding, narrowed
                term, ty = self.py_term(c.value)
                if not (is_opt(ty) and ty[1] in TRUTHY):
                    raise TrErr(f'truth value of a {ty}')
                parts.append(f'{term} {TRUTHY[ty[1]]}')
                names.append('v_' + c.target.id)
                tenv[c.target.id] = Var('v_' + c.target.id, ty[1])
            self.env = env
            a = self.branch(then_s, fall, tenv)
            b = self.branch(else_s, fall, env)
            return wrap(f'ifAnd{len(conj)} {" ".join(parts)}', [f'fun {" ".join(names)} =>'] + a, ' <|') + b
        if any(isinstance(n, ast.NamedExpr) for n in ast.walk(test)):
            raise TrErr('`:=` in a condition that is not a conjunction of `:=`: ' + ast.unparse(test))

        def general(cv, cty):
            a = self.branch(then_s, fall, self.env)
            b = self.branch(else_s, fall, self.env)
            return wrap(f'if {self.truth(cv, cty)} then', a, ' else') + b
        return self.ex(test, general)

    def assigned(self, stmts):
        names = []
        for s in stmts:
            for n in ast.walk(s):
                tgs = n.targets if isinstance(n, ast.Assign) else [n.target] if isinstance(n, (ast.AnnAssign, ast.NamedExpr, ast.AugAssign)) else []
                for tg in tgs:
                    base = tg
                    while isinstance(base, ast.Subscript):
                        base = base.value
                    if not isinstance(base, ast.Name):
                        raise TrErr('assignment target ' + ast.unparse(tg))
                    if base.id not in names:
                        names.append(base.id)
        return names

    def while_stmt(self, st, rest, fall):
        if st.orelse:
            raise TrErr('while/else')
        state = [n for n in self.assigned(st.body) if n in self.env]
        local = [n for n in self.assigned(st.body) if n not in self.env]
        if len(state) != 1 or local:
            raise TrErr(f'a `while` loop whose body assigns {self.assigned(st.body)}')
        nm = state[0]
        v = self.env[nm]
        env = dict(self.env)
        self.env[nm] = Var('v_' + nm, v.ty)
        try:
            c, cty = self.pure(st.test)
        except NotPure:
            raise TrErr('a `while` condition with effects: ' + ast.unparse(st.test))
        if any(isinstance(n, (ast.Return, ast.Break, ast.Continue, ast.Raise)) for s in st.body for n in ast.walk(s)):
            raise TrErr('return / break / continue in a `while` loop')

        def loop_fall():
            w = self.env[nm]
            if w.ty != v.ty:
                raise TrErr(f'the loop changes the type of {nm}')
            return [f'ret {w.lean}']
        body = self.block(list(st.body), loop_fall)
        self.fuel = True
        self.env = env
        self.env[nm] = Var('v_' + nm, v.ty)
        return wrap(f'whileF (fun v_{nm} => {self.truth(c, cty)})', [f'fun n v_{nm} =>'] + body, f' n {v.lean} fun v_{nm} =>') \
            + self.block(rest, fall)

    def for_stmt(self, st, rest, fall):
        if st.orelse:
            raise TrErr('for/else')
        it, ity = self.pure(st.iter)
        tg = st.target
        if ity != 'Eqs' or not (isinstance(tg, ast.Tuple) and len(tg.elts) == 2 and all(isinstance(e, ast.Name) for e in tg.elts)):
            raise TrErr('for loop ' + ast.unparse(st).split('\n')[0])
        if any(isinstance(n, (ast.Break, ast.Continue)) for s in st.body for n in ast.walk(s)):
            raise TrErr('break / continue in a `for` loop')
        names = self.assigned(st.body)
        state = [n for n in names if n in self.env]
        if len(state) != 1:
            raise TrErr(f'a `for` loop whose body assigns {names}')
        nm = state[0]
        v = self.env[nm]
        env = dict(self.env)
        benv = dict(env)
        benv[nm] = Var('v_' + nm, v.ty)
        for e in tg.elts:
            benv[e.id] = Var('v_' + e.id, 'Pat')

        def loop_fall():
            w = self.env[nm]
            if w.ty != v.ty:
                raise TrErr(f'the loop changes the type of {nm}')
            return [f'continue_ {w.lean}']
        body = self.branch(list(st.body), loop_fall, benv)
        self.env = env
        self.env[nm] = Var('v_' + nm, v.ty)
        return wrap(f'forEach {it} {v.lean}', [f'fun (v_{tg.elts[0].id}, v_{tg.elts[1].id}) v_{nm} continue_ =>'] + body, f' fun v_{nm} =>') \
            + self.block(rest, fall)

    # ---- the definition ----------------------------------------------------------------------
    def definition(self):
        body = self.block(list(self.fn.body), None)
        if self.kind == 'method' and self.owner != 'Notation':
            # dynamic dispatch: only `owner` defines the method, any other receiver is an AttributeError
            body = ['match self with'] + wrap(f'| {self.ctor_pattern("self", self.owner)} =>', body) + ['| _ => raise']
        name = self.lean_name()
        pre = ' (cls : PyClass)' if self.kind == 'classmethod' else ''
        selfb = []
        if self.kind == 'method':
            selfb = [('self', 'PyNotation' if self.owner == 'Notation' else 'NPat')]
        binders = selfb + [('a_' + p, lty(t)) for p, t in self.params]
        rty = f'Py ({lty(self.ret)})' if ' ' in lty(self.ret) else f'Py {lty(self.ret)}'
        doc = f'/-- `{self.qual}` (line {self.fn.lineno}) -/'
        if self.recursive:
            arrow = ' → '.join(['Nat'] + [f'({t})' if ' ' in t else t for _, t in binders] + [rty])
            lines = [doc, f'def {name}{pre} : {arrow}',
                     '  | 0' + ', _' * len(binders) + ' => none',
                     '  | n + 1' + ''.join(', ' + b for b, _ in binders) + ' =>']
            return lines + ['    ' + l for l in body]
        bs = pre + (' (n : Nat)' if self.fuel else '') + ''.join(f' ({b} : {t})' for b, t in binders)
        return [doc, f'def {name}{bs} : {rty} :='] + indent(body)


class Module:
    def __init__(self, tree):
        self.tree = tree
        self.problems = []
        self.classes = {n.name: n for n in tree.body if isinstance(n, ast.ClassDef)}
        self.functions = {n.name: n for n in tree.body if isinstance(n, ast.FunctionDef)}
        self.fields = {}
        self.sigs = {}
        self.classmethods, self.statics, self.methods = set(), set(), {}
        self.overridden = {}
        self.notation_fields = {}
        self.metavar_defaults_ok = False

    def problem(self, s):
        self.problems.append('PyMatch: ' + s)

    def scan(self):
        """class hierarchy, dataclass fields, who defines which of the translated methods"""
        ok = True
        for cls, (con, order) in CLASSES.items():
            node = self.classes.get(cls)
            if node is None:
                self.problem(f'class {cls} not found'); ok = False
                self.fields[cls] = []
                continue
            bases = [ast.unparse(b) for b in node.bases]
            if bases != ['Pattern']:
                self.problem(f'{cls} has base classes {bases}, expected [Pattern]'); ok = False
            decos = [ast.unparse(d) for d in node.decorator_list]
            if decos != ['dataclass(frozen=True)']:
                self.problem(f'{cls} is decorated {decos}, expected [dataclass(frozen=True)]'); ok = False
            flds = []
            for n in node.body:
                if isinstance(n, ast.AnnAssign) and isinstance(n.target, ast.Name):
                    u = ast.unparse(n.annotation)
                    if u not in FIELD_ANN:
                        self.problem(f'{cls}.{n.target.id}: field annotation {u}'); ok = False
                        continue
                    flds.append((n.target.id, FIELD_ANN[u]))
            if [f for f, _ in flds] != order:
                self.problem(f'{cls} has the fields {[f for f, _ in flds]}, the model has {order}'); ok = False
            self.fields[cls] = flds
        base = self.classes.get('Pattern')
        if base is None or base.bases:
            self.problem('class Pattern not found or it has base classes'); ok = False
        mv = self.classes.get('MetaVar')
        if mv is not None:
            d = [(n.target.id, None if n.value is None else ast.unparse(n.value)) for n in mv.body if isinstance(n, ast.AnnAssign)]
            self.metavar_defaults_ok = d == [('name', None), ('e_fresh', '()'), ('s_fresh', '()'), ('positive', '()'),
                                            ('negative', '()'), ('app_ctx_holes', '()')]
        nt = self.classes.get('Notation')
        if nt is not None:
            for n in nt.body:
                if isinstance(n, ast.AnnAssign) and isinstance(n.target, ast.Name):
                    u = ast.unparse(n.annotation)
                    if n.target.id == 'definition' and u == 'Pattern':
                        self.notation_fields['definition'] = 'Pat'
                    if n.target.id == 'arity' and u == 'int':
                        self.notation_fields['arity'] = 'Int'
        # which class defines the translated methods; nobody may override them
        for owner, name, kind in FUNCTIONS:
            if kind == 'classmethod':
                self.classmethods.add(name)
            elif kind == 'staticmethod':
                self.statics.add(f'{owner}.{name}')
            elif kind == 'method':
                self.methods[name] = owner
        for cname, node in self.classes.items():
            for n in node.body:
                if not isinstance(n, ast.FunctionDef):
                    continue
                if n.name in self.classmethods and cname != 'Pattern':
                    self.overridden.setdefault(cname, set()).add(n.name)
                    self.problem(f'{cname} overrides the classmethod {n.name} of Pattern'); ok = False
                if n.name in self.methods and cname != self.methods[n.name] and cname in list(CLASSES) + ['Pattern', 'Notation']:
                    self.problem(f'{cname} also defines the method {n.name} (translated as a method of {self.methods[n.name]} only)'); ok = False
                if n.name == 'deconstruct' and f'{cname}.deconstruct' not in self.statics:
                    self.problem(f'{cname}.deconstruct has no tie theorem in Pi2/MatchTie.lean'); ok = False
        return ok

    def pattern_fields(self):
        """`tuple([v for _, v in sorted(vars(p).items()) if isinstance(v, Pattern)])` for each class"""
        lines = ['/-- the pattern-valued dataclass fields of a node, sorted by field name: what the comprehension',
                 f'`{FIELD_COMPREHENSION}` of `Pattern.unwrap` evaluates to -/',
                 'def patternFields : NPat → List NPat']
        for cls, (con, order) in CLASSES.items():
            vals = []
            for f, (ty, is_pat) in sorted(self.fields[cls], key=lambda t: t[0]):
                if is_pat:
                    vals.append({'EVarO': f'.evar b_{f}', 'SVarO': f'.svar b_{f}'}.get(ty, f'b_{f}'))
            lines.append(f'  | .{con} {" ".join("b_" + f for f in order)} => [{", ".join(vals)}]')
        return lines


def gen_py_match(srcpath=None, outdir=None):
    """srcpath: the pattern.py to read (default: /repo's); outdir: where PyMatch.lean is written (default: lean/Pi2/Gen)"""
    path = srcpath or os.path.join(core.PYSRC, 'proof_generation', 'pattern.py')
    lines = ['import Pi2.MatchSupport',
             '/-! GENERATED by /verif/vlib/transmatch.py from `match_single`, `match`, `Pattern.unwrap / extract`, the `deconstruct`',
             'static methods, `Instantiate.simplify`, `MetaVar.can_be_replaced_by`, `Notation.matches / assert_matches` and the dataclass',
             'fields of generation/src/proof_generation/pattern.py, statement by statement — do not edit.',
             '`Pi2/MatchTie.lean` proves these equal to the hand-written `NPat.headF`, `NPat.matchF`, `NPat.matchListF`,',
             '`NPat.notationMatchesF`. -/',
             'open PyI PyM',
             'set_option linter.unusedVariables false',
             'namespace Gen.PyMatch']
    ok = True
    problems = []
    try:
        mod = Module(ast.parse(open(path, encoding='utf-8').read()))
    except (OSError, SyntaxError) as ex:
        problems.append(f'PyMatch: {path}: {ex}')
        mod = None
        ok = False
    if mod is not None:
        ok = mod.scan()
        try:
            lines += mod.pattern_fields()
        except Exception as ex:   # noqa
            mod.problem(f'pattern fields: {ex}'); ok = False
        for owner, name, kind in FUNCTIONS:
            qual = f'{owner}.{name}' if owner else name
            if owner is None:
                fn = mod.functions.get(name)
            else:
                cnode = mod.classes.get(owner)
                fn = next((n for n in (cnode.body if cnode else []) if isinstance(n, ast.FunctionDef) and n.name == name), None)
            if fn is None:
                mod.problem(f'{qual} not found'); ok = False
                continue
            decos = [ast.unparse(d) for d in fn.decorator_list]
            if decos != ([] if kind in ('function', 'method') else [kind]):
                mod.problem(f'{qual} is decorated {decos}'); ok = False
                continue
            try:
                f = F(mod, owner, fn, kind)
                body = f.definition()
            except TrErr as ex:
                mod.problem(f'{qual}: {ex}'); ok = False
                lines.append(f'-- NOT TRANSLATED: {qual}: {ex}')
                continue
            except NotPure:
                mod.problem(f'{qual}: an operation with effects where a pure expression is required'); ok = False
                lines.append(f'-- NOT TRANSLATED: {qual}')
                continue
            mod.sigs[qual] = Sig(f.lean_name(), kind, f.params, f.defaults, f.ret, f.fuel)
            lines += body
        problems += mod.problems
    lines.append(f'def translated : Bool := {"true" if ok else "false"}')
    lines.append('end Gen.PyMatch')
    from .translate import _write_if_changed, GEN
    _write_if_changed(os.path.join(outdir or GEN, 'PyMatch.lean'), '\n'.join(lines) + '\n')
    return problems


if __name__ == '__main__':
    print(gen_py_match())
