"""Translator: the Kore conversion and the execution-proof generator (Python `ast`) -> `Pi2/Gen/PyKore.lean`, statement by
statement, regenerated on every run.  `Pi2/KoreTie.lean` proves the generated functions equal to the hand-written model
`Pi2/Kore.lean` (`Scope.resolveMv / resolveSortParam`, `convSort`, `conv`, `convertSubst`, `rewriteEventF`, `traceF`).

Sources
  generation/src/proof_generation/k/kore_convertion/language_semantics.py:
      `KSort.aml_symbol`, `KSymbol.aml_symbol`, `KSymbol.app` (properties), class `ConvertionScope` (the constant, `__init__`, all five
      methods), `LanguageSemantics._convert_sort`, `_convert_pattern` (every `case` in source order), `convert_pattern`,
      `convert_substitutions`
  generation/src/proof_generation/k/execution_proof_generation.py:
      `ExecutionProofExp.__init__`, `current_configuration`, `collect_functional_axioms`, `add_assumptions_for_rewrite_step`,
      `rewrite_event`, `from_proof_hints`
  generation/src/proof_generation/proofs/kore.py: only the labels of the module-level `Notation(...)` objects (`kl.kore_rewrites` -> "kore-rewrites")
  harness/py/pyk_stub.py: the field order of the `pyk.kore.syntax` classes (what a positional class pattern binds)

Target language: `Py α = Option (Option α)` (outer `none` = out of fuel, inner `none` = an exception) with the combinators of
`Pi2/InterpSupport.lean`, `Pi2/MatchSupport.lean` and `Pi2/KoreSupport.lean` (objects and the primitives that are not translated).

Conventions
  * an object that a function mutates in place (`ConvertionScope`, `LanguageSemantics`, `ExecutionProofExp`, a local `dict` / `list`) is a
    value; a function returns the objects among its parameters that it (or a callee) changes, in parameter order, before its result, and
    the caller rebinds the variable it passed.  Which parameters are changed is computed from the text (fixpoint).
    `x = self.<dict>[k]` with an object as value makes `x` an alias of the entry: every change of `x` is written back at once.
  * a function takes fuel `n` iff its text (or a callee) compares patterns with `==`, instantiates, matches a notation or destructures
    an application; `_convert_pattern` is structurally recursive on the Kore term: the `match pattern:` statement becomes the
    equations of the definition (cases in SOURCE order), a comprehension that calls the function itself becomes a function of the same
    `mutual` block.  A case for a Kore class that the model's `KTerm` does not have is listed as "outside the modelled fragment"
    (with its source text, so a change there changes the generated file) and is not translated.
  * `kore.And / kore.Or`: the model has exactly two operands; `ops` is the literal pair, `len(ops)` and `ops[<constant>]` are resolved
    on it (`ops[2]` is an `IndexError`).
  * an `if` whose branch does not return continues with the statements after the `if` (they are repeated in both branches).
Everything that is not recognised is a problem and makes the generated file define `translated := false`."""
from __future__ import annotations

import ast
import os

from . import core

HERE = os.path.dirname(os.path.abspath(__file__))
LS_PATH = ('proof_generation', 'k', 'kore_convertion', 'language_semantics.py')
EX_PATH = ('proof_generation', 'k', 'execution_proof_generation.py')
KL_PATH = ('proof_generation', 'proofs', 'kore.py')


class TrErr(Exception):
    pass


# ---------------------------------------------------------------------------------------------- types
LEAN_TY = {
    'Name': 'Nat', 'Int': 'Nat', 'Bool': 'Bool', 'Pat': 'NPat', 'MetaVar': 'NPat', 'EVarP': 'NPat', 'SymbolP': 'NPat',
    'PatList': 'List NPat', 'Dict': 'Dict', 'KSubst': 'KDict KTerm', 'KSort': 'KSort', 'KSortList': 'List KSort',
    'KTerm': 'KTerm', 'KTermList': 'List KTerm', 'ValStr': 'Nat', 'SymStr': 'Nat', 'Scope': 'PyScope', 'Sem': 'PySem',
    'Exec': 'PyExec', 'KSortObj': 'PyKSort', 'KSymbol': 'SymDecl', 'Notation': 'PyNotation', 'Rule': 'PyRule',
    'Axiom': 'PyAxiom', 'Hint': 'PyHint', 'HintList': 'List PyHint', 'Pf': 'Pf', 'CAxiom': 'ConvertedAxiom',
    'CAxiomList': 'List ConvertedAxiom', 'AxiomType': 'AxiomType', 'Unit': 'Unit', 'NameDict': 'KDict NPat',
    'ScopeDict': 'KDict PyScope', 'NameSubItems': 'List (Nat × KTerm)',
}
PAT_TYPES = ('Pat', 'MetaVar', 'EVarP', 'SymbolP')
MUTABLE = ('Scope', 'Sem', 'Exec')
ANN = {
    'str': 'Name', 'int': 'Int', 'bool': 'Bool', 'Pattern': 'Pat', 'MetaVar': 'MetaVar', 'EVar': 'EVarP', 'Symbol': 'SymbolP',
    'kore.Pattern': 'KTerm', 'kore.Sort | kore.SortVar': 'KSort', 'ConvertionScope': 'Scope', 'LanguageSemantics': 'Sem',
    'dict[str, kore.Pattern]': 'KSubst', 'dict[int, Pattern]': 'Dict', 'Notation': 'Notation', 'KRewritingRule': 'Rule',
    'proof.ProofThunk': 'Pf', 'None': 'Unit', 'list[ConvertedAxiom]': 'CAxiomList', 'Iterator[RewriteStepExpression]': 'HintList',
    'proof.ProofExp': ('Opt', 'Exec'), 'ExecutionProofExp | None': ('Opt', 'Exec'), 'KSymbol': 'KSymbol', 'list[Pattern]': 'PatList',
    'dict[str, EVar]': 'NameDict', 'dict[str, SVar]': 'NameDict', 'dict[str, MetaVar]': 'NameDict',
}
ELEM = {'PatList': 'Pat', 'KSortList': 'KSort', 'KTermList': 'KTerm', 'HintList': 'Hint', 'CAxiomList': 'CAxiom'}
LIST_OF = {v: k for k, v in ELEM.items()}

# fields of the objects of Pi2/KoreSupport.lean: class -> attribute -> (Lean projection, type)
SCOPE_FIELDS = ['_evars', '_svars', '_metavars', '_sort_param_metavars']
ATTRS = {
    'Scope': {f: (f, 'NameDict') for f in SCOPE_FIELDS},
    'Sem': {'_cached_axiom_scopes': ('_cached_axiom_scopes', 'ScopeDict')},
    'Exec': {'_init_config': ('_init_config', 'Pat'), '_curr_config': ('_curr_config', 'Pat'),
             'language_semantics': ('language_semantics', 'Sem')},
    'KSortObj': {'name': ('name', 'Name')},
    'KSymbol': {'name': ('name', 'Name'), 'is_cell': ('isCell', 'Bool'), 'is_functional': ('isFunctional', 'Bool')},
    'Rule': {'pattern': ('pattern', 'Pat'), 'ordinal': ('ordinal', 'Int')},
    'CAxiom': {'pattern': ('pattern', 'Pat'), 'kind': ('kind', 'AxiomType')},
    'Hint': {'configuration_before': ('configuration_before', 'Pat'), 'configuration_after': ('configuration_after', 'Pat'),
             'axiom': ('«axiom»', 'Axiom'), 'substitutions': ('substitutions', 'Dict')},
    'ValStr': {'value': (None, 'ValStr')},
}
# `len(self.<tuple>)` of a KSymbol: the model keeps the lengths
KSYMBOL_LEN = {'sort_params': 'nSortParams', 'input_sorts': 'nInputs'}
AXIOM_TYPES = ['Unclassified', 'RewriteRule', 'FunctionalSymbol', 'FunctionEvent', 'HookEvent']

# pyk.kore.syntax class -> (constructor of Kore.KTerm, [(field, kind)] in the order of the class's fields)
# kinds: name, sort, term, sorts, terms, ops2 (a pair of terms), valstr, None (not in the model)
KORE = {
    'EVar': ('evar', [('name', 'name'), ('sort', None)]),
    'App': ('app', [('symbol', 'name'), ('sorts', 'sorts'), ('args', 'terms')]),
    'DV': ('dv', [('sort', 'sort'), ('value', 'valstr')]),
    'Top': ('top', [('sort', 'sort')]), 'Bottom': ('bottom', [('sort', 'sort')]),
    'Not': ('not', [('sort', 'sort'), ('pattern', 'term')]), 'Next': ('next', [('sort', 'sort'), ('pattern', 'term')]),
    'And': ('and', [('sort', 'sort'), ('ops', 'ops2')]), 'Or': ('or', [('sort', 'sort'), ('ops', 'ops2')]),
    'Implies': ('implies', [('sort', 'sort'), ('left', 'term'), ('right', 'term')]),
    'Iff': ('iff', [('sort', 'sort'), ('left', 'term'), ('right', 'term')]),
    'Rewrites': ('rewrites', [('sort', 'sort'), ('left', 'term'), ('right', 'term')]),
    'Ceil': ('ceil', [('op_sort', 'sort'), ('sort', 'sort'), ('pattern', 'term')]),
    'Floor': ('floor', [('op_sort', 'sort'), ('sort', 'sort'), ('pattern', 'term')]),
    'Equals': ('equals', [('op_sort', 'sort'), ('sort', 'sort'), ('left', 'term'), ('right', 'term')]),
    'In': ('kin', [('op_sort', 'sort'), ('sort', 'sort'), ('left', 'term'), ('right', 'term')]),
}
KIND_TY = {'name': 'Name', 'sort': 'KSort', 'term': 'KTerm', 'sorts': 'KSortList', 'terms': 'KTermList', 'valstr': 'ValStr'}
OUTSIDE = ('SVar', 'Exists', 'Forall', 'Mu', 'Nu')
KEYWORDS = {'match', 'axiom', 'from', 'at', 'end', 'in', 'fun', 'do', 'then', 'else', 'have', 'show', 'open', 'by', 'let', 'if', 'with',
            'where', 'instance', 'class', 'structure', 'theorem', 'def', 'section', 'namespace', 'import', 'prefix', 'infix',
            'notation', 'macro', 'syntax', 'universe', 'mutual', 'local', 'private', 'example', 'abbrev', 'inductive',
            'deriving', 'attribute', 'return', 'for', 'unless', 'try', 'catch', 'finally', 'break', 'continue', 'Type', 'Prop',
            'Sort', 'suffices', 'calc', 'using', 'extends', 'mut', 'this', 'variable', 'include', 'omit', 'export', 'type'}


def lty(t):
    if isinstance(t, tuple) and t[0] == 'Opt':
        inner = lty(t[1])
        return f'Option ({inner})' if ' ' in inner else f'Option {inner}'
    if isinstance(t, tuple) and t[0] == 'Ops2':
        return 'List KTerm'
    return LEAN_TY[t]


def paren(t):
    return f'({t})' if ' ' in t else t


def is_opt(t):
    return isinstance(t, tuple) and t[0] == 'Opt'


def ann_ty(node, what=''):
    if node is None:
        raise TrErr(f'missing type annotation {what}')
    u = ast.unparse(node)
    if u not in ANN:
        raise TrErr(f'type annotation `{u}` {what}')
    return ANN[u]


def lname(prefix, n):
    s = prefix + n
    return f'«{s}»' if s in KEYWORDS else s


def indent(lines, k=1):
    return ['  ' * k + l for l in lines]


def wrap(opener, body, closer=''):
    if not body:
        raise TrErr('internal: empty block')
    b = indent(body)
    b[-1] = b[-1] + ')' + closer
    return [opener + ' ('] + b


def terminates(stmts):
    if not stmts:
        return False
    s = stmts[-1]
    if isinstance(s, (ast.Return, ast.Raise)):
        return True
    if isinstance(s, ast.If) and s.orelse:
        return terminates(s.body) and terminates(s.orelse)
    return False


def src1(st):
    s = ast.unparse(st).split('\n')
    return s[0] + (' …' if len(s) > 1 else '')


class Var:
    """a Python name in scope: Lean term, static type, and (for the subject pair of `kore.And`) its literal elements"""
    def __init__(self, lean, ty, elems=None, alias=None):
        self.lean, self.ty, self.elems, self.alias = lean, ty, elems, alias


class Sig:
    """what a caller needs to know about a translated function"""
    def __init__(self, lean, params, ret, mut, fuel, kind, owner):
        self.lean, self.params, self.ret, self.mut, self.fuel, self.kind, self.owner = lean, params, ret, mut, fuel, kind, owner


CLASS_OF = {'Scope': 'ConvertionScope', 'Sem': 'LanguageSemantics', 'Exec': 'ExecutionProofExp', 'KSortObj': 'KSort',
            'KSymbol': 'KSymbol'}
# primitives of Pi2/KoreSupport.lean: (receiver type, method) -> (Lean name, [argument types], result type, mutates receiver, fuel, in Py)
PRIMS = {
    ('Sem', 'get_sort'): ('get_sort', ['Name'], 'KSortObj', False, False, True),
    ('Sem', 'get_symbol'): ('get_symbol', ['Name'], 'KSymbol', False, False, True),
    ('Exec', 'add_axiom'): ('add_axiom', ['Pat'], 'Unit', True, True, True),
    ('Exec', 'add_assumptions'): ('add_assumptions', ['PatList'], 'Unit', True, True, True),
    ('Exec', 'add_claim'): ('add_claim', ['Pat'], 'Unit', True, False, False),
    ('Exec', 'add_proof_expression'): ('add_proof_expression', ['Pf'], 'Unit', True, False, False),
    ('Exec', 'load_axiom'): ('load_axiom', ['Pat'], 'Pf', False, False, False),
    ('Exec', 'dynamic_inst'): ('dynamic_inst', ['Pf', 'Dict'], 'Pf', False, False, False),
}


class F:
    """translation of one function body"""

    def __init__(self, mod, owner, fn, kind, assumed_mut, assumed_fuel):
        self.mod, self.owner, self.fn, self.kind = mod, owner, fn, kind
        self.qual = f'{owner}.{fn.name}' if owner else fn.name
        self.tmp = 0
        self.fuel = assumed_fuel
        self.assumed = list(assumed_mut)
        self.mutset = set()
        self.rebound = []
        self.env = {}
        self.params = []
        self.aux = []            # further definitions of the same `mutual` block (comprehensions)
        self.narrow = {}         # source text of an expression -> (Lean term, type) where an `isinstance` test has narrowed it
        self.declared = {}       # declared type of a local (`x: T = e`)
        self.recursive = False
        self.unstable = False
        a = fn.args
        if a.vararg or a.kwarg or a.kwonlyargs or a.posonlyargs or a.defaults:
            raise TrErr('parameter list')
        args = list(a.args)
        if kind in ('method', 'property'):
            if not args or args[0].arg != 'self':
                raise TrErr('first parameter is not `self`')
            sty = {v: k for k, v in CLASS_OF.items()}.get(owner)
            if sty is None:
                raise TrErr(f'methods of {owner} are not modelled')
            self.params.append(('self', sty))
            self.env['self'] = Var('self', sty)
            args = args[1:]
        for p in args:
            ty = ann_ty(p.annotation, f'of parameter {p.arg}')
            self.params.append((p.arg, ty))
            self.env[p.arg] = Var(lname('a_', p.arg), ty)
        self.ret = ann_ty(fn.returns, 'of the result')

    # ---- helpers -----------------------------------------------------------------------------
    def fresh(self):
        self.tmp += 1
        return f't{self.tmp}'

    def need_fuel(self):
        self.fuel = True

    def co(self, v, ty, want):
        if ty == want:
            return v
        if ty in PAT_TYPES and want in PAT_TYPES:
            return v
        if ty == 'NoneT' and is_opt(want):
            return 'none'
        if is_opt(want) and (ty == want[1] or (ty in PAT_TYPES and want[1] in PAT_TYPES)):
            return f'(some {v})'
        if ty == 'EmptyDict' and want in ('Dict', 'KSubst', 'NameDict', 'ScopeDict'):
            return '[]'
        if ty == 'EmptyList' and want in ELEM:
            return '[]'
        if isinstance(ty, tuple) and ty[0] == 'Ops2' and want == 'KTermList':
            return v
        raise TrErr(f'a value of type {ty} where {want} is expected: {v}')

    def lean_self_name(self):
        return f'{self.owner}.{self.fn.name}' if self.owner else self.fn.name

    def note_mut(self, pyname):
        """the object bound to `pyname` has just been rebound to its changed value"""
        if pyname not in self.rebound:
            self.rebound.append(pyname)
        if any(p == pyname and t in MUTABLE for p, t in self.params):
            self.mutset.add(pyname)

    def writeback(self, pyname):
        """lines that keep the owner of an alias up to date"""
        v = self.env[pyname]
        if v.alias is None:
            return []
        owner, attr, key = v.alias
        o = self.env[owner]
        proj = ATTRS[o.ty][attr][0]
        self.note_mut(owner)
        return [f'let {o.lean} : {lty(o.ty)} := {{ {o.lean} with {proj} := kSet {o.lean}.{proj} {key} {v.lean} }}'] + self.writeback(owner)

    # ---- expressions (continuation-passing: k(lean, type) -> lines) ----------------------------
    def ev_list(self, xs, k, acc=None):
        acc = acc or []
        if not xs:
            return k(acc)
        return self.ev(xs[0], lambda v, ty: self.ev_list(xs[1:], k, acc + [(v, ty)]))

    def try_pure(self, x):
        """(lean, type) if the expression needs no binder, else None"""
        got = {}

        def k(v, ty):
            got['r'] = (v, ty)
            return []
        save = (self.tmp, dict(self.env), set(self.mutset), list(self.rebound), self.fuel)
        lines = self.ev(x, k)
        if lines or 'r' not in got:
            self.tmp, self.env, self.mutset, self.rebound, self.fuel = save
            return None
        return got['r']

    def ev(self, x, k):
        if isinstance(x, ast.Name):
            if x.id in self.env:
                v = self.env[x.id]
                if v.ty == 'Subject':
                    raise TrErr(f'the subject `{x.id}` of the `match` is used as a whole inside a case (the model only has its parts)')
                return k(v.lean, v.ty)
            raise TrErr(f'unknown name {x.id}')
        if isinstance(x, ast.Constant):
            if x.value is None:
                return k('none', 'NoneT')
            if isinstance(x.value, bool):
                return k('true' if x.value else 'false', 'Bool')
            if isinstance(x.value, int):
                return k(str(x.value), 'Int')
            if isinstance(x.value, str):
                return k('"' + x.value.replace('\\', '\\\\').replace('"', '\\"') + '"', 'StrLit')
            raise TrErr('constant ' + ast.unparse(x))
        if isinstance(x, ast.Dict) and not x.keys:
            return k('[]', 'EmptyDict')
        if isinstance(x, ast.List) and not x.elts:
            return k('[]', 'EmptyList')
        if isinstance(x, ast.Attribute):
            return self.ev_attr(x, k)
        if isinstance(x, ast.UnaryOp) and isinstance(x.op, ast.Not):
            return self.ev(x.operand, lambda v, ty: k(f'(!{self.truth(v, ty)})', 'Bool'))
        if isinstance(x, ast.Compare) and len(x.ops) == 1:
            return self.ev_compare(x, k)
        if isinstance(x, ast.BinOp) and isinstance(x.op, ast.Add):
            def add(vs):
                (a, at), (b, bt) = vs
                if at == 'Int' and bt == 'Int':
                    return k(f'({a} + {b})', 'Int')
                if at == 'StrLit' and bt == 'Name':
                    return k(f'(symbolName {a} {b})', 'SymStr')
                if at in ELEM and bt == at:
                    return k(f'({a} ++ {b})', at)
                raise TrErr(f'`+` of a {at} and a {bt}: ' + ast.unparse(x))
            return self.ev_list([x.left, x.right], add)
        if isinstance(x, ast.Subscript):
            return self.ev_subscript(x, k)
        if isinstance(x, ast.Call):
            return self.ev_call(x, k)
        if isinstance(x, ast.ListComp):
            return self.ev_listcomp(x, k)
        raise TrErr('expression ' + ast.unparse(x))

    def truth(self, v, ty):
        if ty == 'Bool':
            return v
        if ty in ('Dict', 'KSubst', 'NameDict', 'ScopeDict') or ty in ELEM:
            return f'(!{v}.isEmpty)'
        raise TrErr(f'truth value of a {ty}')

    def ev_attr(self, x, k):
        recv = x.value
        if ast.unparse(x) in self.narrow:
            return k(*self.narrow[ast.unparse(x)])
        if isinstance(recv, ast.Name) and recv.id not in self.env:
            if recv.id == 'kl':
                label = self.mod.kl_labels.get(x.attr)
                if label is None:
                    raise TrErr(f'kl.{x.attr} is not a module-level Notation of proofs/kore.py')
                t = self.fresh()
                return [f'call (kl "{label}") fun {t} =>'] + k(t, 'Notation')
            if recv.id == 'AxiomType' and x.attr in AXIOM_TYPES:
                return k(f'AxiomType.{x.attr}', 'AxiomType')
            raise TrErr('attribute ' + ast.unparse(x))

        def got(v, ty):
            if ty == 'Scope' and x.attr in self.mod.scope_consts:
                return k(f'ConvertionScope.{x.attr}', 'Int')
            if ty in ATTRS and x.attr in ATTRS[ty]:
                proj, fty = ATTRS[ty][x.attr]
                return k(v if proj is None else f'{v}.{proj}', fty)
            if ty == 'KSort' and x.attr == 'name':
                return k(f'(sortName {v})', 'Name')
            if ty in CLASS_OF and f'{CLASS_OF[ty]}.{x.attr}' in self.mod.sigs:
                sig = self.mod.sigs[f'{CLASS_OF[ty]}.{x.attr}']
                if sig.kind != 'property':
                    raise TrErr(f'{ast.unparse(x)}: a method used as a value')
                return self.emit_call(sig, [(v, ty)], [None], k)
            if ty in PAT_TYPES and x.attr == 'name':
                t = self.fresh()
                return [f'mvName {v} fun {t} =>'] + k(t, 'Int')
            raise TrErr(f'attribute {x.attr} of a {ty}: ' + ast.unparse(x))
        return self.ev(recv, got)

    def ev_compare(self, x, k):
        op = x.ops[0]
        l, r = x.left, x.comparators[0]
        # `self.name == '<literal>'` on a KSymbol
        if isinstance(op, (ast.Eq, ast.NotEq)) and isinstance(l, ast.Attribute) and l.attr == 'name' and isinstance(r, ast.Constant) \
                and isinstance(r.value, str):
            def got(v, ty):
                if ty != 'KSymbol':
                    raise TrErr(f'comparison of the name of a {ty} with a literal: ' + ast.unparse(x))
                t = f'(nameIs {v} "{r.value}")'
                return k(t if isinstance(op, ast.Eq) else f'(!{t})', 'Bool')
            return self.ev(l.value, got)

        def cmp(vs):
            (a, at), (b, bt) = vs
            if isinstance(op, (ast.In, ast.NotIn)):
                if at == 'Name' and bt in ('NameDict', 'ScopeDict', 'KSubst') or at == 'Int' and bt == 'ScopeDict':
                    t = f'(kHas {b} {a})'
                elif at == 'Int' and bt == 'Dict':
                    t = f'(dictHas {b} {a})'
                else:
                    raise TrErr(f'`in` of a {at} in a {bt}: ' + ast.unparse(x))
                return k(t if isinstance(op, ast.In) else f'(!{t})', 'Bool')
            if isinstance(op, (ast.Is, ast.IsNot)) and bt == 'NoneT' and is_opt(at):
                return k(f'{a}.{"isNone" if isinstance(op, ast.Is) else "isSome"}', 'Bool')
            if isinstance(op, (ast.Eq, ast.NotEq)):
                if at in PAT_TYPES and bt in PAT_TYPES:
                    self.need_fuel()
                    t = self.fresh()
                    return [f'fuel (NPat.peqF n {a} {b}) fun {t} =>'] + k(t if isinstance(op, ast.Eq) else f'(!{t})', 'Bool')
                if at == bt and at in ('Int', 'Name'):
                    return k(f'({a} {"==" if isinstance(op, ast.Eq) else "!="} {b})', 'Bool')
            raise TrErr(f'comparison of a {at} with a {bt}: ' + ast.unparse(x))
        return self.ev_list([l, r], cmp)

    def ev_subscript(self, x, k):
        def sub(vs):
            (v, ty), (i, ity) = vs
            if isinstance(ty, tuple) and ty[0] == 'Ops2':
                if not (isinstance(x.slice, ast.Constant) and isinstance(x.slice.value, int) and x.slice.value >= 0):
                    raise TrErr('the operands of a binary connective are indexed by a non-constant: ' + ast.unparse(x))
                if x.slice.value >= len(ty[1]):
                    return ['raise']                       # IndexError
                return k(ty[1][x.slice.value], 'KTerm')
            t = self.fresh()
            if ty == 'NameDict' and ity == 'Name':
                return [f'kGet {v} {i} fun {t} =>'] + k(t, 'Pat')
            if ty == 'ScopeDict' and ity in ('Int', 'Name'):
                return [f'kGet {v} {i} fun {t} =>'] + k(t, 'Scope')
            if ty == 'Dict' and ity == 'Int':
                return [f'dictGet {v} {i} fun {t} =>'] + k(t, 'Pat')
            if ty == 'PatList' and ity == 'Int':
                return [f'tupleIndex {v} {i} fun {t} =>'] + k(t, 'Pat')
            raise TrErr(f'subscript of a {ty} by a {ity}: ' + ast.unparse(x))
        return self.ev_list([x.value, x.slice], sub)

    def ev_listcomp(self, x, k):
        if len(x.generators) != 1:
            raise TrErr('comprehension ' + ast.unparse(x))
        g = x.generators[0]
        if g.ifs or g.is_async or not isinstance(g.target, ast.Name):
            raise TrErr('comprehension ' + ast.unparse(x))

        def over(it, ity):
            if ity not in ELEM:
                raise TrErr(f'comprehension over a {ity}: ' + ast.unparse(x))
            var = g.target.id
            lv = lname('v_', var)
            save_env = dict(self.env)
            self.env[var] = Var(lv, ELEM[ity])
            try:
                p = self.try_pure(x.elt)
                if p is not None:
                    ev_, ety = p
                    self.env = save_env
                    if ety in PAT_TYPES:
                        ety = 'Pat'
                    if ety not in LIST_OF:
                        raise TrErr(f'a list of {ety}')
                    return k(f'({it}.map fun {lv} => {ev_})', LIST_OF[ety])
                return self.comp_eff(x, it, ity, var, lv, save_env, k)
            finally:
                self.env = save_env
        return self.ev(g.iter, over)

    def comp_eff(self, x, it, ity, var, lv, save_env, k):
        """`[f(.., x) for x in xs]` where the element changes objects: `mapS`, or (a call of the function itself) a function of the
        same `mutual` block, recursive on the list"""
        got = {}
        before_rebound = list(self.rebound)
        self.rebound = []

        def kk(v, ty):
            got['ty'] = ty
            return ['RET ' + v]
        rec_before = self.recursive
        self.recursive = False
        lines = self.ev(x.elt, kk)
        is_rec = self.recursive
        self.recursive = rec_before or is_rec
        state = [n for n in self.rebound if n in save_env]
        self.rebound = before_rebound + [n for n in self.rebound if n not in before_rebound]
        ety = got.get('ty')
        if ety in PAT_TYPES:
            ety = 'Pat'
        if ety not in LIST_OF:
            raise TrErr(f'a list of {ety}: ' + ast.unparse(x))
        if not state and is_rec:
            # first round of the fixpoint: which parameters the function itself changes is not known yet
            self.unstable = True
            return k('[]', LIST_OF[ety])
        if len(state) != 1:
            raise TrErr(f'a comprehension whose element changes {state}: ' + ast.unparse(x))
        st = save_env[state[0]]
        if lines[-1].startswith('RET '):
            val = lines[-1][4:]
        else:
            raise TrErr('internal: comprehension element')
        body = lines[:-1] + [f'ret ({st.lean}, {val})']
        self.env = save_env
        t = self.fresh()
        if not is_rec:
            out = wrap(f'mapS {it} {st.lean}', [f'fun {st.lean} {lv} =>'] + body, f' fun {st.lean} {t} =>')
        else:
            # free variables of the element: only the parameters that are passed on unchanged and the threaded object
            idx = len(self.aux) + 1
            name = f'{self.lean_self_name()}.comp{idx}'
            fixed = [(p, ty) for p, ty in self.params if p != state[0] and ty in MUTABLE]
            for n_ in ast.walk(x.elt):
                if isinstance(n_, ast.Name) and n_.id not in (var, state[0]) and n_.id in save_env \
                        and n_.id not in [p for p, _ in fixed]:
                    raise TrErr(f'a recursive comprehension that reads the local {n_.id}: ' + ast.unparse(x))
            hdr = ''.join(f' ({save_env[p].lean} : {lty(ty)})' for p, ty in fixed)
            call_args = ''.join(f' {save_env[p].lean}' for p, _ in fixed)
            fu = ' n' if self.fuel else ''
            fub = ' (n : Nat)' if self.fuel else ''
            ts = self.fresh()
            d = [f'/-- the comprehension `{ast.unparse(x)}` of `{self.qual}` (line {x.lineno}) -/',
                 f'def {name}{fub}{hdr} : {lty(st.ty)} → {paren(lty(ity))} → Py ({lty(st.ty)} × {paren(lty(LIST_OF[ety]))})',
                 f'  | {st.lean}, [] => ret ({st.lean}, [])',
                 f'  | {st.lean}, {lv} :: rest_ =>']
            elem = lines[:-1] + [f'call ({name}{fu}{call_args} {st.lean} rest_) fun ({st.lean}, {ts}) =>', f'ret ({st.lean}, {val} :: {ts})']
            self.aux.append(d + indent(elem, 2))
            out = [f'call ({name}{fu}{call_args} {st.lean} {it}) fun ({st.lean}, {t}) =>']
        self.note_mut(state[0])
        return out + self.writeback(state[0]) + k(t, LIST_OF[ety])

    # ---- calls -------------------------------------------------------------------------------
    def own_sig(self):
        return Sig(self.lean_self_name(), self.params, self.ret, list(self.assumed), self.fuel, self.kind, self.owner)

    def sig_of(self, qual):
        if qual == self.qual:
            self.recursive = True
            return self.own_sig()
        return self.mod.sigs.get(qual)

    def emit_call(self, sig, vals, nodes, k):
        """`vals`: (lean, type) per parameter of `sig`, `nodes`: the argument expressions (None = not a variable)"""
        if len(vals) != len(sig.params):
            raise TrErr(f'{sig.lean}: {len(vals)} arguments for {len(sig.params)} parameters')
        parts = [sig.lean]
        if sig.fuel:
            self.need_fuel()
            parts.append('n')
        for (v, ty), (p, pty) in zip(vals, sig.params):
            parts.append(self.co(v, ty, pty))
        binders, after = [], []
        for p in sig.mut:
            i = [q for q, _ in sig.params].index(p)
            node = nodes[i]
            if not (isinstance(node, ast.Name) and node.id in self.env):
                raise TrErr(f'{sig.lean} changes its argument {p}, which is not a variable here')
            binders.append((node.id, self.env[node.id].lean))
        t = None
        if sig.ret != 'Unit' or not binders:
            t = self.fresh()
        names = [b for _, b in binders] + ([t] if t else [])
        pat = names[0] if len(names) == 1 else '(' + ', '.join(names) + ')'
        line = f'call ({" ".join(parts)}) fun {pat} =>'
        for pyname, _ in binders:
            self.note_mut(pyname)
            after += self.writeback(pyname)
        if sig.ret == 'Unit':
            return [line] + after + k('()', 'Unit')
        return [line] + after + k(t, sig.ret)

    def bind_args(self, sig, x, skip):
        """argument expressions of the call `x` in the order of the parameters of `sig` after the first `skip` ones"""
        names = [p for p, _ in sig.params][skip:]
        if len(x.args) > len(names) or any(isinstance(a, ast.Starred) for a in x.args):
            raise TrErr('arguments of ' + ast.unparse(x))
        given = dict(zip(names, x.args))
        for kw in x.keywords:
            if kw.arg is None or kw.arg not in names or kw.arg in given:
                raise TrErr('keyword argument: ' + ast.unparse(x))
            given[kw.arg] = kw.value
        if list(given) != names:
            raise TrErr('arguments of ' + ast.unparse(x) + ' (all parameters must be given, in order)')
        return [given[p] for p in names]

    def notation_call(self, nt, x, k):
        """`N(*args)` for a notation value"""
        if x.keywords:
            raise TrErr('keyword argument: ' + ast.unparse(x))
        t = self.fresh()
        if len(x.args) == 1 and isinstance(x.args[0], ast.Starred):
            def star(v, ty):
                if ty != 'PatList':
                    raise TrErr(f'`*` of a {ty}: ' + ast.unparse(x))
                return [f'call (notationCall {nt} {v}) fun {t} =>'] + k(t, 'Pat')
            return self.ev(x.args[0].value, star)
        if any(isinstance(a, ast.Starred) for a in x.args):
            raise TrErr('arguments of ' + ast.unparse(x))

        def plain(vs):
            for v, ty in vs:
                if ty not in PAT_TYPES:
                    raise TrErr(f'a {ty} as argument of a notation: ' + ast.unparse(x))
            return [f'call (notationCall {nt} [{", ".join(v for v, _ in vs)}]) fun {t} =>'] + k(t, 'Pat')
        return self.ev_list(list(x.args), plain)

    def ev_call(self, x, k):
        f = x.func
        if isinstance(f, ast.Name) and f.id not in self.env:
            return self.ev_call_name(x, f.id, k)
        if isinstance(f, ast.Attribute):
            recv = f.value
            if isinstance(recv, ast.Name) and recv.id not in self.env:
                if recv.id == 'kl':
                    if f.attr == 'nary_app':
                        def nary(vs):
                            if [ty for _, ty in vs] not in (['SymbolP', 'Int', 'Bool'], ['Pat', 'Int', 'Bool']) or x.keywords:
                                raise TrErr('arguments of ' + ast.unparse(x))
                            return k(f'(nary_app {vs[0][0]} {vs[1][0]} {vs[2][0]})', 'Notation')
                        return self.ev_list(list(x.args), nary)
                    if f.attr == 'deconstruct_nary_application':
                        raise TrErr('kl.deconstruct_nary_application is only translated in `a, b = kl.deconstruct_nary_application(e)`')
                    return self.ev(f, lambda nt, ty: self.notation_call(nt, x, k))
                if recv.id == 'proof' and f.attr == 'ProofExp' and not x.args and [kw.arg for kw in x.keywords] == ['notations']:
                    # the plain, empty `ProofExp` (no axioms, claims, proofs): `none` of the result type
                    return k('none', 'NoneT')
                if recv.id in self.mod.class_names:
                    sig = self.sig_of(f'{recv.id}.{f.attr}')
                    if sig is None or sig.kind != 'static':
                        raise TrErr(f'call of {recv.id}.{f.attr}, which is not a translated static method')
                    nodes = self.bind_args(sig, x, 0)
                    return self.ev_list(nodes, lambda vs: self.emit_call(sig, vs, nodes, k))
                raise TrErr('call ' + ast.unparse(x))
            # a method of an optional object: `None` has no attributes
            if isinstance(recv, ast.Name) and is_opt(self.env[recv.id].ty) and self.env[recv.id].ty[1] in MUTABLE:
                ov = self.env[recv.id]
                inner = lname('o_', recv.id)
                self.env[recv.id] = Var(inner, ov.ty[1])

                def back(v, ty):
                    self.env[recv.id] = ov
                    return [f'let {ov.lean} : {lty(ov.ty)} := some {inner}'] + k(v, ty)
                body = self.ev_call(x, back)
                return [f'match {ov.lean} with', '| none => raise', f'| some {inner} =>'] + body

            def with_recv(v, ty):
                qual = f'{CLASS_OF[ty]}.{f.attr}' if ty in CLASS_OF else None
                sig = self.sig_of(qual) if qual else None
                if sig is not None and sig.kind == 'method':
                    nodes = [recv] + self.bind_args(sig, x, 1)
                    return self.ev_list(nodes[1:], lambda vs: self.emit_call(sig, [(v, ty)] + vs, nodes, k))
                if (ty, f.attr) in PRIMS:
                    return self.prim_call(x, recv, v, ty, PRIMS[(ty, f.attr)], k)
                if ty == 'Sem' and f.attr == 'resolve_to_ksymbol' and len(x.args) == 1 and not x.keywords:
                    a = x.args[0]
                    if not (isinstance(a, ast.Name) and a.id in self.env and self.env[a.id].ty == 'SymbolP' and self.env[a.id].elems):
                        raise TrErr('resolve_to_ksymbol of a value that is not known to be a Symbol: ' + ast.unparse(x))
                    return k(f'(resolve_to_ksymbol {v} {self.env[a.id].elems})', ('Opt', 'KSymbol'))
                if ty in PAT_TYPES and f.attr == 'instantiate' and len(x.args) == 1 and not x.keywords:
                    def inst(d, dty):
                        if dty != 'Dict':
                            raise TrErr('call ' + ast.unparse(x))
                        self.need_fuel()
                        t = self.fresh()
                        return [f'fuel (NPat.instF n {d} {v}) fun {t} =>'] + k(t, 'Pat')
                    return self.ev(x.args[0], inst)
                if ty == 'Notation' and f.attr == 'assert_matches' and len(x.args) == 1 and not x.keywords:
                    def am(p, pty):
                        if pty not in PAT_TYPES:
                            raise TrErr('call ' + ast.unparse(x))
                        self.need_fuel()
                        t = self.fresh()
                        return [f'call (Gen.PyMatch.Notation.assert_matches n {v} {p}) fun {t} =>'] + k(t, 'PatList')
                    return self.ev(x.args[0], am)
                if ty == 'KSubst' and f.attr == 'items' and not x.args and not x.keywords:
                    return k(f'(kItems {v})', 'NameSubItems')
                if ty == 'Dict' and f.attr == 'values' and not x.args and not x.keywords:
                    return k(f'(deltaValues {v})', 'PatList')
                # a property that returns a notation, called
                return self.ev_attr_of(f, v, ty, lambda nt, nty: self.notation_call(nt, x, k) if nty == 'Notation'
                                       else (_ for _ in ()).throw(TrErr('call ' + ast.unparse(x))))
            return self.ev(recv, with_recv)
        raise TrErr('call ' + ast.unparse(x))

    def ev_attr_of(self, attr_node, v, ty, k):
        """the attribute `attr_node.attr` of the already evaluated receiver"""
        if ty in CLASS_OF and f'{CLASS_OF[ty]}.{attr_node.attr}' in self.mod.sigs:
            sig = self.mod.sigs[f'{CLASS_OF[ty]}.{attr_node.attr}']
            if sig.kind == 'property':
                return self.emit_call(sig, [(v, ty)], [None], k)
        raise TrErr(f'call of {attr_node.attr} of a {ty}: ' + ast.unparse(attr_node))

    def prim_call(self, x, recv, v, ty, prim, k):
        lean, argtys, rty, mut, fuel, inpy = prim
        if x.keywords or len(x.args) != len(argtys) or any(isinstance(a, ast.Starred) for a in x.args):
            raise TrErr('arguments of ' + ast.unparse(x))

        def done(vs):
            args = ' '.join(self.co(a, at, want) for (a, at), want in zip(vs, argtys))
            if fuel:
                self.need_fuel()
            head = f'{lean}{" n" if fuel else ""} {v} {args}'
            if mut:
                if not (isinstance(recv, ast.Name) and recv.id in self.env):
                    raise TrErr(f'{lean} changes its receiver, which is not a variable here')
                rv = self.env[recv.id]
                if inpy:
                    out = [f'call ({head}) fun {rv.lean} =>']
                else:
                    out = [f'let {rv.lean} : {lty(rv.ty)} := {head}']
                self.note_mut(recv.id)
                return out + self.writeback(recv.id) + k('()', 'Unit')
            if inpy:
                t = self.fresh()
                return [f'call ({head}) fun {t} =>'] + k(t, rty)
            return k(f'({head})', rty)
        return self.ev_list(list(x.args), done)

    def ev_call_name(self, x, name, k):
        def kwargs_only(kw):
            return not x.args and len(x.keywords) == 1 and x.keywords[0].arg == kw
        if name == 'len' and len(x.args) == 1 and not x.keywords:
            a = x.args[0]
            if isinstance(a, ast.Attribute) and a.attr in KSYMBOL_LEN:
                def klen(v, ty):
                    if ty != 'KSymbol':
                        raise TrErr('call ' + ast.unparse(x))
                    return k(f'{v}.{KSYMBOL_LEN[a.attr]}', 'Int')
                return self.ev(a.value, klen)

            def ln(v, ty):
                if ty in ('NameDict', 'ScopeDict', 'KSubst'):
                    return k(f'(kLen {v})', 'Int')
                if isinstance(ty, tuple) and ty[0] == 'Ops2':
                    return k(str(len(ty[1])), 'Int')
                if ty in ELEM or ty == 'Dict':
                    return k(f'{v}.length', 'Int')
                raise TrErr(f'len of a {ty}')
            return self.ev(a, ln)
        if name == 'str' and len(x.args) == 1 and not x.keywords:
            def st(v, ty):
                if ty != 'ValStr':
                    raise TrErr(f'str of a {ty}')
                return k(v, 'ValStr')
            return self.ev(x.args[0], st)
        if name in ('EVar', 'MetaVar') and (kwargs_only('name') or (len(x.args) == 1 and not x.keywords)):
            a = x.keywords[0].value if x.keywords else x.args[0]

            def mk(v, ty):
                if ty != 'Int':
                    raise TrErr(f'{name} of a {ty}')
                if name == 'EVar':
                    return k(f'(NPat.evar {v})', 'EVarP')
                return k(f'(NPat.mv {v} [] [] [] [] [])', 'MetaVar')
            return self.ev(a, mk)
        if name == 'Symbol' and len(x.args) == 1 and not x.keywords:
            def sy(v, ty):
                if ty == 'SymStr':
                    return k(f'(NPat.sym {v})', 'SymbolP')
                if ty == 'ValStr':
                    return k(f'(NPat.sym (valueName {v}))', 'SymbolP')
                raise TrErr(f'Symbol of a {ty}')
            return self.ev(x.args[0], sy)
        if name == 'ConvertedAxiom' and len(x.args) == 2 and not x.keywords:
            def ca(vs):
                if vs[0][1] != 'AxiomType' or vs[1][1] not in PAT_TYPES:
                    raise TrErr('call ' + ast.unparse(x))
                return k(f'(ConvertedAxiom.mk {vs[0][0]} {vs[1][0]})', 'CAxiom')
            return self.ev_list(list(x.args), ca)
        if name == 'ConvertionScope' and not x.args and not x.keywords:
            if not self.mod.scope_init_ok:
                raise TrErr('ConvertionScope(): the constructor is not translated')
            return k('ConvertionScope.__init__', 'Scope')
        if name == 'ExecutionProofExp' and len(x.args) == 2 and not x.keywords:
            if self.mod.exec_init is None:
                raise TrErr('ExecutionProofExp(..): the constructor is not translated')

            def ctor(vs):
                return k(f'(ExecutionProofExp.__init__ {self.co(vs[0][0], vs[0][1], "Sem")} {self.co(vs[1][0], vs[1][1], "Pat")})', 'Exec')
            return self.ev_list(list(x.args), ctor)
        if name == 'functional' and len(x.args) == 1 and not x.keywords:
            def fn(v, ty):
                if ty not in PAT_TYPES:
                    raise TrErr('call ' + ast.unparse(x))
                t = self.fresh()
                return [f'call (functional {v}) fun {t} =>'] + k(t, 'Pat')
            return self.ev(x.args[0], fn)
        raise TrErr('call ' + ast.unparse(x))

    # ---- statements --------------------------------------------------------------------------
    def ret_lines(self, v, ty):
        vals = [self.env[p].lean for p in self.assumed]
        if self.ret != 'Unit' or not vals:
            vals.append(self.co(v, ty, self.ret))
        return ['ret ' + (vals[0] if len(vals) == 1 else '(' + ', '.join(vals) + ')')]

    def comment(self, st):
        return '-- ' + src1(st)

    def branch(self, stmts, fall, env, narrow=None):
        save, save_n = self.env, dict(self.narrow)
        self.env = dict(env)
        if narrow:
            self.narrow.update(narrow)
        try:
            return self.block(stmts, fall)
        finally:
            self.env, self.narrow = save, save_n

    def infer_empty(self, name, kind):
        """type of `name = {}` / `name = []` without annotation: the function returns it"""
        for n in ast.walk(self.fn):
            if isinstance(n, ast.Return) and isinstance(n.value, ast.Name) and n.value.id == name:
                if (kind == 'EmptyDict' and self.ret in ('Dict', 'KSubst')) or (kind == 'EmptyList' and self.ret in ELEM):
                    return self.ret
        raise TrErr(f'`{name}` is initialised by an empty literal and its type is not known')

    def assign(self, name, v, ty, rest, fall, alias=None):
        if ty in ('EmptyDict', 'EmptyList'):
            want = self.infer_empty(name, ty)
            v, ty = self.co(v, ty, want), want
        if ty in ('NoneT', 'StrLit', 'Unit', 'NameSubItems') or (isinstance(ty, tuple) and ty[0] == 'Ops2'):
            raise TrErr(f'a local of type {ty}: {name}')
        if name in self.declared:
            v, ty = self.co(v, ty, self.declared[name]), self.declared[name]
        lv = lname('v_', name)
        if name in self.env and name not in self.rebound:
            self.rebound.append(name)
        self.env[name] = Var(lv, ty, alias=alias)
        return [f'let {lv} : {lty(ty)} := {v}'] + self.block(rest, fall)

    def block(self, stmts, fall):
        if not stmts:
            if fall is None:
                if self.ret == 'Unit':
                    return self.ret_lines('()', 'Unit')
                raise TrErr('the function can end without `return`')
            return fall()
        st, rest = stmts[0], list(stmts[1:])
        if isinstance(st, ast.Expr) and isinstance(st.value, ast.Constant) and (st.value.value is Ellipsis or isinstance(st.value.value, str)):
            return self.block(rest, fall)
        out = [self.comment(st)]
        if isinstance(st, ast.Pass):
            return out + self.block(rest, fall)
        if isinstance(st, (ast.Return, ast.Raise)) and rest:
            raise TrErr('statement after return / raise')
        if isinstance(st, ast.AnnAssign) and isinstance(st.target, ast.Name):
            want = ann_ty(st.annotation, f'of {st.target.id}')
            self.declared[st.target.id] = want
            if st.value is None:
                return out + self.block(rest, fall)
            return out + self.ev(st.value, lambda v, ty: self.assign(st.target.id, self.co(v, ty, want), want, rest, fall))
        if isinstance(st, ast.Assign) and len(st.targets) == 1:
            return out + self.assign_stmt(st, st.targets[0], rest, fall)
        if isinstance(st, ast.Return):
            if st.value is None:
                return out + self.ret_lines('()', 'Unit')
            return out + self.ev(st.value, self.ret_lines)
        if isinstance(st, ast.Raise):
            return out + ['raise']
        if isinstance(st, ast.Assert):
            return out + self.assert_stmt(st, rest, fall)
        if isinstance(st, ast.Expr) and isinstance(st.value, ast.Call):
            c = st.value
            if isinstance(c.func, ast.Name) and c.func.id == 'print' and 'print' not in self.env:
                return out[:-1] + [out[-1] + '      (output only)'] + self.block(rest, fall)
            if isinstance(c.func, ast.Attribute) and c.func.attr == 'append' and isinstance(c.func.value, ast.Name) \
                    and c.func.value.id in self.env and self.env[c.func.value.id].ty in ELEM and len(c.args) == 1 and not c.keywords:
                nm = c.func.value.id
                lv = self.env[nm]

                def app(v, ty):
                    want = ELEM[lv.ty]
                    if nm not in self.rebound:
                        self.rebound.append(nm)
                    return [f'let {lv.lean} : {lty(lv.ty)} := {lv.lean} ++ [{self.co(v, ty, want)}]'] + self.block(rest, fall)
                return out + self.ev(c.args[0], app)
            return out + self.ev(c, lambda v, ty: self.block(rest, fall))
        if isinstance(st, ast.If):
            return out + self.if_stmt(st, rest, fall)
        if isinstance(st, ast.For):
            return out + self.for_stmt(st, rest, fall)
        raise TrErr('statement ' + src1(st))

    def assign_stmt(self, st, tg, rest, fall):
        if isinstance(tg, ast.Name):
            val = st.value
            # x = self.<dict of objects>[k]: an alias of the entry
            if isinstance(val, ast.Subscript) and isinstance(val.value, ast.Attribute) and isinstance(val.value.value, ast.Name) \
                    and val.value.value.id in self.env:
                owner = val.value.value.id
                oty = self.env[owner].ty
                if oty in ATTRS and val.value.attr in ATTRS[oty] and ATTRS[oty][val.value.attr][1] == 'ScopeDict':
                    def al(kv, kty):
                        if not isinstance(val.slice, ast.Name):
                            raise TrErr('an alias of a dictionary entry whose key is not a variable: ' + ast.unparse(st))
                        t = self.fresh()
                        o = self.env[owner]
                        return [f'kGet {o.lean}.{ATTRS[oty][val.value.attr][0]} {kv} fun {t} =>'] + \
                            self.assign(tg.id, t, 'Scope', rest, fall, alias=(owner, val.value.attr, kv))
                    return self.ev(val.slice, al)
            return self.ev(val, lambda v, ty: self.assign(tg.id, v, ty, rest, fall))
        if isinstance(tg, ast.Tuple) and len(tg.elts) == 2 and all(isinstance(e, ast.Name) for e in tg.elts):
            c = st.value
            if isinstance(c, ast.Call) and ast.unparse(c.func) == 'kl.deconstruct_nary_application' and len(c.args) == 1 and not c.keywords:
                def dec(v, ty):
                    if ty not in PAT_TYPES:
                        raise TrErr('call ' + ast.unparse(c))
                    self.need_fuel()
                    names = []
                    for e, ety in zip(tg.elts, ('Pat', 'PatList')):
                        if e.id == '_':
                            names.append('_')
                        else:
                            names.append(lname('v_', e.id))
                            self.env[e.id] = Var(lname('v_', e.id), ety)
                    return [f'deconstruct_nary_application n {v} fun {names[0]} {names[1]} =>'] + self.block(rest, fall)
                return self.ev(c.args[0], dec)
            raise TrErr('assignment ' + src1(st))
        if isinstance(tg, ast.Attribute) and isinstance(tg.value, ast.Name) and tg.value.id in self.env:
            o = self.env[tg.value.id]
            if o.ty in ATTRS and tg.attr in ATTRS[o.ty]:
                proj, fty = ATTRS[o.ty][tg.attr]

                def seta(v, ty):
                    line = f'let {o.lean} : {lty(o.ty)} := {{ {o.lean} with {proj} := {self.co(v, ty, fty)} }}'
                    self.note_mut(tg.value.id)
                    return [line] + self.writeback(tg.value.id) + self.block(rest, fall)
                return self.ev(st.value, seta)
            raise TrErr(f'assignment to the attribute {tg.attr} of a {o.ty}, which the model does not have: ' + src1(st))
        if isinstance(tg, ast.Subscript):
            base = tg.value
            # self.<dict>[k] = v
            if isinstance(base, ast.Attribute) and isinstance(base.value, ast.Name) and base.value.id in self.env:
                o = self.env[base.value.id]
                if o.ty in ATTRS and base.attr in ATTRS[o.ty] and ATTRS[o.ty][base.attr][1] in ('NameDict', 'ScopeDict'):
                    proj, dty = ATTRS[o.ty][base.attr]

                    def setd(vs):
                        (v, ty), (kk, kty) = vs          # Python evaluates the value first, then the target
                        want = 'Pat' if dty == 'NameDict' else 'Scope'
                        line = f'let {o.lean} : {lty(o.ty)} := {{ {o.lean} with {proj} := kSet {o.lean}.{proj} {kk} {self.co(v, ty, want)} }}'
                        self.note_mut(base.value.id)
                        return [line] + self.writeback(base.value.id) + self.block(rest, fall)
                    return self.ev_list([st.value, tg.slice], setd)
                raise TrErr(f'item assignment to the attribute {base.attr} of a {o.ty}, which the model does not have: ' + src1(st))
            if isinstance(base, ast.Name) and base.id in self.env and self.env[base.id].ty == 'Dict':
                d = self.env[base.id]

                def seti(vs):
                    (v, ty), (kk, kty) = vs
                    if kty != 'Int' or ty not in PAT_TYPES:
                        raise TrErr('item assignment ' + src1(st))
                    if base.id not in self.rebound:
                        self.rebound.append(base.id)
                    return [f'let {d.lean} : Dict := dictSet {d.lean} {kk} {v}'] + self.block(rest, fall)
                return self.ev_list([st.value, tg.slice], seti)
        raise TrErr('assignment ' + src1(st))

    def assert_stmt(self, st, rest, fall):
        t = st.test
        if isinstance(t, ast.Compare) and len(t.ops) == 1 and isinstance(t.ops[0], ast.IsNot) and isinstance(t.left, ast.Name) \
                and isinstance(t.comparators[0], ast.Constant) and t.comparators[0].value is None and t.left.id in self.env \
                and is_opt(self.env[t.left.id].ty):
            v = self.env[t.left.id]
            self.env[t.left.id] = Var(v.lean, v.ty[1])
            return [f'match {v.lean} with', '| none => raise', f'| some {v.lean} =>'] + self.block(rest, fall)
        if isinstance(t, ast.Call) and isinstance(t.func, ast.Name) and t.func.id == 'isinstance' and len(t.args) == 2 \
                and isinstance(t.args[0], ast.Name) and t.args[0].id in self.env and ast.unparse(t.args[1]) == 'Symbol' \
                and self.env[t.args[0].id].ty in PAT_TYPES:
            nm = t.args[0].id
            v = self.env[nm]
            b = lname('b_', nm + '_name')
            self.env[nm] = Var(v.lean, 'SymbolP', elems=b)
            return [f'match {v.lean} with'] + wrap(f'| .sym {b} =>', self.block(rest, fall)) + ['| _ => raise']
        return self.ev(t, lambda v, ty: [f'assert_ {self.truth(v, ty)} <|'] + self.block(rest, fall))

    def if_stmt(self, st, rest, fall):
        t_term, e_term = terminates(st.body), bool(st.orelse) and terminates(st.orelse)
        if t_term and e_term and rest:
            raise TrErr('statement after return / raise')
        then_s = list(st.body) + ([] if t_term else rest)
        else_s = list(st.orelse) + ([] if e_term else rest)
        test = st.test
        env = dict(self.env)

        def arms(scrut, then_pat, then_env, else_pat, else_env, narrow=None):
            a = self.branch(then_s, fall, then_env, narrow)
            b = self.branch(else_s, fall, else_env)
            return [f'match {scrut} with'] + wrap(f'| {then_pat} =>', a) + [f'| {else_pat} =>'] + b
        if isinstance(test, ast.Call) and isinstance(test.func, ast.Name) and test.func.id == 'isinstance' and len(test.args) == 2 \
                and not test.keywords:
            cls = ast.unparse(test.args[1])

            def inst(v, ty):
                if ty == 'KSort' and cls in ('kore.SortVar', 'kore.SortApp'):
                    return arms(v, '.var _' if cls == 'kore.SortVar' else '.app _', env, '_', env)
                if ty == 'Axiom' and cls in ('KRewritingRule', 'KEquationalRule'):
                    b = 'b_rule'
                    return arms(v, f'.{"rewriting" if cls == "KRewritingRule" else "equational"} {b}', env, '_', env,
                                narrow={ast.unparse(test.args[0]): (b, 'Rule')})
                raise TrErr(f'isinstance of a {ty}: ' + ast.unparse(test))
            return self.ev(test.args[0], inst)
        if isinstance(test, ast.Compare) and len(test.ops) == 1 and isinstance(test.ops[0], (ast.Is, ast.IsNot)) \
                and isinstance(test.left, ast.Name) and isinstance(test.comparators[0], ast.Constant) and test.comparators[0].value is None \
                and test.left.id in env and is_opt(env[test.left.id].ty):
            nm = test.left.id
            v = env[nm]
            senv = dict(env)
            inner = lname('s_', nm)
            if v.ty[1] in MUTABLE:
                inner = '_'          # an object that is changed in place stays behind its optional variable
            else:
                senv[nm] = Var(inner, v.ty[1])
            if isinstance(test.ops[0], ast.Is):
                return arms(v.lean, 'none', env, f'some {inner}', senv)
            return arms(v.lean, f'some {inner}', senv, 'none', env)

        def general(cv, cty):
            a = self.branch(then_s, fall, self.env)
            b = self.branch(else_s, fall, self.env)
            return wrap(f'if {self.truth(cv, cty)} then', a, ' else') + b
        return self.ev(test, general)

    def for_stmt(self, st, rest, fall):
        if st.orelse:
            raise TrErr('for/else')
        if any(isinstance(n, (ast.Break, ast.Continue)) for s in st.body for n in ast.walk(s)):
            raise TrErr('break / continue in a `for` loop')
        p = self.try_pure(st.iter)
        if p is None:
            raise TrErr('a `for` loop over an expression with effects: ' + ast.unparse(st.iter))
        it, ity = p
        tg = st.target
        if ity == 'NameSubItems' and isinstance(tg, ast.Tuple) and len(tg.elts) == 2 and all(isinstance(e, ast.Name) for e in tg.elts):
            binds = [(tg.elts[0].id, 'Name'), (tg.elts[1].id, 'KTerm')]
        elif ity in ELEM and isinstance(tg, ast.Name):
            binds = [(tg.id, ELEM[ity])]
        else:
            raise TrErr('for loop ' + src1(st))
        env = dict(self.env)
        benv = dict(env)
        for nm, ty in binds:
            benv[nm] = Var(lname('v_', nm), ty)
        xpat = benv[binds[0][0]].lean if len(binds) == 1 else '(' + ', '.join(benv[nm].lean for nm, _ in binds) + ')'

        def tup(names):
            if not names:
                return '()'
            ls = [env[n].lean for n in names]
            return ls[0] if len(ls) == 1 else '(' + ', '.join(ls) + ')'
        # first pass: which variables of the enclosing scope does the body rebind?
        save = (self.tmp, list(self.rebound), set(self.mutset), self.fuel, len(self.aux), self.recursive)
        self.rebound = []
        self.branch(list(st.body), lambda: ['continue_'], benv)
        state = [n for n in self.rebound if n in env]
        fuel_now = self.fuel
        self.tmp, self.rebound, self.mutset, _, naux, self.recursive = save
        self.fuel = fuel_now
        del self.aux[naux:]
        for n in state:
            if env[n].ty != self.env[n].ty:
                raise TrErr(f'the loop changes the type of {n}')
        body = self.branch(list(st.body), lambda: [f'continue_ {tup(state)}'], benv)
        for n in state:
            if n not in self.rebound:
                self.rebound.append(n)
        self.env = env
        spat = tup(state) if state else '_'
        return wrap(f'forEach {it} {tup(state)}', [f'fun {xpat} {spat} continue_ =>'] + body, f' fun {spat} =>') + self.block(rest, fall)

    # ---- the definition ----------------------------------------------------------------------
    def ret_type(self):
        comps = [lty(ty) for p, ty in self.params if p in self.assumed]
        if self.ret != 'Unit' or not comps:
            comps.append(lty(self.ret))
        if len(comps) == 1:
            return f'Py {paren(comps[0])}'
        return 'Py (' + ' × '.join(paren(c) for c in comps) + ')'

    def binders(self, skip=()):
        bs = ' (n : Nat)' if self.fuel else ''
        for p, ty in self.params:
            if p not in skip:
                bs += f' ({self.env[p].lean} : {lty(ty)})'
        return bs

    def doc(self):
        return f'/-- `{self.qual}` ({self.mod.file_of[self.qual]} line {self.fn.lineno}) -/'

    def definition(self):
        body = [s for s in self.fn.body]
        subject = self.match_subject(body)
        if subject is not None:
            return self.match_definition(body, subject)
        lines = self.block(body, None)
        if self.aux:
            raise TrErr('a recursive comprehension outside a `match` definition')
        return [self.doc(), f'def {self.lean_self_name()}{self.binders()} : {self.ret_type()} :='] + indent(lines)

    def match_subject(self, body):
        stmts = [s for s in body if not (isinstance(s, ast.Expr) and isinstance(s.value, ast.Constant) and isinstance(s.value.value, str))]
        if stmts and isinstance(stmts[0], ast.Match) and isinstance(stmts[0].subject, ast.Name) \
                and self.env.get(stmts[0].subject.id) is not None and self.env[stmts[0].subject.id].ty == 'KTerm' \
                and any(p == stmts[0].subject.id for p, _ in self.params):
            return stmts[0].subject.id
        return None

    def match_definition(self, body, subject):
        stmts = [s for s in body if not (isinstance(s, ast.Expr) and isinstance(s.value, ast.Constant) and isinstance(s.value.value, str))]
        m, rest = stmts[0], stmts[1:]
        base_env = dict(self.env)
        base_env[subject] = Var('?', 'Subject')      # inside a case the subject as a whole is not available (only its parts)
        eqs, covered, outside = [], [], []
        all_ctors = [c for c, _ in KORE.values()]
        for case in m.cases:
            pat = case.pattern
            head = f'case {ast.unparse(pat)}:'
            if case.guard is not None:
                raise TrErr(f'{head} a guard')
            if isinstance(pat, ast.MatchAs) and pat.pattern is None and pat.name is None:
                if len(covered) < len(all_ctors):
                    self.env = dict(base_env)
                    eqs += [f'-- {head}', '| _ =>'] + indent(self.block(list(case.body), None))
                    covered = list(all_ctors)
                else:
                    eqs += [f'-- {head} not reachable from the modelled fragment (every constructor of `KTerm` is matched above)']
                continue
            if not (isinstance(pat, ast.MatchClass) and ast.unparse(pat.cls).startswith('kore.')):
                raise TrErr(f'{head} not a class pattern of pyk.kore.syntax')
            cls = ast.unparse(pat.cls)[5:]
            if cls not in KORE:
                outside.append(cls)
                eqs += [f'-- {head} OUTSIDE the modelled fragment (`KTerm` has no constructor for kore.{cls}); not translated:']
                for s in case.body:
                    eqs += ['--     ' + l for l in ast.unparse(s).split('\n')]
                continue
            ctor, fields = KORE[cls]
            if self.mod.stub_fields.get(cls) != [f for f, _ in fields]:
                raise TrErr(f'{head} the fields of kore.{cls} in harness/py/pyk_stub.py are {self.mod.stub_fields.get(cls)}, expected {[f for f, _ in fields]}')
            if ctor in covered:
                raise TrErr(f'{head} kore.{cls} is matched by an earlier case')
            if len(pat.patterns) > len(fields):
                raise TrErr(f'{head} too many positional patterns')
            caps = {}
            for sub, (fname, _) in zip(pat.patterns, fields):
                caps[fname] = sub
            for kw, sub in zip(pat.kwd_attrs, pat.kwd_patterns):
                if kw in caps or kw not in [f for f, _ in fields]:
                    raise TrErr(f'{head} keyword pattern {kw}')
                caps[kw] = sub
            self.env = dict(base_env)
            lean_args = []
            for fname, kind in fields:
                sub = caps.get(fname)
                name = None
                if sub is not None:
                    if not (isinstance(sub, ast.MatchAs) and sub.pattern is None):
                        raise TrErr(f'{head} the sub-pattern for `{fname}` is not a capture or `_`')
                    name = sub.name
                if kind is None:
                    if name is not None:
                        self.env.pop(name, None)          # not in the model: using it is an unknown name
                    continue
                if kind == 'ops2':
                    if name is None:
                        lean_args += ['_', '_']
                    else:
                        e = [lname('v_', name + '_0'), lname('v_', name + '_1')]
                        lean_args += e
                        self.env[name] = Var(f'[{e[0]}, {e[1]}]', ('Ops2', e))
                elif name is None:
                    lean_args.append('_')
                else:
                    lean_args.append(lname('v_', name))
                    self.env[name] = Var(lname('v_', name), KIND_TY[kind])
            if not terminates(list(case.body)):
                raise TrErr(f'{head} the body can end without return / raise')
            covered.append(ctor)
            eqs += [f'-- {head}', f'| .{ctor}{"".join(" " + a for a in lean_args)} =>'] + indent(self.block(list(case.body), None))
        self.env = dict(base_env)
        if len(covered) < len(all_ctors):
            missing = [c for c in all_ctors if c not in covered]
            eqs += [f'-- after the `match` (no case for: {", ".join(missing)})', '| _ =>'] + indent(self.block(list(rest), None))
        else:
            eqs += ['-- after the `match`; not reachable from the modelled fragment:'] + ['--     ' + l for s in rest for l in ast.unparse(s).split('\n')]
        self.outside = outside
        head = [self.doc(), f'def {self.lean_self_name()}{self.binders(skip=(subject,))} : KTerm → {self.ret_type()}']
        main = head + indent(eqs)
        if not self.aux:
            return main
        out = ['mutual'] + main
        for a in self.aux:
            out += a
        return out + ['end']


# ---------------------------------------------------------------------------------------------- the module
FUNCTIONS = [
    ('ls', 'KSort', 'aml_symbol', 'property'), ('ls', 'KSymbol', 'aml_symbol', 'property'), ('ls', 'KSymbol', 'app', 'property'),
    ('ls', 'ConvertionScope', 'resolve_evar', 'method'), ('ls', 'ConvertionScope', 'resolve_metavar', 'method'),
    ('ls', 'ConvertionScope', 'lookup_metavar', 'method'), ('ls', 'ConvertionScope', 'resolve_sort_param_metavar', 'method'),
    ('ls', 'ConvertionScope', 'lookup_sort_param_metavar', 'method'),
    ('ls', 'LanguageSemantics', '_convert_sort', 'method'), ('ls', 'LanguageSemantics', '_convert_pattern', 'method'),
    ('ls', 'LanguageSemantics', 'convert_pattern', 'method'), ('ls', 'LanguageSemantics', 'convert_substitutions', 'method'),
    ('ex', 'ExecutionProofExp', 'current_configuration', 'property'), ('ex', 'ExecutionProofExp', 'collect_functional_axioms', 'static'),
    ('ex', 'ExecutionProofExp', 'add_assumptions_for_rewrite_step', 'method'), ('ex', 'ExecutionProofExp', 'rewrite_event', 'method'),
    ('ex', 'ExecutionProofExp', 'from_proof_hints', 'static'),
]
SCOPE_METHODS = ['__init__', 'resolve_evar', 'resolve_metavar', 'lookup_metavar', 'resolve_sort_param_metavar', 'lookup_sort_param_metavar']
DECOS = {'property': ['property'], 'static': ['staticmethod'], 'method': []}


class Module:
    def __init__(self, trees, stub_tree, kl_tree):
        self.trees = trees
        self.problems = []
        self.classes = {}
        self.file_of = {}
        for key, (tree, fname) in trees.items():
            for n in tree.body:
                if isinstance(n, ast.ClassDef):
                    self.classes[n.name] = (n, key, fname)
        self.class_names = set(self.classes)
        self.sigs = {}
        self.scope_consts = {}
        self.scope_init_ok = False
        self.exec_init = None
        self.outside = []
        self.kl_labels = {}
        for n in kl_tree.body if kl_tree else []:
            if isinstance(n, ast.Assign) and len(n.targets) == 1 and isinstance(n.targets[0], ast.Name) and isinstance(n.value, ast.Call) \
                    and isinstance(n.value.func, ast.Name) and n.value.func.id == 'Notation' and n.value.args \
                    and isinstance(n.value.args[0], ast.Constant) and isinstance(n.value.args[0].value, str):
                self.kl_labels[n.targets[0].id] = n.value.args[0].value
        self.stub_fields = {}
        for n in stub_tree.body if stub_tree else []:
            if isinstance(n, ast.ClassDef):
                self.stub_fields[n.name] = [m.target.id for m in n.body if isinstance(m, ast.AnnAssign) and isinstance(m.target, ast.Name)]

    def problem(self, s):
        self.problems.append('PyKore: ' + s)

    def method(self, cls, name):
        c = self.classes.get(cls)
        if c is None:
            return None
        return next((n for n in c[0].body if isinstance(n, ast.FunctionDef) and n.name == name), None)

    # ---- ConvertionScope: the constant and the constructor -------------------------------------
    def scope_class(self):
        lines = ['/-! ## class ConvertionScope (language_semantics.py) -/']
        c = self.classes.get('ConvertionScope')
        if c is None:
            self.problem('class ConvertionScope not found')
            return lines, False
        ok = True
        node = c[0]
        if node.bases or node.decorator_list:
            self.problem('ConvertionScope has base classes / decorators'); ok = False
        for n in node.body:
            if isinstance(n, ast.Assign) and len(n.targets) == 1 and isinstance(n.targets[0], ast.Name) \
                    and isinstance(n.value, ast.Constant) and isinstance(n.value.value, int) and not isinstance(n.value.value, bool):
                self.scope_consts[n.targets[0].id] = n.value.value
                lines += [f'/-- `ConvertionScope.{n.targets[0].id}` (line {n.lineno}) -/',
                          f'def ConvertionScope.{n.targets[0].id} : Nat := {n.value.value}']
            elif isinstance(n, ast.FunctionDef):
                if n.name not in SCOPE_METHODS:
                    self.problem(f'ConvertionScope.{n.name}: a method that Pi2/KoreTie.lean has no theorem for'); ok = False
            elif isinstance(n, ast.Expr) and isinstance(n.value, ast.Constant) and isinstance(n.value.value, str):
                pass
            else:
                self.problem(f'ConvertionScope: class-level statement `{src1(n)}`'); ok = False
        init = self.method('ConvertionScope', '__init__')
        if init is None or [a.arg for a in init.args.args] != ['self']:
            self.problem('ConvertionScope.__init__ not found or it has parameters')
            return lines, False
        fields, comments = {}, []
        for st in init.body:
            if isinstance(st, ast.Expr) and isinstance(st.value, ast.Constant) and isinstance(st.value.value, str):
                continue
            tgt = st.target if isinstance(st, ast.AnnAssign) else st.targets[0] if isinstance(st, ast.Assign) and len(st.targets) == 1 else None
            if tgt is not None and isinstance(tgt, ast.Attribute) and isinstance(tgt.value, ast.Name) and tgt.value.id == 'self' \
                    and tgt.attr in SCOPE_FIELDS and tgt.attr not in fields and isinstance(st.value, ast.Dict) and not st.value.keys:
                fields[tgt.attr] = '[]'
                comments.append('-- ' + src1(st))
            else:
                self.problem(f'ConvertionScope.__init__: statement `{src1(st)}` (the model of a scope has the dictionaries {SCOPE_FIELDS})'); ok = False
        missing = [f for f in SCOPE_FIELDS if f not in fields]
        if missing:
            self.problem(f'ConvertionScope.__init__ does not initialise {missing}'); ok = False
        lines += [f'/-- `ConvertionScope.__init__` (line {init.lineno}) -/', 'def ConvertionScope.__init__ : PyScope :='] + indent(comments) + \
                 ['  { ' + ', '.join(f'{f} := {v}' for f, v in fields.items()) + ' }']
        self.scope_init_ok = ok and not missing
        return lines, ok

    # ---- ExecutionProofExp.__init__ ----------------------------------------------------------------
    def exec_ctor(self):
        init = self.method('ExecutionProofExp', '__init__')
        if init is None:
            self.problem('ExecutionProofExp.__init__ not found')
            return [], False
        c = self.classes['ExecutionProofExp'][0]
        if [ast.unparse(b) for b in c.bases] != ['proof.ProofExp']:
            self.problem(f'ExecutionProofExp has the base classes {[ast.unparse(b) for b in c.bases]}'); return [], False
        try:
            params = [(a.arg, ann_ty(a.annotation, f'of parameter {a.arg}')) for a in init.args.args[1:]]
            if [t for _, t in params] != ['Sem', 'Pat'] or init.args.args[0].arg != 'self' or init.args.defaults or init.args.kwonlyargs:
                raise TrErr(f'parameters {[a.arg for a in init.args.args]}')
        except TrErr as ex:
            self.problem(f'ExecutionProofExp.__init__: {ex}')
            return [], False
        ok = True
        env = {p: lname('a_', p) for p, _ in params}
        tys = dict(params)
        fields, body = {}, []
        for st in init.body:
            if isinstance(st, ast.Expr) and isinstance(st.value, ast.Constant) and isinstance(st.value.value, str):
                continue
            u = src1(st)
            if isinstance(st, ast.Assign) and len(st.targets) == 1 and isinstance(st.targets[0], ast.Attribute) \
                    and isinstance(st.targets[0].value, ast.Name) and st.targets[0].value.id == 'self':
                attr = st.targets[0].attr
                if attr in ATTRS['Exec'] and attr not in fields and isinstance(st.value, ast.Name) and st.value.id in env \
                        and (tys[st.value.id] == ATTRS['Exec'][attr][1]):
                    fields[attr] = env[st.value.id]
                    body += ['-- ' + u, f'  {attr} := {env[st.value.id]},']
                    continue
                if isinstance(st.value, ast.Call) and ast.unparse(st.value.func) == 'self.import_module':
                    body += ['-- ' + u + '      (an imported submodule: notations and lemmas, outside the model)']
                    continue
            if isinstance(st, ast.Expr) and isinstance(st.value, ast.Call) and ast.unparse(st.value.func) == 'super().__init__' \
                    and not st.value.args and [k.arg for k in st.value.keywords] == ['notations'] and '_axioms' not in fields:
                for f in ('_axioms', '_claims', '_proof_expressions'):
                    fields[f] = '[]'
                body += ['-- ' + u + '      (`ProofExp.__init__`: no axioms, claims, proof expressions)',
                         '  _axioms := [], _claims := [], _proof_expressions := [],']
                continue
            self.problem(f'ExecutionProofExp.__init__: statement `{u}`'); ok = False
        want = list(ATTRS['Exec']) + ['_axioms', '_claims', '_proof_expressions']
        missing = [f for f in want if f not in fields]
        if missing:
            self.problem(f'ExecutionProofExp.__init__ does not set {missing}'); ok = False
        # the last field line must not end with a comma
        for i in range(len(body) - 1, -1, -1):
            if not body[i].startswith('--'):
                body[i] = body[i].rstrip(',')
                break
        lines = [f'/-- `ExecutionProofExp.__init__` (execution_proof_generation.py line {init.lineno}) -/',
                 'def ExecutionProofExp.__init__' + ''.join(f' ({env[p]} : {lty(t)})' for p, t in params) + ' : PyExec :=', '  {'] + \
            indent(body) + ['  }']
        if ok:
            self.exec_init = True
        return lines, ok

    def translate(self, key, owner, name, kind):
        qual = f'{owner}.{name}'
        fn = self.method(owner, name)
        if fn is None:
            self.problem(f'{qual} not found')
            return [f'-- NOT TRANSLATED: {qual} not found'], False
        self.file_of[qual] = self.classes[owner][2]
        decos = [ast.unparse(d) for d in fn.decorator_list]
        if decos != DECOS[kind]:
            self.problem(f'{qual} is decorated {decos}, expected {DECOS[kind]}')
            return [f'-- NOT TRANSLATED: {qual}: decorators {decos}'], False
        mut, fuel = [], False
        try:
            for _ in range(6):
                f = F(self, owner, fn, kind, mut, fuel)
                lines = f.definition()
                found = [p for p, _ in f.params if p in f.mutset]
                if found == mut and f.fuel == fuel and f.unstable:
                    raise TrErr('a recursive comprehension that changes nothing')
                if found == mut and f.fuel == fuel:
                    self.sigs[qual] = Sig(f.lean_self_name(), f.params, f.ret, mut, fuel, kind, owner)
                    if getattr(f, 'outside', None):
                        self.outside += f.outside
                    return lines, True
                mut, fuel = found, f.fuel
            raise TrErr('the set of changed parameters does not stabilise')
        except TrErr as ex:
            self.problem(f'{qual}: {ex}')
            return [f'-- NOT TRANSLATED: {qual}: {ex}'], False


def gen_py_kore(srcdir=None, outdir=None):
    """srcdir: the source root to read (default: `core.PYSRC`, i.e. /repo/generation/src); outdir: where PyKore.lean is written"""
    root = srcdir or core.PYSRC
    problems = []
    trees = {}
    for key, rel in (('ls', LS_PATH), ('ex', EX_PATH)):
        path = os.path.join(root, *rel)
        try:
            trees[key] = (ast.parse(open(path, encoding='utf-8').read()), rel[-1])
        except (OSError, SyntaxError) as ex:
            problems.append(f'PyKore: {path}: {ex}')
    aux = {}
    for key, path in (('kl', os.path.join(root, *KL_PATH)), ('stub', os.path.join(core.VERIF, 'harness', 'py', 'pyk_stub.py'))):
        try:
            aux[key] = ast.parse(open(path, encoding='utf-8').read())
        except (OSError, SyntaxError) as ex:
            problems.append(f'PyKore: {path}: {ex}')
            aux[key] = None
    lines = ['import Pi2.KoreSupport',
             '/-! GENERATED by /verif/vlib/transkore.py from `KSort.aml_symbol`, `KSymbol.aml_symbol / app`, class `ConvertionScope`,',
             '`LanguageSemantics._convert_sort / _convert_pattern / convert_pattern / convert_substitutions`',
             '(generation/src/proof_generation/k/kore_convertion/language_semantics.py) and `ExecutionProofExp.__init__ /',
             'current_configuration / collect_functional_axioms / add_assumptions_for_rewrite_step / rewrite_event / from_proof_hints`',
             '(generation/src/proof_generation/k/execution_proof_generation.py), statement by statement — do not edit.',
             '`Pi2/KoreTie.lean` proves these equal to the hand-written model `Pi2/Kore.lean` (`Scope.resolveMv / resolveSortParam`,',
             '`convSort`, `conv`, `convertSubst`, `rewriteEventF`, `traceF`). -/',
             'open PyI PyM PyK Kore',
             'set_option linter.unusedVariables false',
             'namespace Gen.PyKore']
    ok = len(trees) == 2 and aux['kl'] is not None and aux['stub'] is not None
    if len(trees) == 2:
        mod = Module(trees, aux['stub'], aux['kl'])
        done_scope = done_exec = False
        for key, owner, name, kind in FUNCTIONS:
            if owner == 'ConvertionScope' and not done_scope:
                l, o = mod.scope_class()
                lines += l
                ok = ok and o
                done_scope = True
            if owner == 'LanguageSemantics' and name == '_convert_sort':
                lines.append('/-! ## class LanguageSemantics (language_semantics.py) -/')
            if owner == 'ExecutionProofExp' and not done_exec:
                lines.append('/-! ## class ExecutionProofExp (execution_proof_generation.py) -/')
                l, o = mod.exec_ctor()
                lines += l
                ok = ok and o
                done_exec = True
            l, o = mod.translate(key, owner, name, kind)
            lines += l
            ok = ok and o
        lines.append('/-- the cases of `_convert_pattern` for Kore classes outside the modelled fragment (listed, not translated) -/')
        lines.append('def outsideFragment : List String := [' + ', '.join(f'"{c}"' for c in mod.outside) + ']')
        problems += mod.problems
    lines.append(f'def translated : Bool := {"true" if ok else "false"}')
    lines.append('end Gen.PyKore')
    from .translate import _write_if_changed, GEN
    _write_if_changed(os.path.join(outdir or GEN, 'PyKore.lean'), '\n'.join(lines) + '\n')
    return problems


if __name__ == '__main__':
    print(gen_py_kore())
