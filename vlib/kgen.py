"""Generator and Kore-level oracle for C20: signatures, rewrite rules with variables, ground substitutions, traces
(matching, deliberately mismatching, cyclic).  Terms are nested tuples in the protocol's syntax:
  ('evar', n) ('app', f, (sorts...), (args...)) ('dv', sort, v) ('and', sort, l, r) ...   sorts: ('s', n) | ('sv', n)
The oracle works on Kore terms only (substitution and syntactic equality) — independent of the conversion."""
from __future__ import annotations


def tsx(t):
    k = t[0]
    if k in ('s', 'sv'):
        return '(%s %d)' % t
    if k == 'evar':
        return '(evar %d)' % t[1]
    if k == 'app':
        return '(app %d (%s) (%s))' % (t[1], ' '.join(tsx(s) for s in t[2]), ' '.join(tsx(a) for a in t[3]))
    if k == 'dv':
        return '(dv %s %d)' % (tsx(t[1]), t[2])
    return '(%s %s)' % (k, ' '.join(tsx(x) for x in t[1:]))


def subst(t, sg):
    k = t[0]
    if k in ('s', 'sv'):
        return t
    if k == 'evar':
        return sg.get(t[1], t)
    if k == 'app':
        return ('app', t[1], t[2], tuple(subst(a, sg) for a in t[3]))
    if k == 'dv':
        return t
    return (k,) + tuple(subst(x, sg) if isinstance(x, tuple) else x for x in t[1:])


def evars(t, acc=None):
    acc = [] if acc is None else acc
    k = t[0]
    if k == 'evar':
        if t[1] not in acc:
            acc.append(t[1])
    elif k == 'app':
        for a in t[3]:
            evars(a, acc)
    elif k not in ('s', 'sv', 'dv'):
        for x in t[1:]:
            if isinstance(x, tuple):
                evars(x, acc)
    return acc


def match(pat, t, sg):
    """first-order matching of Kore terms (variables of `pat` against ground `t`)"""
    if pat[0] == 'evar':
        if pat[1] in sg:
            return sg if sg[pat[1]] == t else None
        sg = dict(sg); sg[pat[1]] = t
        return sg
    if pat[0] != t[0]:
        return None
    if pat[0] == 'app':
        if pat[1] != t[1] or pat[2] != t[2] or len(pat[3]) != len(t[3]):
            return None
        for a, b in zip(pat[3], t[3]):
            sg = match(a, b, sg)
            if sg is None:
                return None
        return sg
    return sg if pat == t else None


class KWorld:
    """a signature, rules over a 'program counter' configuration, and traces"""

    def __init__(self, rng):
        self.rng = rng
        self.sorts = list(range(rng.randint(1, 3)))
        self.syms = []       # (name, nSortParams, nInputs, cell, functional, kseq)
        nm = 0
        self.consts = []
        for _ in range(rng.randint(2, 4)):
            self.syms.append((nm, 0, 0, 0, 1, 0)); self.consts.append(nm); nm += 1
        self.ctors = []
        for _ in range(rng.randint(1, 2)):
            ar = rng.randint(1, 2)
            self.syms.append((nm, 0, ar, 0, 1, 0)); self.ctors.append((nm, ar)); nm += 1
        self.nonfun = nm
        self.syms.append((nm, 0, 1, 0, 0, 0)); nm += 1
        self.cfg = nm        # the configuration cell: cfg(pc, data, data)
        self.syms.append((nm, 0, 3, 1, 1, 0)); nm += 1
        self.inj = None
        if rng.random() < 0.6:
            self.inj = nm
            self.syms.append((nm, 2, 1, 0, 1, 0)); nm += 1
        self.kseq = rng.random() < 0.5
        if self.kseq:
            self.syms.append((999, 0, 2, 0, 1, 1))
        self.rules = []
        self.pcs = self.consts[:]
        for _ in range(rng.randint(2, 4)):
            a, b = rng.choice(self.pcs), rng.choice(self.pcs)
            X, Y = rng.sample(range(0, 9), 2)
            lhs = self.app(self.cfg, self.c(a), ('evar', X), rng.choice((('evar', Y), self.c(rng.choice(self.consts)))))
            rhs = self.app(self.cfg, self.c(b), self.term(1, [X] + ([Y] if ('evar', Y) in lhs[3] else [])), ('evar', X))
            srt = ('s', rng.choice(self.sorts)) if rng.random() < 0.8 else ('sv', 0)
            self.rules.append(('rewrites', srt, lhs, rhs))
        if self.ctors and rng.random() < 0.5:
            # family: two rules that share a non-ground sub-term T over the same Kore variables, which occur for the first
            # time in a different order in the two rules (each rule has its own variable scope: T must be converted afresh)
            f, ar = rng.choice(self.ctors)
            X, Y = rng.sample(range(0, 9), 2)
            T = self.app(f, *([('evar', X), ('evar', Y)][:ar]))
            a, b, cc = (rng.choice(self.pcs) for _ in range(3))
            srt = ('s', rng.choice(self.sorts))
            self.rules.append(('rewrites', srt, self.app(self.cfg, self.c(a), ('evar', X), ('evar', Y)), self.app(self.cfg, self.c(b), T, ('evar', X))))
            self.rules.append(('rewrites', srt, self.app(self.cfg, self.c(b), ('evar', Y), ('evar', X)), self.app(self.cfg, self.c(cc), T, ('evar', Y))))

    def c(self, n):
        return ('app', n, (), ())

    def app(self, f, *args):
        return ('app', f, (), tuple(args))

    def term(self, depth, vars_):
        rng = self.rng
        r = rng.random()
        if depth <= 0 or r < 0.35:
            if vars_ and rng.random() < 0.5:
                return ('evar', rng.choice(vars_))
            return self.c(rng.choice(self.consts))
        if r < 0.75:
            f, ar = rng.choice(self.ctors)
            return ('app', f, (), tuple(self.term(depth - 1, vars_) for _ in range(ar)))
        if r < 0.85 and self.inj is not None:
            return ('app', self.inj, (('s', self.sorts[0]), ('s', self.sorts[-1])), (self.term(depth - 1, vars_),))
        if r < 0.93 and self.kseq:
            return ('app', 999, (), (self.term(depth - 1, vars_), self.term(depth - 1, vars_)))
        return ('dv', ('s', self.sorts[0]), rng.randint(0, 50)) if not vars_ and rng.random() < 0.5 else self.c(rng.choice(self.consts))

    def sig_sx(self):
        return '(sig (%s) (%s))' % (' '.join(map(str, self.sorts)), ' '.join('(%d %d %d %d %d %d)' % s for s in self.syms))

    def functional_head(self, t):
        if t[0] != 'app':
            return False          # a domain value, a connective: `deconstruct_nary_application` does not find a ksym_ symbol
        if t[1] == 999:
            return False          # kseq is a fixed notation over the symbol kore_kseq, not a ksym_
        d = next(s for s in self.syms if s[0] == t[1])
        return d[4] == 1

    def trace(self, length, flavour):
        """-> (init, steps [(ordinal, {var: term})], expected: 'ok' | ('raise', k))"""
        rng = self.rng
        r0 = rng.randrange(len(self.rules))
        lhs0 = self.rules[r0][2]
        sg0 = {v: self.term(1, []) for v in evars(lhs0)}
        init = subst(lhs0, sg0)
        cur = init
        steps = []
        expected = 'ok'
        seen = set()
        for k in range(length):
            cands = []
            for i, r in enumerate(self.rules):
                sg = match(r[2], cur, {})
                if sg is not None:
                    cands.append((i, sg))
            if not cands:
                break
            i, sg = rng.choice(cands)
            bad = None
            if flavour == 'mismatch' and rng.random() < 0.3:
                kind = rng.random()
                if kind < 0.5 and sg:
                    v = rng.choice(list(sg))
                    new = self.term(1, [])
                    if new != sg[v] and v in evars(self.rules[i][2]):
                        sg = dict(sg); sg[v] = new; bad = 'lhs'
                elif len(self.rules) > 1:
                    j = rng.randrange(len(self.rules))
                    sg2 = {v: sg.get(v, self.term(1, [])) for v in evars(self.rules[j][2])}
                    if subst(self.rules[j][2], sg2) != cur:
                        i, sg, bad = j, sg2, 'lhs'
            if flavour == 'nonfunctional' and rng.random() < 0.3 and sg:
                pass
            steps.append((i, sg))
            if expected == 'ok':
                if bad or subst(self.rules[i][2], sg) != cur:
                    expected = ('raise', k)
                elif any(not self.functional_head(t) for t in sg.values()):
                    expected = ('raise', k)
            if expected == 'ok':
                cur = subst(self.rules[i][3], sg)
        return init, steps, expected

    def steps_sx(self, steps):
        return '(steps %s)' % ' '.join('(%d (%s))' % (i, ' '.join('(%d %s)' % (v, tsx(t)) for v, t in sg.items())) for i, sg in steps)
