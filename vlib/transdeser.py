"""Translator: `deserialize_instructions` (generation/src/proof_generation/deserialize.py, Python `ast`) -> the Lean function
`Gen.Deser.step` (`Pi2/Gen/Deserializer.lean`), regenerated on every run: for one opcode byte, the rest of the byte stream and
the modelled interpreter state, what the Python branch does -- which operand bytes it reads (in which order), which interpreter
method it calls with which arguments (positions on the interpreter's stack, operand bytes, a memory index, the key/plug
dictionary of Instantiate), or that it raises.  `Pi2/DeserTie.lean` proves it equal to `decode1` followed by
`PySt.callOfInstr` / `track1`, the hand-written model (`Pi2/Deserialize.lean`).

The translation is syntax-directed: one Lean definition `br_X` per `elif instruction == Instruction.X:` branch, one Lean line
per Python statement (continuation-passing style, the helpers are those of `Pi2/DeserSupport.lean`).

Recognised statements
  X = next_byte('..')                         nextByte bs fun v_X bs =>
  X = [next_byte('..') for _ in range(N)]     nextBytes v_N bs fun v_X bs =>
  A, B, .. = (read_list() for _ in range(k))  k nested  readList bs fun v_A bs =>
  X = interpreter.stack[-k]                   let v_X := Arg.stackTop (k-1)
  X = map(assert_is_pattern, POSITIONS)       let v_X := ..; assertThat (allPattern s v_X) <|
  X = dict(PAIRS)                             [zipStrict .. fun zipped =>] let v_X := Arg.dict (pyDict ..)
  assert X is not None                        (X an operand byte: nothing)
  assert isinstance(X, Proved|Pattern)        assertThat (isProved s v_X) <|
  def assert_is_pattern(p): ..                (shape check)
  [_ =] interpreter.M(args)                   Res.call <"M", [args]> bs          (last statement of its block)
  if C: .. elif .. else ..                    if C then .. else ..               (a missing else = Res.noop bs)
  if C: raise ..   (followed by statements)   if C then Res.raise else ..
  raise E                                     Res.raise
  pass                                        (nothing)
Conditions: isinstance(X, T), interpreter.phase == ExecutionPhase.P, comparisons of operand bytes / len(interpreter.memory) /
constants, `not interpreter.claims`, `interpreter.claims[0].pattern != X.conclusion`, and / or / not of these.
Arguments: an operand byte, str(.), EVar(.)/SVar(.), tuple(EVar(i) for i in L), (), a stack position, interpreter.stack[-k],
len(interpreter.memory), interpreter.memory[X], the dictionary.

The helper closures `maybe_next_byte`, `next_byte`, `read_list` and the `while (byte := maybe_next_byte()) is not None:` loop
are checked against their expected shape (string constants ignored).  Anything else is reported as a problem, and the
generated file then says `translated := false`."""
from __future__ import annotations

import ast
import copy
import os

from . import core


class TrErr(Exception):
    pass


PHASES = {'Gamma': 'Phase.gamma', 'Claim': 'Phase.claim', 'Proof': 'Phase.proof'}

# expected shape of the helper closures (annotations dropped, every string constant replaced by '_')
HELPERS = {
    'maybe_next_byte': (
        "def maybe_next_byte():\n"
        "    nonlocal index\n"
        "    if index == len(data):\n"
        "        return None\n"
        "    ret = data[index]\n"
        "    index += 1\n"
        "    return ret"),
    'next_byte': (
        "def next_byte(err_msg):\n"
        "    match maybe_next_byte():\n"
        "        case None:\n"
        "            raise DeserializingException(err_msg)\n"
        "        case ret:\n"
        "            assert ret is not None\n"
        "            return ret"),
    'read_list': (
        "def read_list():\n"
        "    length = next_byte('_')\n"
        "    assert length is not None\n"
        "    res = []\n"
        "    for i in range(length):\n"
        "        elem = next_byte('_')\n"
        "        assert elem is not None\n"
        "        res.append(elem)\n"
        "    return tuple(res)"),
}
ASSERT_IS_PATTERN = (
    "def assert_is_pattern(p):\n"
    "    assert isinstance(p, Pattern)\n"
    "    return p")


class _Norm(ast.NodeTransformer):
    """drop annotations, replace string constants / f-strings by '_'"""

    def visit_FunctionDef(self, node):
        self.generic_visit(node)
        node.returns = None
        for a in node.args.args:
            a.annotation = None
        return node

    def visit_Constant(self, node):
        if isinstance(node.value, str):
            return ast.copy_location(ast.Constant('_'), node)
        return node

    def visit_JoinedStr(self, node):
        return ast.copy_location(ast.Constant('_'), node)


def shape(node):
    return ast.unparse(ast.fix_missing_locations(_Norm().visit(copy.deepcopy(node))))


def v(name):
    return 'v_' + name


def neg_const(e):
    """-k (k a positive literal) -> k"""
    if isinstance(e, ast.UnaryOp) and isinstance(e.op, ast.USub) and isinstance(e.operand, ast.Constant) \
            and isinstance(e.operand.value, int) and e.operand.value >= 1:
        return e.operand.value
    return None


def is_interp(e, attr):
    return isinstance(e, ast.Attribute) and isinstance(e.value, ast.Name) and e.value.id == 'interpreter' and e.attr == attr


class Branch:
    """translation of one branch body; `env` maps a Python local to its kind: byte | list | arg | positions"""

    def __init__(self):
        self.env = {}
        self.problems = []

    # ---------------------------------------------------------------- expressions
    def nat(self, e):
        """a natural-number expression"""
        if isinstance(e, ast.Name) and self.env.get(e.id) == 'byte':
            return v(e.id)
        if isinstance(e, ast.Constant) and isinstance(e.value, int) and not isinstance(e.value, bool) and e.value >= 0:
            return str(e.value)
        if isinstance(e, ast.Call) and isinstance(e.func, ast.Name) and e.func.id == 'len' and len(e.args) == 1 and not e.keywords \
                and is_interp(e.args[0], 'memory'):
            return 's.memory.length'
        if isinstance(e, ast.BinOp) and isinstance(e.op, ast.Add):
            return f'({self.nat(e.left)} + {self.nat(e.right)})'
        raise TrErr('number ' + ast.unparse(e))

    def stack_pos(self, e):
        """interpreter.stack[-k] -> Arg.stackTop (k-1)"""
        if isinstance(e, ast.Subscript) and is_interp(e.value, 'stack'):
            k = neg_const(e.slice)
            if k is not None:
                return f'Arg.stackTop {k - 1}'
        return None

    def arg(self, e):
        if isinstance(e, ast.Name):
            kind = self.env.get(e.id)
            if kind == 'byte':
                return f'Arg.byte {v(e.id)}'
            if kind == 'arg':
                return v(e.id)
            raise TrErr(f'argument {e.id} (kind {kind})')
        sp = self.stack_pos(e)
        if sp:
            return sp
        if isinstance(e, ast.Tuple) and not e.elts:
            return 'Arg.tuple0'
        if isinstance(e, ast.Subscript) and is_interp(e.value, 'memory') and isinstance(e.slice, ast.Name) \
                and self.env.get(e.slice.id) == 'byte':
            return f'Arg.memAt {v(e.slice.id)}'
        if isinstance(e, ast.Call) and isinstance(e.func, ast.Name) and len(e.args) == 1 and not e.keywords:
            f, a = e.func.id, e.args[0]
            if f == 'str':
                return f'Arg.str ({self.arg(a)})'
            if f in ('EVar', 'SVar'):
                return f'Arg.mkVar "{f}" ({self.arg(a)})'
            if f == 'len' and is_interp(a, 'memory'):
                return 'Arg.memLen'
            if f == 'tuple' and isinstance(a, ast.GeneratorExp) and len(a.generators) == 1:
                g = a.generators[0]
                el = a.elt
                if (isinstance(g.target, ast.Name) and not g.ifs and not g.is_async and isinstance(g.iter, ast.Name)
                        and self.env.get(g.iter.id) == 'list' and isinstance(el, ast.Call) and isinstance(el.func, ast.Name)
                        and el.func.id in ('EVar', 'SVar') and len(el.args) == 1 and not el.keywords
                        and isinstance(el.args[0], ast.Name) and el.args[0].id == g.target.id):
                    return f'Arg.vars "{el.func.id}" {v(g.iter.id)}'
        raise TrErr('argument ' + ast.unparse(e))

    def positions(self, e):
        """a list of stack positions (Python order): interpreter.stack[-(A):-B], reversed(..), a positions variable"""
        if isinstance(e, ast.Name) and self.env.get(e.id) == 'positions':
            return v(e.id)
        if isinstance(e, ast.Call) and isinstance(e.func, ast.Name) and e.func.id in ('reversed', 'list') and len(e.args) == 1 \
                and not e.keywords:
            inner = self.positions(e.args[0])
            return f'({inner}).reverse' if e.func.id == 'reversed' else inner
        if isinstance(e, ast.Subscript) and is_interp(e.value, 'stack') and isinstance(e.slice, ast.Slice) and e.slice.step is None \
                and e.slice.lower is not None and e.slice.upper is not None:
            lo, hi = e.slice.lower, e.slice.upper
            if isinstance(lo, ast.UnaryOp) and isinstance(lo.op, ast.USub) and isinstance(hi, ast.UnaryOp) and isinstance(hi.op, ast.USub):
                return f'stackSlice s.stack.length {self.nat(lo.operand)} {self.nat(hi.operand)}'
        raise TrErr('stack positions ' + ast.unparse(e))

    def pairs(self, e, zips):
        """a list of (key, stack position) pairs; zip(..) calls are collected in `zips` and replaced by a variable"""
        if isinstance(e, ast.Call) and isinstance(e.func, ast.Name):
            f = e.func.id
            if f in ('reversed', 'list') and len(e.args) == 1 and not e.keywords:
                inner = self.pairs(e.args[0], zips)
                return f'({inner}).reverse' if f == 'reversed' else inner
            if f == 'zip' and len(e.args) == 2 and isinstance(e.args[0], ast.Name) and self.env.get(e.args[0].id) == 'list' \
                    and isinstance(e.args[1], ast.Name) and self.env.get(e.args[1].id) == 'positions':
                kw = {k.arg: k.value for k in e.keywords}
                strict = False
                if kw:
                    if set(kw) != {'strict'} or not isinstance(kw['strict'], ast.Constant) or not isinstance(kw['strict'].value, bool):
                        raise TrErr('zip keywords ' + ast.unparse(e))
                    strict = kw['strict'].value
                name = 'zipped' if not zips else f'zipped{len(zips)}'
                zips.append((name, v(e.args[0].id), v(e.args[1].id), strict))
                return name
        raise TrErr('pairs ' + ast.unparse(e))

    def cond(self, e):
        """-> (lean expression, needs_fuel); with fuel the expression is an `Option Bool`"""
        if isinstance(e, ast.Call) and isinstance(e.func, ast.Name) and e.func.id == 'isinstance' and len(e.args) == 2 \
                and not e.keywords and isinstance(e.args[1], ast.Name) and e.args[1].id in ('Proved', 'Pattern'):
            return f'is{e.args[1].id} s ({self.arg(e.args[0])})', False
        if isinstance(e, ast.UnaryOp) and isinstance(e.op, ast.Not):
            if is_interp(e.operand, 'claims'):
                return 's.claims.isEmpty', False
            c, fuel = self.cond(e.operand)
            return (f'pyNot ({c})', True) if fuel else (f'(!{c})', False)
        if isinstance(e, ast.BoolOp):
            cs = [self.cond(x) for x in e.values]
            isor = isinstance(e.op, ast.Or)
            if not any(f for _, f in cs):
                return '(' + (' || ' if isor else ' && ').join(c for c, _ in cs) + ')', False
            out = None
            for c, f in reversed(cs):
                c = c if f else f'some ({c})'
                out = c if out is None else f'{"pyOr" if isor else "pyAnd"} ({c}) ({out})'
            return out, True
        if isinstance(e, ast.Compare) and len(e.ops) == 1:
            l, r, op = e.left, e.comparators[0], e.ops[0]
            if is_interp(l, 'phase') and isinstance(op, ast.Eq) and isinstance(r, ast.Attribute) and isinstance(r.value, ast.Name) \
                    and r.value.id == 'ExecutionPhase' and r.attr in PHASES:
                return f'(s.phase == {PHASES[r.attr]})', False
            # interpreter.claims[0].pattern != X.conclusion
            if (isinstance(op, (ast.NotEq, ast.Eq)) and isinstance(l, ast.Attribute) and l.attr == 'pattern'
                    and isinstance(l.value, ast.Subscript) and is_interp(l.value.value, 'claims')
                    and isinstance(l.value.slice, ast.Constant) and l.value.slice.value == 0
                    and isinstance(r, ast.Attribute) and r.attr == 'conclusion'):
                c = f'claimHeadEq n s ({self.arg(r.value)})'
                return (f'pyNot ({c})' if isinstance(op, ast.NotEq) else c), True
            ops = {ast.GtE: '≥', ast.Gt: '>', ast.LtE: '≤', ast.Lt: '<', ast.Eq: '=', ast.NotEq: '≠'}
            if type(op) in ops:
                return f'decide ({self.nat(l)} {ops[type(op)]} {self.nat(r)})', False
        raise TrErr('condition ' + ast.unparse(e))

    # ---------------------------------------------------------------- statements
    def interp_call(self, e):
        """interpreter.M(args) -> Res.call .."""
        if isinstance(e, ast.Call) and isinstance(e.func, ast.Attribute) and isinstance(e.func.value, ast.Name) \
                and e.func.value.id == 'interpreter':
            if e.keywords:
                raise TrErr('keyword arguments ' + ast.unparse(e))
            args = ', '.join(self.arg(a) for a in e.args)
            return f'Res.call ⟨"{e.func.attr}", [{args}]⟩ bs'
        return None

    @staticmethod
    def always_raises(stmts):
        return bool(stmts) and isinstance(stmts[-1], ast.Raise)

    def block(self, stmts, ind):
        """Lean term (list of lines) for a statement list"""
        pad = '  ' * ind
        if not stmts:
            return [pad + 'Res.noop bs']
        st, rest = stmts[0], stmts[1:]
        try:
            return self.stmt(st, rest, ind)
        except TrErr as ex:
            self.problems.append(f'{ex} (line {getattr(st, "lineno", "?")})')
            return [pad + f'Res.raise /- UNTRANSLATED: {ast.unparse(st).splitlines()[0][:80]} -/']

    def stmt(self, st, rest, ind):
        pad = '  ' * ind
        u = ast.unparse(st)
        if isinstance(st, ast.Expr) and isinstance(st.value, ast.Constant):
            return self.block(rest, ind)
        if isinstance(st, ast.Pass):
            return self.block(rest, ind)
        if isinstance(st, ast.Raise):
            if rest:
                raise TrErr('statements after raise')
            return [pad + 'Res.raise']
        if isinstance(st, ast.FunctionDef):
            if st.name == 'assert_is_pattern' and shape(st) == ASSERT_IS_PATTERN:
                self.env[st.name] = 'patfn'
                return self.block(rest, ind)
            raise TrErr('local function ' + st.name)
        if isinstance(st, ast.Assert):
            t = st.test
            if isinstance(t, ast.Compare) and len(t.ops) == 1 and isinstance(t.ops[0], ast.IsNot) and isinstance(t.left, ast.Name) \
                    and self.env.get(t.left.id) == 'byte' and isinstance(t.comparators[0], ast.Constant) \
                    and t.comparators[0].value is None:
                return self.block(rest, ind)
            c, fuel = self.cond(t)
            if fuel:
                raise TrErr('assert ' + u)
            return [pad + f'assertThat ({c}) <|'] + self.block(rest, ind)
        if isinstance(st, ast.If):
            c, fuel = self.cond(st.test)
            if rest:
                if st.orelse or not self.always_raises(st.body):
                    raise TrErr('if-statement followed by statements whose body does not end in raise: ' + u.splitlines()[0])
                a, b = self.block(st.body, ind + 1), self.block(rest, ind + 1)
            else:
                a, b = self.block(st.body, ind + 1), self.block(st.orelse, ind + 1)
            a[0] = pad + '  (' + a[0].lstrip(); a[-1] += ')'
            b[0] = pad + '  (' + b[0].lstrip(); b[-1] += ')'
            if fuel:
                return [pad + f'ifM ({c})'] + a + b
            return [pad + f'if {c} then'] + a + [pad + 'else'] + b
        value = None
        targets = None
        if isinstance(st, ast.Expr):
            value, targets = st.value, []
        elif isinstance(st, ast.Assign) and len(st.targets) == 1:
            value, targets = st.value, [st.targets[0]]
        if value is None:
            raise TrErr('statement ' + u[:70])
        # a call of an interpreter method (result unused or bound to `_`)
        call = self.interp_call(value)
        if call is not None:
            if targets and not (isinstance(targets[0], ast.Name) and targets[0].id == '_'):
                raise TrErr('result of an interpreter call is used: ' + u[:70])
            if rest:
                raise TrErr('statements after the interpreter call: ' + ast.unparse(rest[0])[:60])
            return [pad + call]
        if not targets:
            raise TrErr('statement ' + u[:70])
        tgt = targets[0]
        # A, B, .. = (read_list() for _ in range(k))
        if isinstance(tgt, ast.Tuple):
            if (isinstance(value, ast.GeneratorExp) and ast.unparse(value.elt) == 'read_list()' and len(value.generators) == 1
                    and not value.generators[0].ifs and isinstance(value.generators[0].iter, ast.Call)
                    and ast.unparse(value.generators[0].iter.func) == 'range' and len(value.generators[0].iter.args) == 1
                    and isinstance(value.generators[0].iter.args[0], ast.Constant)
                    and value.generators[0].iter.args[0].value == len(tgt.elts) and all(isinstance(x, ast.Name) for x in tgt.elts)):
                out = []
                for x in tgt.elts:
                    self.env[x.id] = 'list'
                    out.append(pad + f'readList bs fun {v(x.id)} bs =>')
                return out + self.block(rest, ind)
            raise TrErr('tuple assignment ' + u[:70])
        if not isinstance(tgt, ast.Name):
            raise TrErr('assignment target ' + u[:70])
        x = tgt.id
        # X = next_byte('..')
        if isinstance(value, ast.Call) and isinstance(value.func, ast.Name) and value.func.id == 'next_byte' and len(value.args) == 1 \
                and not value.keywords:
            self.env[x] = 'byte'
            return [pad + f'nextByte bs fun {v(x)} bs =>'] + self.block(rest, ind)
        # X = [next_byte('..') for _ in range(N)]
        if isinstance(value, ast.ListComp) and len(value.generators) == 1:
            g = value.generators[0]
            if (isinstance(value.elt, ast.Call) and isinstance(value.elt.func, ast.Name) and value.elt.func.id == 'next_byte'
                    and not g.ifs and isinstance(g.iter, ast.Call) and ast.unparse(g.iter.func) == 'range' and len(g.iter.args) == 1):
                cnt = self.nat(g.iter.args[0])
                self.env[x] = 'list'
                return [pad + f'nextBytes {cnt} bs fun {v(x)} bs =>'] + self.block(rest, ind)
        # X = interpreter.stack[-k]
        sp = self.stack_pos(value)
        if sp:
            self.env[x] = 'arg'
            return [pad + f'let {v(x)} := {sp}'] + self.block(rest, ind)
        # X = map(assert_is_pattern, POSITIONS)
        if isinstance(value, ast.Call) and isinstance(value.func, ast.Name) and value.func.id == 'map' and len(value.args) == 2 \
                and isinstance(value.args[0], ast.Name) and self.env.get(value.args[0].id) == 'patfn':
            p = self.positions(value.args[1])
            self.env[x] = 'positions'
            return [pad + f'let {v(x)} := {p}', pad + f'assertThat (allPattern s {v(x)}) <|'] + self.block(rest, ind)
        # X = POSITIONS (no assertion)
        try:
            p = self.positions(value)
            self.env[x] = 'positions'
            return [pad + f'let {v(x)} := {p}'] + self.block(rest, ind)
        except TrErr:
            pass
        # X = dict(PAIRS)
        if isinstance(value, ast.Call) and isinstance(value.func, ast.Name) and value.func.id == 'dict' and len(value.args) == 1 \
                and not value.keywords:
            zips = []
            p = self.pairs(value.args[0], zips)
            out = []
            for name, ks, vs, strict in zips:
                out.append(pad + (f'zipStrict {ks} {vs} fun {name} =>' if strict else f'let {name} := List.zip {ks} {vs}'))
            self.env[x] = 'arg'
            return out + [pad + f'let {v(x)} := Arg.dict (pyDict ({p}))'] + self.block(rest, ind)
        raise TrErr('statement ' + u[:70])


def translate_source(src):
    """-> (lean lines of the branch definitions and of `step`, problems, ok flags)"""
    problems = []
    lines = []
    flags = {'helpers_ok': True, 'loop_ok': True, 'branches_ok': True}
    tree = ast.parse(src)
    fn = next((n for n in tree.body if isinstance(n, ast.FunctionDef) and n.name == 'deserialize_instructions'), None)
    if fn is None:
        return [], ['Deserializer: function deserialize_instructions not found'], dict.fromkeys(flags, False)
    if [a.arg for a in fn.args.args] != ['data', 'interpreter']:
        problems.append('Deserializer: parameters are not (data, interpreter)'); flags['loop_ok'] = False
    body = [s for s in fn.body if not (isinstance(s, ast.Expr) and isinstance(s.value, ast.Constant))]
    # index = 0
    if not body or ast.unparse(body[0]) != 'index = 0':
        problems.append('Deserializer: first statement is not `index = 0`'); flags['helpers_ok'] = False
    else:
        body = body[1:]
    # helper closures
    seen = set()
    while body and isinstance(body[0], ast.FunctionDef):
        h = body.pop(0)
        if h.name not in HELPERS:
            problems.append(f'Deserializer: unexpected helper closure {h.name}'); flags['helpers_ok'] = False
        elif shape(h) != HELPERS[h.name]:
            problems.append(f'Deserializer: helper closure {h.name} does not have the expected shape'); flags['helpers_ok'] = False
        seen.add(h.name)
    for h in HELPERS:
        if h not in seen:
            problems.append(f'Deserializer: helper closure {h} not found'); flags['helpers_ok'] = False
    # the loop
    if len(body) != 1 or not isinstance(body[0], ast.While):
        problems.append('Deserializer: expected exactly the while loop after the helper closures'); flags['loop_ok'] = False
        loop = next((s for s in body if isinstance(s, ast.While)), None)
    else:
        loop = body[0]
    chain = None
    if loop is not None:
        if ast.unparse(loop.test) != '(byte := maybe_next_byte()) is not None':
            problems.append('Deserializer: loop condition is not `(byte := maybe_next_byte()) is not None`: ' + ast.unparse(loop.test))
            flags['loop_ok'] = False
        if loop.orelse:
            problems.append('Deserializer: while-else'); flags['loop_ok'] = False
        lb = loop.body
        if len(lb) != 2 or ast.unparse(lb[0]) != 'instruction = Instruction(byte)' or not isinstance(lb[1], ast.If):
            problems.append('Deserializer: loop body is not `instruction = Instruction(byte)` + one if/elif chain'); flags['loop_ok'] = False
            chain = next((s for s in lb if isinstance(s, ast.If)), None)
        else:
            chain = lb[1]
    dispatch = []
    used = {}
    node = chain
    final = None
    while node is not None:
        t = node.test
        if not (isinstance(t, ast.Compare) and len(t.ops) == 1 and isinstance(t.ops[0], ast.Eq) and isinstance(t.left, ast.Name)
                and t.left.id == 'instruction' and isinstance(t.comparators[0], ast.Attribute)
                and isinstance(t.comparators[0].value, ast.Name) and t.comparators[0].value.id == 'Instruction'):
            problems.append('Deserializer: branch test not of the form `instruction == Instruction.X`: ' + ast.unparse(t))
            flags['branches_ok'] = False
            opname, test = None, 'false /- UNTRANSLATED test -/'
        else:
            opname = t.comparators[0].attr
            test = f'byte == opc "{opname}"'
        label = opname or 'unknown'
        used[label] = used.get(label, 0) + 1
        name = f'br_{label}' + (f'_{used[label]}' if used[label] > 1 else '')
        br = Branch()
        blk = br.block(node.body, 1)
        for p in br.problems:
            problems.append(f'Deserializer: {label}: {p}'); flags['branches_ok'] = False
        lines.append(f'/-- `{ast.unparse(t)}` (deserialize.py line {node.lineno}) -/')
        lines.append(f'def {name} (n : Nat) (s : PySt) (bs : List Nat) : Res :=')
        lines += blk
        dispatch.append((test, name))
        if len(node.orelse) == 1 and isinstance(node.orelse[0], ast.If):
            node = node.orelse[0]
        else:
            final = node.orelse
            node = None
    if chain is not None:
        br = Branch()
        blk = br.block(final or [], 1)
        for p in br.problems:
            problems.append(f'Deserializer: final else: {p}'); flags['branches_ok'] = False
        lines.append('/-- the final `else:` of the chain (no `else` = the byte is skipped) -/')
        lines.append('def br_else (n : Nat) (s : PySt) (bs : List Nat) : Res :=')
        lines += blk
    lines.append('/-- one iteration of the loop body: `instruction = Instruction(byte)` and the if/elif chain -/')
    lines.append('def step (n : Nat) (s : PySt) (byte : Nat) (bs : List Nat) : Res :=')
    for test, name in dispatch:
        lines.append(f'  if {test} then {name} n s bs else')
    lines.append('  br_else n s bs' if chain is not None else '  Res.raise')
    return lines, problems, flags


def gen_deserializer(src_path=None, out_dir=None):
    """regenerate Pi2/Gen/Deserializer.lean; `src_path` / `out_dir` override the source file and the output directory"""
    src_path = src_path or os.path.join(core.PYSRC, 'proof_generation/deserialize.py')
    src = open(src_path).read()
    try:
        body, problems, flags = translate_source(src)
    except SyntaxError as ex:
        body, problems, flags = [], [f'Deserializer: cannot parse: {ex}'], {'helpers_ok': False, 'loop_ok': False, 'branches_ok': False}
    lines = ['import Pi2.DeserSupport',
             'import Pi2.Gen.Opcodes',
             '/-! GENERATED by /verif/vlib/transdeser.py from `deserialize_instructions` (deserialize.py): per opcode, the operand bytes',
             'read, the interpreter method called and where its arguments come from — do not edit.  `Pi2/DeserTie.lean` proves `step`',
             'and `run` equal to `decode1` + `PySt.callOfInstr` + `track1` and to `PySt.deserialize` (the hand-written model). -/',
             'set_option linter.unusedVariables false',
             'namespace Gen.Deser',
             'open PyDeser',
             'def opc (name : String) : Nat := ((Gen.pyOpcodes.find? (·.1 == name)).map (·.2)).getD 0']
    lines += body
    if not any(l.startswith('def step ') for l in body):
        lines.append('def step (n : Nat) (s : PySt) (byte : Nat) (bs : List Nat) : Res := Res.raise')
    lines += [
        '/-- `while (byte := maybe_next_byte()) is not None:` — the loop ends when the stream is exhausted; an exception ends it with',
        '`some none`; the first argument bounds the number of iterations (`deserialize`: every iteration reads its opcode byte) -/',
        'def run (n : Nat) : Nat → PySt → List Nat → Option (Option PySt)',
        '  | _, s, [] => some (some s)',
        '  | 0, _, _ :: _ => none',
        '  | fuel + 1, s, byte :: bs =>',
        '      match exec n s (step n s byte bs) with',
        '      | none => none',
        '      | some none => some none',
        "      | some (some (s', rest)) => run n fuel s' rest",
        'def deserialize (n : Nat) (s : PySt) (data : List Nat) : Option (Option PySt) := run n data.length s data',
    ]
    for k in ('helpers_ok', 'loop_ok', 'branches_ok'):
        lines.append(f'def {k} : Bool := {"true" if flags[k] else "false"}')
    lines.append(f'def translated : Bool := {"true" if all(flags.values()) and not problems else "false"}')
    lines.append('end Gen.Deser')
    from .translate import _write_if_changed, GEN
    _write_if_changed(os.path.join(out_dir or GEN, 'Deserializer.lean'), '\n'.join(lines) + '\n')
    return problems


if __name__ == '__main__':
    print(gen_deserializer())
