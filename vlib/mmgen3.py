"""Generator of Metamath databases WITH DECLARED NOTATIONS for C16 (`$a #Notation ( n args ) body $.` next to the
constructor axiom `$a #Pattern ( n args ) $.`): the converter turns such a statement into a Python closure that builds
the body, called once per use.  Bodies use the notation's own variables, constants, `\\imp`, `\\app`, n-ary constructors
(the `_missing_declarations` path of `MetamathConverter._to_pattern`) and EARLIER notations (the converter imports the
notations in database order).  The structural image below expands notations independently of the converter."""
from __future__ import annotations

from . import mm
from . import pymach as pm


class NotDB(mm.GenDB):
    def __init__(self, rng, **kw):
        self.notations = {}          # name -> (argument variables, body term); filled AFTER the base constructor
        super().__init__(rng, **kw)
        base_axioms, base_rules = self.axioms, self.rules
        n_not = rng.randint(1, 3)
        for i in range(n_not):
            name = 'n%d' % i
            ar = rng.randint(0, min(3, len(self.vars))) if rng.random() < 0.85 else 0
            args = rng.sample(self.vars, ar)
            # the body is generated BEFORE the notation is registered: only earlier notations may occur in it
            body = self.body_term(2, args)
            self.notations[name] = (args, body)
        # axioms and rules again, now that terms may use the notations
        self.axioms = [(lab, self.rand_term(2, self.vars[:rng.randint(0, len(self.vars))])) for lab, _ in base_axioms]
        self.rules = []
        for lab, hyps, _ in base_rules:
            hv = [h if isinstance(h, str) else h[1] for h in hyps]
            hyps2 = [v for v in hv] if rng.random() < 0.7 else [('\\imp', hv[0], self.rand_term(1, hv))] + hv[1:]
            self.rules.append((lab, hyps2, self.rand_term(2, hv)))

    def body_term(self, depth, args):
        """a notation body: never a bare application of the notation's own head; prefers shapes that use every argument and
        applies n-ary constructors to arguments (the closures of `_to_pattern` are called once per USE of the notation)"""
        rng = self.rng
        for _ in range(20):
            t = self.rand_term(depth, args)
            if isinstance(t, str):
                continue
            return t
        return ('\\imp', args[0] if args else self.consts[0], self.consts[0])

    def rand_term(self, depth, vars_):
        rng = self.rng
        if depth <= 0 or rng.random() < 0.3:
            pool = list(vars_) + self.consts + [n for n, (a, _) in self.notations.items() if not a]
            return rng.choice(pool) if pool else self.consts[0]
        heads = ['\\imp'] + (['\\app'] if self.with_app else []) + list(self.ctors) * 2 + [n for n, (a, _) in self.notations.items() if a] * 2
        h = rng.choice(heads)
        ar = 2 if h in ('\\imp', '\\app') else (self.ctors[h] if h in self.ctors else len(self.notations[h][0]))
        return (h,) + tuple(self.rand_term(depth - 1, vars_) for _ in range(ar))

    def header(self):
        st = super().header()
        st[0] = ('c', st[0][1] + ['#Notation'] + list(self.notations))
        at = next(k for k, s in enumerate(st) if s[0] == 'a' and s[1] == 'proof-rule-prop-1')
        new = []
        for n, (args, body) in self.notations.items():
            lhs = mm.term_toks((n,) + tuple(args)) if args else [n]
            new.append(('a', f'{n}-is-pattern', ['#Pattern'] + lhs))
            new.append(('a', f'{n}-is-sugar', ['#Notation'] + lhs + mm.term_toks(body)))
        return st[:at] + new + st[at:]


def expand(db, t):
    """the notation-free term denoted by `t`"""
    if isinstance(t, str):
        if t in db.notations:
            return expand(db, db.notations[t][1])
        return t
    h = t[0]
    args = [expand(db, a) for a in t[1:]]
    if h in db.notations:
        vs, body = db.notations[h]
        return mm.subst_term(expand(db, body), dict(zip(vs, args)))
    return (h,) + tuple(args)


def image(db, t):
    """structural image with the notations expanded (symbols by name)"""
    t = expand(db, t)

    def go(t):
        if isinstance(t, str):
            return pm.phi(db.float_order.index(t)) if t in db.float_order else ('sym', t)
        h = t[0]
        if h == '\\imp':
            return ('imp', go(t[1]), go(t[2]))
        if h == '\\app':
            return ('app', go(t[1]), go(t[2]))
        p = ('sym', h)
        for a in t[1:]:
            p = ('app', p, go(a))
        return p
    return go(t)
