"""An independent, small Metamath implementation used as ORACLE and GENERATOR for C15-C17: tokenizer/parser,
verifier for compressed proofs (frames, mandatory hypotheses in database order, $d checks, Z reuse), printer,
and a generator of random databases in the fragment the toolkit supports together with random valid proofs.

Written from the Metamath book, independently of /repo's code."""
from __future__ import annotations

import re

from . import sx  # noqa: F401


# ---------------------------------------------------------------------------------------------------------
# tokens / parsing into a statement list (nested blocks)
# ---------------------------------------------------------------------------------------------------------

def tokenize(src):
    out, i, n = [], 0, len(src)
    # white space is space, tab, carriage return, line feed, form feed (Metamath book, 4.1.1) — not `str.split()`, which also splits
    # at U+000B, U+001C..U+001F, U+0085, U+00A0, ...
    toks = [t for t in re.split(r'[ \t\n\f\r]+', src) if t]
    k = 0
    res = []
    while k < len(toks):
        if toks[k] == '$(':
            while toks[k] != '$)':
                k += 1
            k += 1
            continue
        res.append(toks[k])
        k += 1
    return res


def parse(src):
    """-> list of statements; a statement is a tuple:
       ('c', [consts]) ('v', [vars]) ('d', [vars]) ('f', label, typecode, var) ('e', label, [toks]) ('a', label, [toks])
       ('p', label, [toks], [proof toks]) ('block', [statements])"""
    toks = tokenize(src)
    pos = 0

    def stmts(in_block):
        nonlocal pos
        out = []
        while pos < len(toks):
            t = toks[pos]
            if t == '$}':
                if not in_block:
                    raise ValueError('unbalanced $}')
                pos += 1
                return out
            if t == '${':
                pos += 1
                out.append(('block', stmts(True)))
                continue
            if t in ('$c', '$v', '$d'):
                pos += 1
                body = []
                while toks[pos] != '$.':
                    body.append(toks[pos]); pos += 1
                pos += 1
                out.append((t[1], body))
                continue
            label = t
            kind = toks[pos + 1]
            pos += 2
            body = []
            while toks[pos] not in ('$.', '$='):
                body.append(toks[pos]); pos += 1
            if kind == '$f':
                pos += 1
                out.append(('f', label, body[0], body[1]))
            elif kind == '$e':
                pos += 1
                out.append(('e', label, body))
            elif kind == '$a':
                pos += 1
                out.append(('a', label, body))
            elif kind == '$p':
                assert toks[pos] == '$='
                pos += 1
                proof = []
                while toks[pos] != '$.':
                    proof.append(toks[pos]); pos += 1
                pos += 1
                out.append(('p', label, body, proof))
            else:
                raise ValueError(f'bad statement kind {kind}')
        if in_block:
            raise ValueError('unterminated block')
        return out
    return stmts(False)


def print_db(stmts, indent=''):
    out = []
    for s in stmts:
        k = s[0]
        if k in ('c', 'v', 'd'):
            out.append(f'{indent}${k} ' + ' '.join(s[1]) + ' $.')
        elif k == 'f':
            out.append(f'{indent}{s[1]} $f {s[2]} {s[3]} $.')
        elif k in ('e', 'a'):
            out.append(f'{indent}{s[1]} ${k} ' + ' '.join(s[2]) + ' $.')
        elif k == 'p':
            out.append(f'{indent}{s[1]} $p ' + ' '.join(s[2]) + ' $= ' + ' '.join(s[3]) + ' $.')
        elif k == 'block':
            out.append(indent + '${')
            out.append(print_db(s[1], indent + '  '))
            out.append(indent + '$}')
    return '\n'.join(out)


# ---------------------------------------------------------------------------------------------------------
# verifier
# ---------------------------------------------------------------------------------------------------------

class VerifyError(Exception):
    pass


class Frame:
    def __init__(self):
        self.c, self.v, self.d, self.f, self.e = set(), set(), set(), [], []   # f: (label, typecode, var); e: (label, toks)


def decode_num(word):
    n = ord(word[-1]) - 64
    mult = 20
    for ch in reversed(word[:-1]):
        n += (ord(ch) - 84) * mult
        mult *= 5
    return n


def split_compressed(proof):
    """proof tokens -> (labels, steps) where a step is an int >= 1 or 'Z'"""
    if not proof or proof[0] != '(' or ')' not in proof:
        raise VerifyError('not a compressed proof')
    i = proof.index(')')
    labels = proof[1:i]
    letters = ''.join(proof[i + 1:])
    steps, buf = [], ''
    for ch in letters:
        if ch == 'Z':
            if buf:
                raise VerifyError('Z inside a number')
            steps.append('Z')
        elif 'A' <= ch <= 'T':
            steps.append(decode_num(buf + ch)); buf = ''
        elif 'U' <= ch <= 'Y':
            buf += ch
        else:
            raise VerifyError(f'bad letter {ch!r}')
    if buf:
        raise VerifyError('incomplete number')
    return labels, steps


class Verifier:
    """verifies every $p of a database; `self.proved[label]` = the statement tokens it proved"""

    def __init__(self, strict=False):
        self.strict = strict  # also check declarations: every symbol a declared constant or an active variable with an active $f
        self.frames = [Frame()]
        self.labels = {}      # label -> ('f', typecode, var) | ('e', toks) | ('assert', dvs, fhyps, ehyps, stmt)
        self.used_labels = set()   # every label ever declared (labels are unique in the whole database, Metamath book 4.2.7)
        self.order = []       # labels in database order
        self.proved = {}

    def vars_of(self, toks):
        allv = set().union(*[f.v for f in self.frames])
        return [t for t in toks if t in allv]

    def make_assertion(self, stmt):
        """frame of an assertion: mandatory vars, mandatory $f in database order, $e in order, $d"""
        ehyps = [e for fr in self.frames for e in fr.e]
        mand = set(self.vars_of(stmt))
        for _, et in ehyps:
            mand.update(self.vars_of(et))
        fhyps = [f for fr in self.frames for f in fr.f if f[2] in mand]
        dvs = {(a, b) for fr in self.frames for (a, b) in fr.d if a in mand and b in mand}
        return ('assert', dvs, fhyps, ehyps, stmt)

    def check_symbols(self, label, toks, need_float=True):
        consts = set().union(*[f.c for f in self.frames])
        allv = set().union(*[f.v for f in self.frames])
        floats = {f[2] for fr in self.frames for f in fr.f}
        if not toks or toks[0] not in consts:
            raise VerifyError(f'{label}: typecode {toks[:1]} is not a declared constant')
        for t in toks:
            if t in consts and t in allv:
                raise VerifyError(f'{label}: {t} is both a constant and a variable')
            if t not in consts and t not in allv:
                raise VerifyError(f'{label}: symbol {t} is not declared')
            if need_float and t in allv and t not in floats:
                raise VerifyError(f'{label}: variable {t} has no active $f statement')
        if not need_float and (len(toks) != 2 or toks[1] not in allv):
            # a $f statement: typecode and an ACTIVE VARIABLE (a declared constant is not enough)
            raise VerifyError(f'{label}: {toks[1:]} is not an active variable')

    def run(self, stmts):
        for s in stmts:
            k = s[0]
            fr = self.frames[-1]
            if self.strict:
                if k == 'f':
                    self.check_symbols(s[1], [s[2], s[3]], need_float=False)
                elif k in ('e', 'a', 'p'):
                    self.check_symbols(s[1], s[2])
                elif k == 'd':
                    allv = set().union(*[f.v for f in self.frames])
                    for t in s[1]:
                        if t not in allv:
                            raise VerifyError(f'$d: {t} is not an active variable')
                if k in ('f', 'e', 'a', 'p') and s[1] in self.used_labels:
                    # also the label of a hypothesis whose block has been closed
                    raise VerifyError(f'label {s[1]} is defined twice')
            if k in ('f', 'e', 'a', 'p'):
                self.used_labels.add(s[1])
            if k == 'c':
                fr.c.update(s[1])
            elif k == 'v':
                fr.v.update(s[1])
            elif k == 'd':
                for a in s[1]:
                    for b in s[1]:
                        if a != b:
                            fr.d.add((min(a, b), max(a, b)))
            elif k == 'f':
                fr.f.append((s[1], s[2], s[3]))
                self.labels[s[1]] = ('f', s[2], s[3]); self.order.append(s[1])
            elif k == 'e':
                fr.e.append((s[1], s[2]))
                self.labels[s[1]] = ('e', s[2]); self.order.append(s[1])
            elif k == 'a':
                self.labels[s[1]] = self.make_assertion(s[2]); self.order.append(s[1])
            elif k == 'p':
                a = self.make_assertion(s[2])
                self.verify_proof(s[1], a, s[3])
                self.labels[s[1]] = a; self.order.append(s[1])
                self.proved[s[1]] = s[2]
            elif k == 'block':
                self.frames.append(Frame())
                self.run(s[1])
                gone = self.frames.pop()
                for lab, _, _ in gone.f:       # hypotheses of a closed block are no longer active
                    self.labels.pop(lab, None)
                for lab, _ in gone.e:
                    self.labels.pop(lab, None)

    def apply(self, stack, entry, dvs_ctx):
        if entry[0] == 'f':
            stack.append([entry[1], entry[2]])
        elif entry[0] == 'e':
            stack.append(list(entry[1]))
        else:
            _, dvs, fhyps, ehyps, stmt = entry
            n = len(fhyps) + len(ehyps)
            if len(stack) < n:
                raise VerifyError('stack underflow')
            args = stack[len(stack) - n:]
            del stack[len(stack) - n:]
            subst = {}
            for (lab, tc, var), a in zip(fhyps, args):
                if a[0] != tc:
                    raise VerifyError(f'typecode mismatch for {var}: {a[0]} vs {tc}')
                subst[var] = a[1:]
            def sub(toks):
                out = []
                for t in toks:
                    out += subst[t] if t in subst else [t]
                return out
            for (lab, et), a in zip(ehyps, args[len(fhyps):]):
                if sub(et) != a:
                    raise VerifyError(f'essential hypothesis {lab} does not match: {sub(et)} vs {a}')
            for (x, y) in dvs:
                vx, vy = self.vars_of(subst[x]), self.vars_of(subst[y])
                for a in vx:
                    for b in vy:
                        if a == b or (min(a, b), max(a, b)) not in dvs_ctx:
                            raise VerifyError(f'disjoint variable violation {x},{y}')
            stack.append(sub(stmt))

    def verify_proof(self, label, assertion, proof):
        _, _, fhyps, ehyps, stmt = assertion
        # the $d conditions of a step are checked against ALL $d statements active at the $p (Metamath book 4.1.4),
        # also those on dummy variables (`assertion[1]` only has the pairs of mandatory variables)
        dvs = {p for fr in self.frames for p in fr.d}
        stack, saved = [], []
        if proof and proof[0] != '(':
            # a normal proof: a sequence of labels
            for lab in proof:
                if lab not in self.labels:
                    raise VerifyError(f'unknown label {lab}')
                self.apply(stack, self.labels[lab], dvs)
        else:
            labels, steps = split_compressed(proof)
            table = [f[0] for f in fhyps] + [e[0] for e in ehyps] + labels
            for st in steps:
                if st == 'Z':
                    if not stack:
                        raise VerifyError('Z on empty stack')
                    saved.append(list(stack[-1]))
                elif st <= len(table):
                    lab = table[st - 1]
                    if lab not in self.labels:
                        raise VerifyError(f'unknown label {lab}')
                    self.apply(stack, self.labels[lab], dvs)
                else:
                    j = st - len(table) - 1
                    if j >= len(saved):
                        raise VerifyError('reference to an unsaved step')
                    stack.append(list(saved[j]))
        if len(stack) != 1:
            raise VerifyError(f'{label}: stack has {len(stack)} entries at the end')
        if stack[0] != stmt:
            raise VerifyError(f'{label}: proved {stack[0]} instead of {stmt}')


def verify(src_or_stmts, strict=False):
    st = parse(src_or_stmts) if isinstance(src_or_stmts, str) else src_or_stmts
    v = Verifier(strict)
    v.run(st)
    return v


# ---------------------------------------------------------------------------------------------------------
# generator: databases in the supported fragment + random valid proofs
# ---------------------------------------------------------------------------------------------------------

def enc_num(n):
    lo = (n - 1) % 20
    h = (n - 1) // 20
    out = chr(65 + lo)
    while h > 0:
        out = chr(85 + (h - 1) % 5) + out
        h = (h - 1) // 5
    return out


def term_toks(t):
    """term: 'ph0' | 'c0' | ('\\imp', a, b) | ('f0', a, b, ...)"""
    if isinstance(t, str):
        return [t]
    return ['(', t[0]] + [x for a in t[1:] for x in term_toks(a)] + [')']


def subst_term(t, s):
    if isinstance(t, str):
        return s.get(t, t)
    return (t[0],) + tuple(subst_term(a, s) for a in t[1:])


class GenDB:
    """a random database:  constants c*, constructors f* (arity 1-3), \\imp (optionally \\app), axioms, rules with
    essential hypotheses, the three proof rules; metavariables ph0..ph{nv-1} declared in a shuffled $f order"""

    def __init__(self, rng, nv=3, n_consts=2, n_ctors=2, n_axioms=3, n_rules=2, with_app=True, shuffle_floats=True, shuffle_roles=False):
        self.rng = rng
        nv = max(3, nv)          # the proof rules mention ph0..ph2
        self.vars = ['ph%d' % i for i in range(nv)]
        self.float_order = list(self.vars)
        if shuffle_floats:
            rng.shuffle(self.float_order)
        self.consts = ['s%d' % i for i in range(n_consts)]
        self.ctors = {('s%d' % (n_consts + i)): rng.randint(1, min(3, nv)) for i in range(n_ctors)}
        self.with_app = with_app
        # the variables over which the built-in constructors and the proof rules are stated
        pick = (lambda k: rng.sample(self.vars, k)) if shuffle_roles else (lambda k: self.vars[:k])
        self.imp_vars, self.app_vars = pick(2), pick(2)
        self.p1_vars, self.p2_vars, self.mp_vars = pick(2), pick(3), pick(2)
        self.ctor_vars = {f: pick(ar) for f, ar in self.ctors.items()}
        self.axioms = []     # (label, term)
        self.rules = []      # (label, [hyp terms], concl term)
        for i in range(n_axioms):
            self.axioms.append(('ax%d' % i, self.rand_term(2, self.vars[:rng.randint(0, nv)])))
        for i in range(n_rules):
            nh = rng.randint(1, 2)
            hv = self.vars[:nh]
            hyps = [v for v in hv] if rng.random() < 0.7 else [('\\imp', hv[0], self.rand_term(1, hv))] + hv[1:]
            self.rules.append(('rule%d' % i, hyps, self.rand_term(2, hv)))

    def rand_term(self, depth, vars_):
        rng = self.rng
        if depth <= 0 or rng.random() < 0.3:
            pool = list(vars_) + self.consts
            return rng.choice(pool) if pool else self.consts[0]
        heads = ['\\imp'] + (['\\app'] if self.with_app else []) + list(self.ctors)
        h = rng.choice(heads)
        ar = 2 if h in ('\\imp', '\\app') else self.ctors[h]
        return (h,) + tuple(self.rand_term(depth - 1, vars_) for _ in range(ar))

    def header(self):
        st = [('c', ['#Pattern', '|-', '(', ')', '\\imp'] + (['\\app'] if self.with_app else []) + self.consts + list(self.ctors)),
              ('v', list(self.vars))]
        for v in self.float_order:
            st.append(('f', f'{v}-is-pattern', '#Pattern', v))
        st.append(('a', 'imp-is-pattern', ['#Pattern'] + term_toks(('\\imp',) + tuple(self.imp_vars))))
        if self.with_app:
            st.append(('a', 'app-is-pattern', ['#Pattern'] + term_toks(('\\app',) + tuple(self.app_vars))))
        for c in self.consts:
            st.append(('a', f'{c}-is-pattern', ['#Pattern', c]))
        for f, ar in self.ctors.items():
            st.append(('a', f'{f}-is-pattern', ['#Pattern'] + term_toks((f,) + tuple(self.ctor_vars[f]))))
        a, b = self.p1_vars
        st.append(('a', 'proof-rule-prop-1', ['|-'] + term_toks(('\\imp', a, ('\\imp', b, a)))))
        a, b, c = self.p2_vars
        st.append(('a', 'proof-rule-prop-2', ['|-'] + term_toks(('\\imp', ('\\imp', a, ('\\imp', b, c)), ('\\imp', ('\\imp', a, b), ('\\imp', a, c))))))
        a, b = self.mp_vars
        st.append(('block', [('e', 'proof-rule-mp.0', ['|-'] + term_toks(('\\imp', a, b))),
                             ('e', 'proof-rule-mp.1', ['|-', a]),
                             ('a', 'proof-rule-mp', ['|-', b])]))
        for lab, t in self.axioms:
            st.append(('a', lab, ['|-'] + term_toks(t)))
        for lab, hyps, concl in self.rules:
            st.append(('block', [('e', f'{lab}.{i}', ['|-'] + term_toks(h)) for i, h in enumerate(hyps)] +
                       [('a', lab, ['|-'] + term_toks(concl))]))
        return st


class ProofBuilder:
    """RPN proof of a target over a GenDB, as a list of labels; mandatory floats are referred to by their labels"""

    def __init__(self, db, verifier):
        self.db, self.v = db, verifier

    def term_steps(self, t):
        """steps proving `#Pattern t`"""
        if isinstance(t, str):
            for lab, e in self.v.labels.items():
                if e[0] == 'f' and e[2] == t:
                    return [lab]
            return [f'{t}-is-pattern']
        h = t[0]
        lab = {'\\imp': 'imp-is-pattern', '\\app': 'app-is-pattern'}.get(h, f'{h}-is-pattern')
        _, dvs, fhyps, ehyps, stmt = self.v.labels[lab]
        # mandatory floats of the constructor axiom in database order: map var -> argument
        pat_args = [x for x in stmt[3:-1]] if len(stmt) > 2 else []
        argmap = {}
        for var, a in zip(pat_args, t[1:]):
            argmap.setdefault(var, a)
        out = []
        for (_, _, var) in fhyps:
            out += self.term_steps(argmap[var])
        return out + [lab]

    def assertion_steps(self, lab, subst, hyp_proofs):
        _, dvs, fhyps, ehyps, stmt = self.v.labels[lab]
        out = []
        for (_, _, var) in fhyps:
            out += self.term_steps(subst.get(var, var))
        # essential hypotheses stated outside a block (variable-free) come first among `ehyps`: cited by their label
        for (elab, _) in ehyps[:max(0, len(ehyps) - len(hyp_proofs))]:
            out.append(elab)
        for hp in hyp_proofs:
            out += hp
        return out + [lab]


def gen_tree(rng, db, depth, tvars):
    """random proof tree; returns (proved term, builder(pb) -> steps)"""
    r = rng.random()
    if depth <= 0 or r < 0.25:
        k = rng.random()
        if k < 0.4 and db.axioms:
            lab, t = rng.choice(db.axioms)
            s = {v: db.rand_term(1, tvars) for v in db.vars}
            return subst_term(t, s), (lambda pb, lab=lab, s=s: pb.assertion_steps(lab, s, []))
        if k < 0.7:
            A, B = db.rand_term(1, tvars), db.rand_term(1, tvars)
            s = {db.p1_vars[0]: A, db.p1_vars[1]: B}
            return ('\\imp', A, ('\\imp', B, A)), (lambda pb, s=s: pb.assertion_steps('proof-rule-prop-1', s, []))
        A, B, C = db.rand_term(1, tvars), db.rand_term(1, tvars), db.rand_term(1, tvars)
        s = dict(zip(db.p2_vars, (A, B, C)))
        t = ('\\imp', ('\\imp', A, ('\\imp', B, C)), ('\\imp', ('\\imp', A, B), ('\\imp', A, C)))
        return t, (lambda pb, s=s: pb.assertion_steps('proof-rule-prop-2', s, []))
    if r < 0.65:
        # weaken by modus ponens:  A ; A -> (C -> A)  |-  C -> A
        A, pa = gen_tree(rng, db, depth - 1, tvars)
        C = db.rand_term(1, tvars)
        concl = ('\\imp', C, A)
        def build(pb, A=A, C=C, pa=pa, concl=concl):
            p1 = pb.assertion_steps('proof-rule-prop-1', {db.p1_vars[0]: A, db.p1_vars[1]: C}, [])
            return pb.assertion_steps('proof-rule-mp', {db.mp_vars[0]: A, db.mp_vars[1]: concl}, [p1, pa(pb)])
        return concl, build
    if db.rules:
        lab, hyps, concl = rng.choice(db.rules)
        # hypotheses are variables (or ph0 -> t): prove each by a sub-tree and read the substitution off
        s, hps = {}, []
        okk = True
        for h in hyps:
            if isinstance(h, str):
                A, pa = gen_tree(rng, db, depth - 1, tvars)
                s[h] = A
                hps.append(pa)
            else:
                okk = False
        if okk:
            for v in db.vars:
                s.setdefault(v, v if v in tvars else db.consts[0])
            return subst_term(concl, s), (lambda pb, lab=lab, s=s, hps=hps: pb.assertion_steps(lab, s, [h(pb) for h in hps]))
    return gen_tree(rng, db, depth - 1, tvars)


def compress(steps, mandatory_labels, reuse=True, rng=None):
    """label steps -> compressed proof tokens.  With reuse, repeated sub-proofs cannot be detected on a flat RPN list without
    arities, so reuse marks are placed on repeated *term leaf* steps only when safe: a repeated label step of arity 0."""
    labels = []
    for s in steps:
        if s not in mandatory_labels and s not in labels:
            labels.append(s)
    table = list(mandatory_labels) + labels
    letters = []
    for s in steps:
        letters.append(enc_num(table.index(s) + 1))
    return ['('] + labels + [')'] + [''.join(letters)], table


def compress_with_reuse(rng, steps, arity, mandatory_labels, p_reuse=0.5):
    """compression with Z marks: `arity[label]` = number of stack entries the step consumes; a completed sub-proof that is
    identical to an earlier completed sub-proof is replaced by a reference to it (the earlier one gets a Z)"""
    labels = []
    for s in steps:
        if s not in mandatory_labels and s not in labels:
            labels.append(s)
    table = list(mandatory_labels) + labels
    # reconstruct sub-proof spans
    stack = []   # list of (start, end) spans
    spans = []
    for i, s in enumerate(steps):
        a = arity[s]
        start = i if a == 0 else stack[len(stack) - a][0]
        del stack[len(stack) - a:]
        stack.append((start, i))
        spans.append((start, i))
    out = []          # list of tokens: ('L', idx) | ('Z',) | ('R', k)
    saved = {}        # tuple(sub-proof) -> saved index
    marked = {}       # end position in out of a span that received Z
    nsaved = 0
    i = 0
    emitted_spans = {}   # tuple(steps[start:end+1]) -> index in `out` of its last token
    res = []
    pos = 0
    # greedy: walk steps; at each step i, if the span ending at i equals an earlier emitted span of length >= 2, we cannot
    # retroactively replace; so decide at span START: we do a simple one-pass scheme on leaf-level sub-proofs of length >= 2
    # that start at i: look ahead for the maximal span starting at i.
    span_at_start = {}
    for (st, en) in spans:
        if en > st:
            span_at_start.setdefault(st, []).append(en)
    toks = []
    i = 0
    while i < len(steps):
        done = False
        for en in sorted(span_at_start.get(i, []), reverse=True):
            key = tuple(steps[i:en + 1])
            if key in saved and rng.random() < p_reuse:
                toks.append(('R', rng.choice(saved[key])))       # any of the marks of this expression
                i = en + 1
                done = True
                break
        if done:
            continue
        toks.append(('L', table.index(steps[i]) + 1))
        # does a span END here that we may want to save?
        for (st, en) in spans:
            if en == i and (en > st or rng.random() < 0.1):
                key = tuple(steps[st:en + 1])
                # an expression may be marked again when it is rebuilt (Metamath numbers every Z): probability 0.4
                if (key not in saved and rng.random() < 0.6) or (key in saved and rng.random() < 0.4):
                    # only valid if the whole span was emitted literally/with reuse as one unit ending here: it was, since we
                    # never cut spans (a reuse replaces a whole span)
                    toks.append(('Z',))
                    saved.setdefault(key, []).append(nsaved)
                    nsaved += 1
                    break
        i += 1
    letters = []
    for t in toks:
        if t[0] == 'L':
            letters.append(enc_num(t[1]))
        elif t[0] == 'Z':
            letters.append('Z')
        else:
            letters.append(enc_num(len(table) + t[1] + 1))
    return ['('] + labels + [')'] + [''.join(letters)], table
