"""Translator: the normal-form stages of the tautology prover WITH THEIR PROOF OBJECTS (generation/src/proof_generation/
tautology.py, Python `ast`) -> the Lean functions of `Pi2/Gen/StageProofs.lean` (namespace `Gen.Stage`), statement by
statement, regenerated on every run.  `Pi2/StageThm.lean` proves that the proof objects conclude what the docstrings say.

This is the SAME translator as `vlib/transtaut.py` (class `StageFn` extends `transtaut.Fn`; the data part of every
function is produced by the very same code, over the same primitives `Pi2/TautSupport.lean` and the same generated class
hierarchy `Gen.PyTaut.ConjForm`) with the proof slice switched ON:

  * nothing is dropped: every statement of the function is translated, in source order, branch by branch;
  * an expression of type `ProofThunk` is a value of the carrier `τ` of a thunk algebra `A : StageSup.SAlg τ`
    (`Pi2/StageSupport.lean`):
      - `self.<lemma>(p.., t..)` of a schematic library lemma (one of the bodies `vlib/translemma.py` puts into
        `Gen.lemmaDefs`; default pattern arguments `phi<k>` filled in)   ->  `lib A ix_<lemma> [p..] [t..]`   (may raise)
      - `self.modus_ponens(l, r)`                                      ->  `A.mp l r`                          (may raise)
      - `self.dynamic_inst(h, subst)`                                  ->  `A.inst h subst`
      - `self.<m>(..)` of a proof method that is itself translated here (`HELPERS`: `imp_trans_match1/2`, which use
        `match_single`)                                                ->  a call of the generated function
      - `h.conc`                                                       ->  `A.conc h`
    `ProofThunk | None` is `Option τ`; `x: ProofThunk = y` with `y : ProofThunk | None` (after `assert y is not None`) binds
    in the monad (`none` = the later `AttributeError`);
  * pattern expressions on the proof side (`MetaVar(i)`, `neg/_and/_or/Implies/equiv/bot/top`, `Implies.extract`,
    `N.assert_matches`, `match_single(a, b, {})`) are notation-free `Pat` terms (`Lem.negP`, `StageSup.extractImp`, ...); a
    data-side pattern (`Form`: the parameter `pat` of `to_conj_form` / `prove_tautology` and what `Implies.extract` yields
    from it) is embedded by `StageSup.toPat` where a proof expression uses it;
  * a method whose proof objects are NOT translated and that a stage calls in a data position (`OPAQUE`:
    `start_resolution_algorithm`) is a PARAMETER of the generated function (its result is a hypothesis of the theorems);
  * reading `x.f.negated` after `self.m(x.f)` where `m` only assigns flags strictly BELOW its parameter is not stale (the
    functional copy of the caller holds exactly the flag the callee does not touch): the staleness check of transtaut is
    refined by the set of attribute paths the callee (transitively) assigns.
Everything that is not recognised is reported as a problem and makes the generated file define `translated := false`."""
from __future__ import annotations

import ast
import os
import re

from . import core
from . import translemma
from . import transtaut as tt
from .transtaut import BOOL, INT, NONE, PAT, PROOF, TrErr, access_path, first_line, indent, is_kind, lname, terminal

PATX, SUBST = 'patx', 'subst'
STAGES = ['to_conj_form', 'propag_neg', 'to_cnf', 'to_clauses', 'start_resolution_algorithm', 'prove_tautology']
HELPERS = ['imp_trans_match1', 'imp_trans_match2']
OPAQUE = ['prove_trivial_clause', 'build_proof_from_hint']      # proof objects not translated: parameters
EXTERNAL = ['is_trivial_clause', 'resolution_algorithm']         # pure data: the functions of Gen.PyTaut are called
PNOT = {'neg': ('Lem.negP', 1), '_and': ('Lem.andP', 2), '_or': ('Lem.orP', 2), 'Implies': ('Pat.imp', 2), 'equiv': ('Lem.equivP', 2)}
ASSERT_MATCHES = {'_and': 'StageSup.assertAnd', '_or': 'StageSup.assertOr'}

_base_lean_ty = tt.lean_ty


def stage_lean_ty(t):
    if t == PROOF:
        return 'τ'
    if t == PATX:
        return 'Pat'
    if t == SUBST:
        return 'StageSup.Subst'
    return _base_lean_ty(t)


class LemmaTable:
    """the schematic library lemmas, indexed as in `Gen.lemmaDefs` (same procedure as translemma.gen_lemmas)"""

    def __init__(self):
        self.methods = translemma.load_methods()
        tr = translemma.Translator(self.methods)
        for name in self.methods:
            tr.translate(name)
        self.index = dict(tr.index)
        self.opaque = dict(tr.opaque)
        self.used = []

    def use(self, name):
        if name not in self.used:
            self.used.append(name)
        return f'ix_{name}'


class StageFn(tt.Fn):
    def __init__(self, mod, node, lemmas):
        super().__init__(mod, node, True)
        self.lem = lemmas
        if self.name not in STAGES:
            self.params = [(p, PATX if t == PAT else t) for p, t in self.params]
        self.declared_proof = set()
        for n in ast.walk(node):
            if isinstance(n, ast.AnnAssign) and isinstance(n.target, ast.Name):
                try:
                    if mod.ann(n.annotation) == PROOF:
                        self.declared_proof.add(n.target.id)
                except TrErr:
                    pass
        self.opaque_used = []

    # ---- the slice: everything is kept ---------------------------------------------------------
    translating = False

    def proofish(self, e):
        # during the translation proper a proof-typed expression is an ordinary (τ-typed) expression
        if self.translating:
            return False
        return super().proofish(e)

    def translate(self):
        self.translating = True
        try:
            return super().translate()
        finally:
            self.translating = False

    def compute_live(self):
        self.live = set(self.locals)

    def is_dropped(self, s):
        if isinstance(s, ast.Pass):
            return True
        if isinstance(s, ast.Expr) and isinstance(s.value, ast.Constant):
            return True
        if isinstance(s, ast.AnnAssign) and s.value is None:
            return True
        return False

    def loads(self, e):
        out = set()
        for n in ast.walk(e):
            if isinstance(n, ast.Name) and isinstance(n.ctx, ast.Load) and n.id in self.locals:
                out.add(n.id)
        return out

    def prepass(self, all_fns):
        super().prepass(all_fns)
        # calls of translated functions in ANY position (fuel, order of definition)
        for n in ast.walk(self.node):
            m = self.self_call(n)
            if m and m in all_fns:
                self.calls.add(m)

    def calls_fuel(self, stmts):
        for s in stmts:
            for n in ast.walk(s):
                m = self.self_call(n)
                if m and ((m in self.all_fns and self.all_fns[m].fuel) or m in OPAQUE):
                    return True
        return False

    # ---- staleness, refined --------------------------------------------------------------------
    def mutated_suffixes(self, bound, seen=()):
        """attribute paths (relative to a parameter) this function assigns, transitively; truncated to `bound` fields
        (a truncated path stands for all its extensions) -> set of (path, truncated?)"""
        out = set()
        params = [p for p, _ in self.params]

        def add(path):
            if len(path) > bound:
                out.add((path[:bound], True))
            else:
                out.add((path, False))
        for n in ast.walk(self.node):
            if isinstance(n, (ast.Assign, ast.AugAssign)):
                for t in (n.targets if isinstance(n, ast.Assign) else [n.target]):
                    if isinstance(t, ast.Attribute):
                        p = access_path(t)
                        if p and p[0] in params:
                            add(p[1:])
            m = self.self_call(n)
            if m and m in self.all_fns and self.all_fns[m].attr_mut and len(seen) < bound + 1:
                g = self.all_fns[m]
                for (gp, _), a in zip(g.params, n.args):
                    if gp in g.attr_mut:
                        ap = access_path(a)
                        if ap and ap[0] in params:
                            for (suf, tr) in g.mutated_suffixes(bound, seen + (self.name,)):
                                if tr:
                                    out.add(((ap[1:] + suf)[:bound], True))
                                else:
                                    add(ap[1:] + suf)
        return out

    def check_stale(self, e):
        p = access_path(e)
        if p is None or self.skip_stale:
            return
        for s in self.stale:
            n = min(len(s), len(p))
            if s[:n] != p[:n]:
                continue
            bad = True
            if len(p) > len(s):
                r = p[len(s):]
                bad = False
                for g in self.all_fns.values():
                    if not g.attr_mut:
                        continue
                    for (m, tr) in g.mutated_suffixes(len(r) + 1):
                        k = min(len(m), len(r))
                        if m[:k] == r[:k]:
                            # m is a prefix of r (the read goes through an assigned field) or r is a prefix of m
                            bad = True
            if bad:
                raise TrErr(f'`{".".join(p)}` is read after `{".".join(s)}` was passed to a method that mutates attributes below '
                            f'its parameter: the functional reading would be stale')

    # ---- expressions ---------------------------------------------------------------------------
    def as_patx(self, txt, ty, what):
        if ty == PATX:
            return txt
        if ty == PAT:
            return f'(StageSup.toPat {txt})'
        raise TrErr(f'`{what}`: a {ty} where a pattern is expected')

    def ex(self, e, want=None):
        if isinstance(e, ast.Name) and e.id in self.env and self.env[e.id] == PROOF:
            self.check_stale(e)
            if is_kind(want, 'opt'):
                return f'(some {lname(e.id)})', ('opt', PROOF)
            return lname(e.id), PROOF
        if isinstance(e, ast.Name) and e.id in self.env and self.env[e.id] == PAT and want == PATX:
            return f'(StageSup.toPat {lname(e.id)})', PATX
        if isinstance(e, ast.Attribute) and e.attr == 'conc':
            t, ty = self.ex(e.value)
            if ty != PROOF:
                raise TrErr(f'`{ast.unparse(e)[:50]}`: .conc of a {ty}')
            return f'(A.conc {t})', PATX
        m = self.self_call(e)
        if m is not None and m in OPAQUE:
            return self.ex_opaque_call(e, m)
        if m is not None and (m in self.mod.proof_methods):
            t, ty = self.ex_thunk_call(e, m)
            if is_kind(want, 'opt'):
                return f'(some {t})', ('opt', PROOF)
            return t, ty
        r = self.ex_pat(e, want)
        if r is not None:
            return r
        r = self.ex_list(e, want)
        if r is not None:
            return r
        txt, ty = super().ex(e, want)
        if ty == PAT and want == PATX:
            return f'(StageSup.toPat {txt})', PATX
        return txt, ty

    def ex_pat(self, e, want):
        """pattern-side expressions; None = not one of them"""
        if isinstance(e, ast.Subscript) and isinstance(e.value, ast.Call) and isinstance(e.value.func, ast.Attribute) \
                and e.value.func.attr == 'assert_matches' and ast.unparse(e.value.func.value) == 'neg' \
                and isinstance(e.slice, ast.Constant) and e.slice.value == 0 and len(e.value.args) == 1:
            a, ta = self.ex(e.value.args[0], PATX)
            return self.bindm(f'StageSup.assertNeg {self.as_patx(a, ta, ast.unparse(e))}', PATX)
        if not isinstance(e, ast.Call) or e.keywords:
            return None
        f = e.func
        if isinstance(f, ast.Name):
            n = f.id
            if n == 'MetaVar' and len(e.args) == 1:
                a, ta = self.ex(e.args[0])
                if ta != INT:
                    raise TrErr(f'MetaVar(..) of a {ta}')
                return f'(StageSup.mvP {a})', PATX
            if n in ('bot', 'top') and not e.args:
                if want == PATX:
                    return f'Lem.{n}P', PATX
                return None
            if n in PNOT and len(e.args) == PNOT[n][1]:
                xs = [self.ex(a, PATX if want == PATX else None) for a in e.args]
                if n == 'neg' and xs[0][1] == PAT and want != PATX:
                    return f'(TautSup.neg {xs[0][0]})', PAT
                ps = [self.as_patx(t, ty, ast.unparse(e)[:50]) for t, ty in xs]
                return f'({PNOT[n][0]} ' + ' '.join(ps) + ')', PATX
            if n == 'match_single' and len(e.args) == 3 and isinstance(e.args[2], ast.Dict) and not e.args[2].keys:
                a, ta = self.ex(e.args[0], PATX)
                b, tb = self.ex(e.args[1], PATX)
                return (f'(StageSup.matchSingle {self.as_patx(a, ta, "match_single")} {self.as_patx(b, tb, "match_single")} [])',
                        ('opt', SUBST))
            return None
        if isinstance(f, ast.Attribute) and isinstance(f.value, ast.Name) and len(e.args) == 1:
            if f.value.id == 'Implies' and f.attr == 'extract':
                a, ta = self.ex(e.args[0])
                if ta == PATX:
                    return f'(StageSup.extractImp {a})', ('opt', ('tuple', (PATX, PATX)))
                return None        # a data-side pattern: transtaut
            if f.attr == 'assert_matches' and f.value.id in ASSERT_MATCHES:
                a, ta = self.ex(e.args[0], PATX)
                return f'({ASSERT_MATCHES[f.value.id]} {self.as_patx(a, ta, ast.unparse(e)[:50])})', ('opt', ('tuple', (PATX, PATX)))
        return None

    def ex_list(self, e, want):
        """list forms the data slice does not use: `xs[:k]`, `reversed(xs)`, a comprehension whose element can raise"""
        if isinstance(e, ast.Subscript) and isinstance(e.slice, ast.Slice) and e.slice.lower is None \
                and e.slice.upper is not None and e.slice.step is None:
            v, tv = self.ex(e.value)
            hi, th = self.ex(e.slice.upper)
            if is_kind(tv, 'list') and th == INT:
                return f'(StageSup.pySliceTo {v} {hi})', tv
            raise TrErr(f'slice `{ast.unparse(e)[:50]}` of a {tv}')
        if isinstance(e, ast.Call) and isinstance(e.func, ast.Name) and e.func.id == 'reversed' and len(e.args) == 1 and not e.keywords:
            v, tv = self.ex(e.args[0])
            if is_kind(tv, 'list'):
                return f'(List.reverse {v})', tv
            raise TrErr(f'reversed(..) of a {tv}')
        if isinstance(e, ast.ListComp) and len(e.generators) == 1 and not e.generators[0].is_async and not e.generators[0].ifs:
            g = e.generators[0]
            saved_env, saved_pre, saved_n = dict(self.env), self.pre, self.ntmp
            it, ti = self.ex(g.iter)
            if is_kind(ti, 'list') and ti[1] is not None:
                pat, binds = self.target_pattern(g.target, ti[1], all_live=True)
                outer = self.pre
                self.env.update(binds)
                self.pre = []
                elt, te = self.ex(e.elt)
                inner, self.pre = self.pre, outer
                self.env = saved_env
                if inner:
                    body = '; '.join(inner + [f'pure {elt}'])
                    return self.bindm(f'List.mapM (fun {pat} => do {body}) {it}', ('list', te))
            # no raising element: the comprehension of the data slice
            self.env, self.pre, self.ntmp = saved_env, saved_pre, saved_n
        return None

    def thunk_arg(self, a):
        t, ty = self.ex(a)
        if ty == ('opt', PROOF):
            # a `ProofThunk | None` used as a thunk (after `assert x is not None`): `None` raises at the first use
            t, ty = self.bindm(t, PROOF)
        if ty != PROOF:
            raise TrErr(f'`{ast.unparse(a)[:50]}` of {ty} in a ProofThunk position')
        return t

    def ex_thunk_call(self, e, m):
        if e.keywords:
            raise TrErr(f'keyword arguments: `{ast.unparse(e)[:60]}`')
        if m == 'modus_ponens' and len(e.args) == 2:
            l = self.thunk_arg(e.args[0])
            r = self.thunk_arg(e.args[1])
            return self.bindm(f'A.mp {l} {r}', PROOF)
        if m == 'dynamic_inst' and len(e.args) == 2:
            h = self.thunk_arg(e.args[0])
            s, ts = self.ex(e.args[1])
            if ts != SUBST:
                raise TrErr(f'dynamic_inst with a substitution of {ts}')
            return f'(A.inst {h} {s})', PROOF
        if m in self.all_fns:
            g = self.all_fns[m]
            if len(e.args) != len(g.params):
                raise TrErr(f'{m}: {len(e.args)} arguments for {len(g.params)} parameters')
            args = []
            for a, (p, pt) in zip(e.args, g.params):
                t, ty = self.ex(a, pt)
                if ty != pt:
                    raise TrErr(f'{m}: argument `{ast.unparse(a)[:40]}` of {ty} for the parameter {p} of {pt}')
                args.append(t)
            return self.bindm(f'{lname(m)} ' + ' '.join((['fuel_'] if g.fuel else []) + args), g.ret)
        if m in self.lem.index:
            callee = self.lem.methods[m]
            if len(e.args) > len(callee.params):
                raise TrErr(f'{m}: too many arguments')
            ps, ts = [], []
            for i, (pn, kind, dv) in enumerate(callee.params):
                if i < len(e.args):
                    if kind == 'P':
                        t, ty = self.ex(e.args[i], PATX)
                        ps.append(self.as_patx(t, ty, ast.unparse(e.args[i])[:50]))
                    else:
                        ts.append(self.thunk_arg(e.args[i]))
                else:
                    if dv is None or kind != 'P':
                        raise TrErr(f'missing argument {pn} of {m}')
                    ps.append(f'(phi {dv})')
            return self.bindm(f'lib A {self.lem.use(m)} [{", ".join(ps)}] [{", ".join(ts)}]', PROOF)
        why = self.lem.opaque.get(m, 'not a method of the lemma libraries')
        raise TrErr(f'call of self.{m}, whose proof object is not translated ({why})')

    def ex_opaque_call(self, e, m):
        node = self.mod.methods.get(m)
        if node is None:
            raise TrErr(f'{m}: no such method')
        ptys = [self.mod.ann(a.annotation) for a in node.args.args[1:]]
        rty = self.mod.ann(node.returns)
        if len(ptys) != len(e.args):
            raise TrErr(f'{m}: arity')
        args = []
        for a, pt in zip(e.args, ptys):
            t, ty = self.ex(a, pt)
            if ty != pt:
                raise TrErr(f'{m}: argument `{ast.unparse(a)[:40]}` of {ty} for a parameter of {pt}')
            args.append(t)
        sig = 'Nat → ' + ' → '.join(tt.paren_ty(stage_lean_ty(t)) for t in ptys) + f' → Option {tt.paren_ty(stage_lean_ty(rty))}'
        if (m, sig) not in self.opaque_used:
            self.opaque_used.append((m, sig))
        return self.bindm(f'{lname(m)} fuel_ ' + ' '.join(args), rty)

    def target_pattern(self, t, ty, all_live=False):
        if isinstance(t, ast.Name):
            if t.id == '_':
                return '_', {}
            return lname(t.id), {t.id: ty}
        return super().target_pattern(t, ty, all_live)

    # ---- statements ----------------------------------------------------------------------------
    def tr_return(self, s, ctx):
        rt = self.ret
        inner = rt[1] if is_kind(rt, 'opt') else rt
        if s.value is not None and is_kind(inner, 'tuple') and isinstance(s.value, ast.Tuple) and len(s.value.elts) == len(inner[1]):
            parts = []
            for e, pt in zip(s.value.elts, inner[1]):
                t, ty = self.ex(e, pt)
                if ty == NONE and is_kind(pt, 'opt'):
                    ty = pt
                if ty != pt and not (is_kind(ty, 'list') and ty[1] is None and is_kind(pt, 'list')):
                    raise TrErr(f'`{ast.unparse(e)[:50]}` of {ty} returned where {pt} is declared')
                parts.append(t)
            v, tv = '(' + ', '.join(parts) + ')', inner
            if is_kind(rt, 'opt'):
                v, tv = f'(some {v})', rt
            return self.flush() + ctx['ret'](v)
        return super().tr_return(s, ctx)

    def tr_assign(self, s):
        t = s.target if isinstance(s, ast.AnnAssign) else (s.targets[0] if isinstance(s, ast.Assign) and len(s.targets) == 1 else None)
        if isinstance(t, ast.Name) and getattr(s, 'value', None) is not None and not isinstance(s, ast.AugAssign):
            declared = None
            if isinstance(s, ast.AnnAssign):
                declared = self.mod.ann(s.annotation)
                if declared == PAT:
                    declared = PATX
                if is_kind(declared, 'dict') and declared[1] == INT and declared[2] == PAT:
                    declared = SUBST
            elif t.id in self.declared_proof:
                declared = PROOF
            if declared in (PROOF, PATX, SUBST):
                v, tv = self.ex(s.value, declared if declared == PATX else None)
                if tv == ('opt', declared):
                    lines = self.flush() + [f'let {lname(t.id)} ← {v}']
                elif tv == declared:
                    lines = self.flush() + [f'let {lname(t.id)} := {v}']
                else:
                    raise TrErr(f'a value of {tv} is assigned to {t.id}, declared {declared}')
                self.env[t.id] = declared
                self.unstale(t.id)
                return lines
        return super().tr_assign(s)

    def tr_expr_stmt(self, s):
        e = s.value
        if not (isinstance(e, ast.Call) and isinstance(e.func, ast.Attribute) and isinstance(e.func.value, ast.Name)
                and (e.func.attr in tt.MUTATORS or e.func.value.id == 'self')):
            v, tv = self.ex(e)
            lines = self.flush()
            if is_kind(tv, 'opt'):
                lines.append(f'let _ ← {v}')
            return lines
        if self.self_call(e) in self.mod.proof_methods:
            self.ex(e)
            return self.flush()
        return super().tr_expr_stmt(s)

    def read_outside(self, name, node):
        """is `name` read by a statement that can run AFTER the statement `node` (later statements of the enclosing blocks;
        the whole body of an enclosing loop)?"""
        parent = {}
        for n in ast.walk(self.node):
            for fld in ('body', 'orelse', 'finalbody'):
                blk = getattr(n, fld, None)
                if isinstance(blk, list):
                    for i, c in enumerate(blk):
                        if isinstance(c, ast.stmt):
                            parent[id(c)] = (n, blk, i)
            if isinstance(n, ast.Match):
                for cs in n.cases:
                    for i, c in enumerate(cs.body):
                        parent[id(c)] = (n, cs.body, i)
        after = []
        cur = node
        while id(cur) in parent:
            p, blk, i = parent[id(cur)]
            after += blk[i + 1:]
            if isinstance(p, (ast.For, ast.While)):
                after.append(p)
            cur = p
        for st in after:
            for n in ast.walk(st):
                if isinstance(n, ast.Name) and n.id == name and isinstance(n.ctx, ast.Load):
                    return True
        return False

    def tr_if(self, s, rest, k, ctx):
        t = s.test
        tb, to = terminal(s.body, self.dropped), terminal(s.orelse, self.dropped)
        if (isinstance(t, ast.Call) and isinstance(t.func, ast.Name) and t.func.id == 'isinstance' and len(t.args) == 2
                and isinstance(t.args[0], ast.Name) and is_kind(self.env.get(t.args[0].id), 'union')) \
                or not rest or tb or to or self.has_jump(s.body + s.orelse):
            return super().tr_if(s, rest, k, ctx)
        # join (no jump in either branch, statements follow): as transtaut, except that a name that only ONE branch binds and
        # that is not read outside the `if` is local to that branch
        pre_lines = []
        if isinstance(t, ast.NamedExpr):
            v, tv = self.ex(t.value)
            pre_lines = self.flush() + [f'let {lname(t.target.id)} := {v}']
            self.env[t.target.id] = tv
            c = self.truthy(lname(t.target.id), tv)
        else:
            c = self.cond(t)
            pre_lines = self.flush()
        saved = (dict(self.env), list(self.stale))
        in_body, in_else = self.assigned(s.body), self.assigned(s.orelse)
        names = []
        for n in self.assigned(s.body + s.orelse):
            if n not in saved[0] and not (n in in_body and n in in_else):
                if self.read_outside(n, s):
                    raise TrErr(f'{n} is bound in one branch of the if only and read outside it')
                continue
            names.append(n)
        tup = self.tuple_of(names)

        def branch(stmts):
            self.env, self.stale = dict(saved[0]), list(saved[1])
            return self.tr_block(stmts, lambda: [f'pure {tup}'], ctx)
        l1 = branch(s.body)
        e1 = (dict(self.env), list(self.stale))
        l2 = branch(s.orelse)
        for n in names:
            if e1[0].get(n) != self.env.get(n):
                raise TrErr(f'{n} has the types {e1[0].get(n)} / {self.env.get(n)} in the branches of the if')
        self.env = {n: ty for n, ty in self.env.items() if n in saved[0] or n in names}
        self.stale = list({*e1[1], *self.stale})
        head = f'let {tup} ← (do' if names else '(do'
        return pre_lines + [head, f'  if {c} then'] + indent(l1, 4) + ['  else'] + indent(l2[:-1] + [l2[-1] + ')'], 4) + self.tr_block(rest, k, ctx)


# ----------------------------------------------------------------------------------------------
# the module
# ----------------------------------------------------------------------------------------------

HEADER = '''import Pi2.StageSupport
import Pi2.Gen.PyTaut
/-! GENERATED by /verif/vlib/transstage.py from the normal-form stages of the tautology prover WITH THEIR PROOF OBJECTS
(generation/src/proof_generation/tautology.py), statement by statement — do not edit.
`Pi2/StageThm.lean` proves that the returned proof objects conclude what the docstrings say, over the conclusion algebra
`StageSup.algCS` and over the proof-tree algebra `StageSup.algGS`.
The data part is translated exactly as in `Pi2/Gen/PyTaut.lean` (same translator, nothing dropped here); a `ProofThunk` is a
value of the carrier `τ` of the thunk algebra `A : StageSup.SAlg τ`; `lib A ix_<lemma> [patterns] [thunks]` is the call of a
library lemma of `Gen.lemmaDefs` (`Pi2/Gen/Lemmas.lean`), `A.mp` is `modus_ponens`, `A.inst` is `dynamic_inst`, `A.conc h` is
`h.conc`; proof-side patterns are notation-free (`Pat`), a data-side pattern `p : Form` enters them as `StageSup.toPat p`.
`none` = the Python code raises (also: a proof construction fails), or the fuel ran out.
%s-/
set_option linter.unusedVariables false
namespace Gen.Stage
open TautSup Pat
open StageSup (lib)
open Gen.PyTaut (%s)'''


def data_slice_fns(mod):
    """the functions of the data slice as transtaut analyses them (types, fuel, parameters mutated in place): what a call of
    one of them from a stage function looks like"""
    cands = {}
    for name, node in mod.methods.items():
        if name in mod.proof_methods or name.startswith('__'):
            continue
        if any(isinstance(x, (ast.FunctionDef, ast.Lambda)) for x in ast.walk(node) if x is not node):
            continue
        cands[name] = tt.Fn(mod, node, True)
    for _ in range(3):
        for f in cands.values():
            f.prepass(cands)
    reach, work = [], [r for r in tt.ROOTS if r in cands]
    while work:
        n = work.pop(0)
        if n in reach:
            continue
        reach.append(n)
        work += [c for c in cands[n].calls if c in cands]
    fns = {n: cands[n] for n in reach}
    changed = True
    while changed:
        changed = False
        for f in fns.values():
            if not f.fuel and any(c in fns and fns[c].fuel for c in f.calls):
                f.fuel = True
                changed = True
    for f in fns.values():
        for n in ast.walk(f.node):
            m = f.self_call(n)
            if m in fns and m != f.name:
                for (p, _), a in zip(fns[m].params, n.args):
                    if p in fns[m].container_mut and isinstance(a, ast.Name) and a.id in [q for q, _ in f.params] and a.id not in f.container_mut:
                        f.container_mut.append(a.id)
    return fns


def translate_source(src, extra_srcs):
    """-> (lines, notes, problems)"""
    mod = tt.Mod(src, extra_srcs)
    problems = list(mod.problems)
    if mod.taut is None:
        return [], [], problems, ''
    lemmas = LemmaTable()
    ext = {}
    try:
        dfns = data_slice_fns(mod)
        for n in EXTERNAL:
            if n in dfns:
                ext[n] = dfns[n]
            else:
                problems.append(f'the data function {n} is not in the data slice')
    except TrErr as ex_:
        problems.append(f'data slice: {ex_}')
    fns = {}
    for name in HELPERS + STAGES:
        node = mod.methods.get(name)
        if node is None:
            problems.append(f'method {name} not found')
            continue
        if any(isinstance(x, (ast.FunctionDef, ast.Lambda)) for x in ast.walk(node) if x is not node):
            problems.append(f'method {name} has nested functions')
            continue
        fns[name] = StageFn(mod, node, lemmas)
    allf = dict(ext)
    allf.update(fns)
    for _ in range(3):
        for f in fns.values():
            saved = list(f.problems)
            f.prepass(allf)
            f.problems = saved if _ < 2 else f.problems
    for f in fns.values():
        f.fuel = f.self_rec or f.index_loops or any(f.self_call(n) in OPAQUE for n in ast.walk(f.node))
    changed = True
    while changed:
        changed = False
        for f in fns.values():
            if not f.fuel and any(c in allf and allf[c].fuel for c in f.calls):
                f.fuel = True
                changed = True
    order = []

    def visit(n, stack=()):
        if n in order or n in stack:
            return
        for c in sorted(fns[n].calls, key=lambda x: fns[x].node.lineno if x in fns else 0):
            if c in fns and c != n:
                visit(c, stack + (n,))
        order.append(n)
    for n in sorted(fns, key=lambda x: fns[x].node.lineno):
        visit(n)
    attrs = set()
    for f in fns.values():
        for n in ast.walk(f.node):
            if isinstance(n, (ast.Assign, ast.AugAssign)):
                for t in (n.targets if isinstance(n, ast.Assign) else [n.target]):
                    p = access_path(t) if isinstance(t, ast.Attribute) else None
                    if p:
                        attrs |= set(p[1:])
    mod.gen_classes(attrs)          # fills the field tables; the classes themselves are those of Gen.PyTaut
    problems += [p for p in mod.problems if p not in problems]
    body = []
    defined = []
    for n in order:
        f = fns[n]
        for g in fns.values():
            g.all_fns = allf
        lines = f.translate()
        problems += f.problems
        names = list(f.loops.values()) + [n]
        defined += names
        extra = ''.join(f' ({lname(m)} : {sig})' for m, sig in f.opaque_used)
        f.sig_extra = extra
        body.append((n, names, lines, f))
    # every generated function takes the algebra (and the opaque methods it calls) as its first parameters
    out = []
    opaque_of = {}
    own = {n: list(f.opaque_used) for n, names, lines, f in body}
    changed = True
    while changed:      # a function that calls a generated function passes that function's opaque methods on
        changed = False
        for n, names, lines, f in body:
            for c in f.calls:
                if c in own and c != n:
                    for o in own[c]:
                        if o not in own[n]:
                            own[n].append(o)
                            changed = True
    for n, names, lines, f in body:
        for nm in names:
            opaque_of[nm] = own[n]
    for n, names, lines, f in body:
        for line in lines:
            st = line.strip()
            if st.startswith('--') or st.startswith('/--'):
                out.append(line.replace('the data slice', 'data and proof objects'))
                continue
            m = re.match(r'(\s*)def (\S+)\s*(.*)$', line)
            if m and m.group(2) in defined:
                extra = ''.join(f' ({lname(o)} : {sig})' for o, sig in opaque_of[m.group(2)])
                rest_ = m.group(3)
                out.append(f'{m.group(1)}def {m.group(2)} {{τ : Type}} (A : StageSup.SAlg τ){extra} {rest_}')
                continue

            def repl(mm):
                nm = mm.group(0)
                ops = ''.join(f' {lname(o)}' for o, _ in opaque_of[nm])
                return f'{nm} A{ops}'
            if defined:
                line = re.sub(r'(?<![\w.«])(' + '|'.join(re.escape(d) for d in sorted(defined, key=len, reverse=True)) + r')(?![\w»])', repl, line)
            out.append(line)
    table = ['/-- the library lemmas the stages call: index in `Gen.lemmaDefs` -/']
    for name in lemmas.used:
        table.append(f'def ix_{name} : Nat := {lemmas.index[name]}')
    table.append('/-- …by name -/')
    table.append('def lemmaTable : List (String × Nat) := [' + ', '.join(f'("{n}", ix_{n})' for n in lemmas.used) + ']')
    notes = ['Translated (callees first): ' + ', '.join(order) + '.',
             'Library lemmas called: ' + ', '.join(f'{n} ({lemmas.index[n]})' for n in lemmas.used) + '.',
             'Methods whose proof objects are NOT translated — parameters of the generated functions: ' + ', '.join(OPAQUE) + '.',
             'Pure data methods called from `Gen.PyTaut`: ' + ', '.join(EXTERNAL) + '.']
    table.append('/-- the indices are those of `Gen.lemmaDefs` (same run of the translators; checked by evaluation) -/')
    table.append('theorem lemmaTable_ok : lemmaTable.all (fun p => (Gen.lemmaDefs[p.2]?).map (·.name) == some p.1) = true := by decide')
    opens = []
    for c in mod.classes.values():
        r = mod.root_of[c.name]
        if r not in opens:
            opens.append(r)
        if c.name in [x.name for x in mod.ctors(r)]:
            opens.append(f'{c.name}_new')
    opens += [n for n in EXTERNAL if n in ext]
    return table + out, notes, problems, ' '.join(opens)


def gen_stage_proofs(src_path=None, out_dir=None):
    """regenerate Pi2/Gen/StageProofs.lean"""
    default = os.path.join(core.PYSRC, 'proof_generation/tautology.py')
    src_path = src_path or default
    extra = []
    for rel in ('proofs/propositional.py', 'proof.py'):
        p = os.path.join(os.path.dirname(src_path), rel)
        if not os.path.exists(p):
            p = os.path.join(os.path.dirname(default), rel)
        try:
            extra.append(open(p).read())
        except OSError:
            pass
    saved = tt.lean_ty
    tt.lean_ty = stage_lean_ty
    try:
        body, notes, problems, opens = translate_source(open(src_path).read(), extra)
    except SyntaxError as ex:
        body, notes, problems, opens = [], [], [f'cannot parse: {ex}'], ''
    except Exception as ex:   # noqa  (a bug of the translator must not leave a stale generated file behind)
        body, notes, problems, opens = [], [], [f'translator failure {type(ex).__name__}: {ex}'], ''
    finally:
        tt.lean_ty = saved
    problems = ['StageProofs: ' + p for p in problems]
    lines = [HEADER % (''.join(n.replace('-/', '- /').replace('/-', '/ -') + '\n' for n in notes), opens or 'ConjForm')] + body
    lines.append(f'def translated : Bool := {"true" if not problems else "false"}')
    for p in problems:
        lines.append('-- PROBLEM: ' + p.replace('\n', ' '))
    lines.append('end Gen.Stage')
    from .translate import _write_if_changed, GEN
    _write_if_changed(os.path.join(out_dir or GEN, 'StageProofs.lean'), '\n'.join(lines) + '\n')
    return problems


if __name__ == '__main__':
    import sys
    print(gen_stage_proofs(*sys.argv[1:3]))
