"""Translator: the pretty printer, Python `ast` -> Lean (`Pi2/Gen/PyPretty.lean`), regenerated on every run.

(a) generation/src/proof_generation/pattern.py: the `pretty(self, opts)` and `__str__` methods of the eleven pattern
    classes (`EVar` ... `SSubst`, `Instantiate`), `Notation.print_instantiation`, the dataclasses `PrettyOptions` (its
    defaults = `PrettyOptions()`) and `Notation` (its fields) — statement by statement, as written: every f-string piece,
    every `+`, the dictionary lookup `self.pattern in opts.notations` / `opts.notations[self.pattern]`, the comprehension
    over `applied.inst.values()`, `self.format_str.format(*pretty_opts)` inside its `try`, the fallback branch.
    Virtual calls `p.pretty(opts)` / `str(p)` become the two generated dispatchers `pretty` / `toStr` (one unit of fuel per
    dispatch); a method body that performs no call that can fail is generated as a plain `String` function.
(b) generation/src/proof_generation/pretty_printing_interpreter.py: the decorator `pretty` (its wrapper: the super method of
    the same name, then the decorated function, then the newline, then `print_stack()` if asked for, the super method's
    value returned), every `@pretty(...)`-decorated method as the list of strings it hands to `self.out.write`, `print_stack`.

`Pi2/PrettyTie.lean` proves (a) equal to the hand-written model `PP.pretty` (`Pi2/PrettyPat.lean`) and (b) to correspond,
call by call, to what the translated serializer (`Pi2/Gen/Serializer.lean`) writes.

Python's own library (`str.format`, `str(int)`, `str(dict)`, `repr(str)`, `str.join`, dict lookup) is not translated: it is
the hand-written `PyP.strFormat` (= `Fmt.parseFmt` / `Fmt.render`), `strNat`, `strDict`, `strJoin`, `mapFind` of
`Pi2/PrettySupport.lean`.

Accepted statements (a): `return e`, `if c: ... return` (+ the statements after it), `assert a == b`, `x = e`, `x = {}`,
  `x = [e for p in d.values()]`, `for k, v in d.items(): x[k] = e`, `try: return e  except Exception as e: raise ...`.
Accepted expressions (a): f-strings without conversions / format specs, `+` on strings, string constants, `self.<field>`,
  `<EVar/SVar field>.name`, `opts`, `opts.simplify_instantiations`, `opts.notations`, `applied.pattern`, `applied.inst`, the
  fields of a `Notation`, `PrettyOptions()`, `e.pretty(o)`, `str(e)`, `self.simplify()`, `k in m`, `m[k]`,
  `n.print_instantiation(i, o)`, `a == b` on patterns, `f.format(*l)`.
Accepted in (b): `self.out.write(e)` with `e` a string constant, a `str` parameter, `str(<int parameter>)`, an f-string over
  `int` parameters / `<EVar parameter>.name` / `len(<tuple parameter>)` / `str` parameters, `', '.join(map(str, delta.keys()))`,
  `str(self.memory.index(term))`, `str(item)` on the items of a tuple of `EVar` / `SVar` objects; a nested helper `def` made of
  these, `if len(lst) == 0: return`, `for item in lst:`; calls of the helper.
Everything else is reported as a problem and makes the generated file define `translated := false`."""
from __future__ import annotations

import ast
import os

from . import core

# class -> (NPat constructor, [(field, annotation)]): the representation the generated code pattern-matches on
CLASSES = {
    'EVar': ('evar', [('name', 'int')]), 'SVar': ('svar', [('name', 'int')]), 'Symbol': ('sym', [('name', 'str')]),
    'Implies': ('imp', [('left', 'Pattern'), ('right', 'Pattern')]), 'App': ('app', [('left', 'Pattern'), ('right', 'Pattern')]),
    'Exists': ('ex', [('var', 'int'), ('subpattern', 'Pattern')]), 'Mu': ('mu', [('var', 'int'), ('subpattern', 'Pattern')]),
    'MetaVar': ('mv', [('name', 'int'), ('e_fresh', 'tuple[EVar, ...]'), ('s_fresh', 'tuple[SVar, ...]'),
                       ('positive', 'tuple[SVar, ...]'), ('negative', 'tuple[SVar, ...]'), ('app_ctx_holes', 'tuple[EVar, ...]')]),
    'ESubst': ('esub', [('pattern', 'MetaVar | ESubst | SSubst'), ('var', 'EVar'), ('plug', 'Pattern')]),
    'SSubst': ('ssub', [('pattern', 'MetaVar | ESubst | SSubst'), ('var', 'SVar'), ('plug', 'Pattern')]),
    'Instantiate': ('inst', [('pattern', 'Pattern'), ('inst', 'InstantiationDict')]),
}
# annotation -> static type of the translation
ANN = {'int': 'Nat', 'str': 'Sym', 'Pattern': 'Pat', 'MetaVar | ESubst | SSubst': 'Pat', 'EVar': 'EVarO', 'SVar': 'SVarO',
       'tuple[EVar, ...]': 'EVars', 'tuple[SVar, ...]': 'SVars', 'InstantiationDict': 'DictPat', 'PrettyOptions': 'Opts',
       'Instantiate': 'InstO', 'bool': 'Bool'}
LEAN_TY = {'Nat': 'Nat', 'Sym': 'Nat', 'Pat': 'NPat', 'EVarO': 'Nat', 'SVarO': 'Nat', 'EVars': 'List Nat', 'SVars': 'List Nat',
           'DictPat': 'List (Nat × NPat)', 'Opts': 'PrettyOptions', 'Str': 'String', 'Bool': 'Bool', 'Notation': 'Notation',
           'DictStr': 'List (Nat × String)', 'StrList': 'List String'}
NOTATION_FIELDS = [('label', 'str'), ('arity', 'int'), ('definition', 'Pattern'), ('format_str', 'str')]
NOTATION_TY = {'label': 'Str', 'arity': 'Nat', 'definition': 'Pat', 'format_str': 'Str'}
OPTS_FIELDS = [('simplify_instantiations', 'bool'), ('notations', 'Mapping[Pattern, Notation]')]
REC = '(σ : Nat → String) (n : Nat) (pretty_ : NPat → PrettyOptions → Py String) (str_ : NPat → Py String)'
REC_ARGS = 'σ n pretty_ str_'
SIMPLIFY_BODY = 'return self.pattern.instantiate(self.inst)'

# the interpreter interface (one `Call` of the tracker model each); the two phase changes are not decorated
INTERFACE = ['evar', 'svar', 'symbol', 'metavar', 'implies', 'app', 'exists', 'mu', 'esubst', 'ssubst', 'prop1', 'prop2', 'prop3',
             'modus_ponens', 'exists_quantifier', 'exists_generalization', 'instantiate', 'instantiate_pattern', 'pop', 'save',
             'load', 'publish_proof', 'publish_axiom', 'publish_claim']
UNDECORATED = ['into_claim_phase', 'into_proof_phase']
# annotation of an interpreter parameter -> (Lean type, kind); `None` = the value is a term, not representable in a step line
PARAM = {'int': ('Nat', 'Nat'), 'str': ('String', 'Str'), 'EVar': ('Nat', 'EVarO'), 'SVar': ('Nat', 'SVarO'),
         'tuple[EVar, ...]': ('List Nat', 'EVars'), 'tuple[SVar, ...]': ('List Nat', 'SVars'),
         'dict[int, Pattern]': ('List Nat', 'Keys'), 'Mapping[int, Pattern]': ('List Nat', 'Keys'),
         'Pattern': None, 'Proved': None, 'Pattern | Proved': None, 'MetaVar | ESubst | SSubst': None}
KEYWORDS = {'exists'}
INIT_BODY = ['super().__init__(phase=phase, out=out, claims=claims, claim_out=claim_out, proof_out=proof_out)',
             'self.pretty_options = pretty_options if pretty_options else PrettyOptions()']


class TrErr(Exception):
    pass


def lstr(s):
    out = []
    for ch in s:
        if ch == '\\':
            out.append('\\\\')
        elif ch == '"':
            out.append('\\"')
        elif ch == '\n':
            out.append('\\n')
        elif ch == '\t':
            out.append('\\t')
        elif ch == '\r':
            out.append('\\r')
        elif ord(ch) < 32 or ord(ch) == 127:
            out.append('\\x%02x' % ord(ch))
        else:
            out.append(ch)
    return '"' + ''.join(out) + '"'


def lname(n):
    return f'«{n}»' if n in KEYWORDS else n


def is_doc(st):
    return isinstance(st, ast.Expr) and isinstance(st.value, ast.Constant) and isinstance(st.value.value, str)


def src_comment(st):
    return ['-- ' + l for l in ast.unparse(st).splitlines()[:3]]


# ----------------------------------------------------------------------------------------------
# (a) pattern.py
# ----------------------------------------------------------------------------------------------

class PMethod:
    """translation of one method of a pattern class / of `Notation`"""

    def __init__(self, tr, owner, fn, self_ty, fields):
        self.tr, self.owner, self.fn, self.self_ty, self.fields = tr, owner, fn, self_ty, fields
        self.tmp = 0
        self.eff = False
        self.env = {}       # python local / parameter -> (lean, type)

    def fresh(self):
        self.tmp += 1
        return f't{self.tmp}'

    # ---- expressions: returns (lean, type); effects are appended to `pre` -----------------------
    def as_str(self, lean, ty):
        if ty == 'Str':
            return lean
        if ty == 'Sym':
            return f'(σ {lean})'
        if ty == 'Nat':
            return f'(strNat {lean})'
        raise TrErr(f'a value of type {ty} where a string is needed')

    def obj(self, lean, ty):
        """the NPat a value denotes"""
        if ty == 'Pat':
            return lean
        if ty == 'EVarO':
            return f'(NPat.evar {lean})'
        if ty == 'SVarO':
            return f'(NPat.svar {lean})'
        if ty == 'Self' and self.owner in CLASSES:
            return '(NPat.%s %s)' % (CLASSES[self.owner][0], ' '.join('b_' + f for f, _ in CLASSES[self.owner][1]))
        raise TrErr(f'a value of type {ty} where a pattern object is needed')

    def inst_fields(self, x, pre):
        """an expression of static class Instantiate -> (pattern, inst)"""
        if isinstance(x, ast.Name) and x.id == 'self' and self.owner == 'Instantiate':
            return 'b_pattern', 'b_inst'
        if isinstance(x, ast.Name) and self.env.get(x.id, (None, None))[1] == 'InstO':
            l = self.env[x.id][0]
            return l + '_pattern', l + '_inst'
        raise TrErr('not an Instantiate object: ' + ast.unparse(x))

    def static_call(self, cls, meth, fields, args, pre):
        """call of method `meth` (pretty / str) of the statically known class `cls`"""
        pure = self.tr.pure.get((cls, meth))
        if pure is None:
            raise TrErr(f'{cls}.{meth} is not translated (yet) at this point')
        a = ' '.join(fields + args)
        if pure:
            return f'({cls}_{meth} σ {a})'.replace(' )', ')'), 'Str'
        self.eff = True
        t = self.fresh()
        pre.append(f'call ({cls}_{meth} {REC_ARGS} {a}) fun {t} =>'.replace(' )', ')'))
        return t, 'Str'

    def ex(self, x, pre):
        if isinstance(x, ast.Constant) and isinstance(x.value, str):
            return lstr(x.value), 'Str'
        if isinstance(x, ast.Constant) and isinstance(x.value, bool):
            return ('true' if x.value else 'false'), 'Bool'
        if isinstance(x, ast.Name):
            if x.id == 'self':
                return 'self', 'Self'
            if x.id in self.env:
                return self.env[x.id]
            raise TrErr(f'unknown name {x.id}')
        if isinstance(x, ast.JoinedStr):
            parts = []
            for v in x.values:
                if isinstance(v, ast.Constant) and isinstance(v.value, str):
                    parts.append(lstr(v.value))
                elif isinstance(v, ast.FormattedValue):
                    if v.conversion != -1 or v.format_spec is not None:
                        raise TrErr('f-string conversion / format spec: ' + ast.unparse(x))
                    l, t = self.ex(v.value, pre)
                    parts.append(self.as_str(l, t))
                else:
                    raise TrErr('f-string part ' + ast.dump(v)[:60])
            return 'cat [' + ', '.join(parts) + ']', 'Str'
        if isinstance(x, ast.BinOp) and isinstance(x.op, ast.Add):
            l, lt = self.ex(x.left, pre)
            r, rt = self.ex(x.right, pre)
            return f'cat [{self.as_str(l, lt)}, {self.as_str(r, rt)}]', 'Str'
        if isinstance(x, ast.Attribute):
            v = x.value
            if isinstance(v, ast.Name) and v.id == 'self':
                if self.self_ty == 'Notation':
                    if x.attr not in NOTATION_TY:
                        raise TrErr(f'Notation has no field {x.attr}')
                    return f'self.{x.attr}', NOTATION_TY[x.attr]
                for f, ann in self.fields:
                    if f == x.attr:
                        return 'b_' + f, ANN[ann]
                raise TrErr(f'{self.owner} has no field {x.attr}')
            l, t = self.ex(v, pre)
            if t in ('EVarO', 'SVarO') and x.attr == 'name':
                return l, 'Nat'
            if t == 'Opts' and x.attr == 'simplify_instantiations':
                return f'{l}.simplify_instantiations', 'Bool'
            if t == 'Opts' and x.attr == 'notations':
                return f'{l}.notations', 'Mapping'
            if t == 'InstO' and x.attr == 'pattern':
                return f'{l}_pattern', 'Pat'
            if t == 'InstO' and x.attr == 'inst':
                return f'{l}_inst', 'DictPat'
            if t == 'Notation' and x.attr in NOTATION_TY:
                return f'{l}.{x.attr}', NOTATION_TY[x.attr]
            raise TrErr('attribute ' + ast.unparse(x))
        if isinstance(x, ast.Compare) and len(x.ops) == 1:
            a, b, op = x.left, x.comparators[0], x.ops[0]
            if isinstance(op, ast.In):
                k, kt = self.ex(a, pre)
                m, mt = self.ex(b, pre)
                if mt == 'Mapping' and kt == 'Pat':
                    return f'(mapHas {m} {k})', 'Bool'
            if isinstance(op, ast.Eq):
                l, lt = self.ex(a, pre)
                r, rt = self.ex(b, pre)
                if lt == 'Pat' and rt == 'Pat':
                    self.eff = True
                    t = self.fresh()
                    pre.append(f'fuel (NPat.peqF n {l} {r}) fun {t} =>')
                    return t, 'Bool'
            raise TrErr('comparison ' + ast.unparse(x))
        if isinstance(x, ast.Subscript):
            m, mt = self.ex(x.value, pre)
            k, kt = self.ex(x.slice, pre)
            if mt == 'Mapping' and kt == 'Pat':
                self.eff = True
                t = self.fresh()
                pre.append(f'call (mapGet {m} {k}) fun {t} =>')
                return t, 'Notation'
            raise TrErr('subscript ' + ast.unparse(x))
        if isinstance(x, ast.ListComp):
            if len(x.generators) != 1:
                raise TrErr('comprehension ' + ast.unparse(x))
            g = x.generators[0]
            if g.ifs or g.is_async or not isinstance(g.target, ast.Name):
                raise TrErr('comprehension ' + ast.unparse(x))
            it = g.iter
            if not (isinstance(it, ast.Call) and isinstance(it.func, ast.Attribute) and it.func.attr == 'values' and not it.args):
                raise TrErr('comprehension over ' + ast.unparse(it))
            d, dt = self.ex(it.func.value, pre)
            if dt != 'DictPat':
                raise TrErr('comprehension over ' + ast.unparse(it))
            var = g.target.id
            saved = dict(self.env)
            self.env[var] = ('c_' + var, 'Pat')
            inner = []
            l, t = self.ex(x.elt, inner)
            self.env = saved
            if t != 'Str':
                raise TrErr('comprehension element ' + ast.unparse(x.elt))
            self.eff = True
            body = ' '.join(inner + [f'ret {l}'])
            t2 = self.fresh()
            pre.append(f'call (mapPy (fun c_{var} => {body}) (dictValues {d})) fun {t2} =>')
            return t2, 'StrList'
        if isinstance(x, ast.Call):
            f = x.func
            if isinstance(f, ast.Name) and f.id == 'PrettyOptions' and not x.args and not x.keywords:
                return 'PrettyOptions_default', 'Opts'
            if isinstance(f, ast.Name) and f.id == 'str' and len(x.args) == 1 and not x.keywords:
                l, t = self.ex(x.args[0], pre)
                if t == 'Pat':
                    self.eff = True
                    t2 = self.fresh()
                    pre.append(f'call (str_ {l}) fun {t2} =>')
                    return t2, 'Str'
                if t == 'EVarO':
                    return self.static_call('EVar', 'str', [l], [], pre)
                if t == 'SVarO':
                    return self.static_call('SVar', 'str', [l], [], pre)
                if t == 'DictStr':
                    return f'(strDict {l})', 'Str'
                return self.as_str(l, t), 'Str'
            if isinstance(f, ast.Attribute):
                if f.attr == 'pretty' and len(x.args) == 1 and not x.keywords:
                    o, ot = self.ex(x.args[0], pre)
                    if ot != 'Opts':
                        raise TrErr('argument of pretty: ' + ast.unparse(x))
                    r, rt = self.ex(f.value, pre)
                    if rt == 'Self':
                        if self.owner not in CLASSES:
                            raise TrErr('self.pretty outside a pattern class')
                        return self.static_call(self.owner, 'pretty', ['b_' + fld for fld, _ in self.fields], [o], pre)
                    if rt == 'EVarO' and self.tr.pure.get(('EVar', 'pretty')):
                        return self.static_call('EVar', 'pretty', [r], [o], pre)
                    if rt == 'SVarO' and self.tr.pure.get(('SVar', 'pretty')):
                        return self.static_call('SVar', 'pretty', [r], [o], pre)
                    self.eff = True
                    t = self.fresh()
                    pre.append(f'call (pretty_ {self.obj(r, rt)} {o}) fun {t} =>')
                    return t, 'Str'
                if f.attr == 'simplify' and not x.args and not x.keywords:
                    r, rt = self.ex(f.value, pre)
                    if not (rt == 'Self' and self.owner == 'Instantiate'):
                        raise TrErr('simplify on ' + ast.unparse(f.value))
                    if not self.tr.simplify_ok:
                        raise TrErr('Instantiate.simplify is no longer `%s`' % SIMPLIFY_BODY)
                    self.eff = True
                    t = self.fresh()
                    pre.append(f'call (Gen.PyMatch.Instantiate.simplify n {self.obj(r, rt)}) fun {t} =>')
                    return t, 'Pat'
                if f.attr == 'print_instantiation' and len(x.args) == 2 and not x.keywords:
                    nt, ntt = self.ex(f.value, pre)
                    if ntt != 'Notation':
                        raise TrErr('print_instantiation on ' + ast.unparse(f.value))
                    ip, ii = self.inst_fields(x.args[0], pre)
                    o, ot = self.ex(x.args[1], pre)
                    if ot != 'Opts':
                        raise TrErr('argument of print_instantiation: ' + ast.unparse(x))
                    if ('Notation', 'print_instantiation') not in self.tr.pure:
                        raise TrErr('Notation.print_instantiation is not translated')
                    self.eff = True
                    t = self.fresh()
                    pre.append(f'call (Notation_print_instantiation {REC_ARGS} {nt} {ip} {ii} {o}) fun {t} =>')
                    return t, 'Str'
                if f.attr == 'format' and len(x.args) == 1 and isinstance(x.args[0], ast.Starred) and not x.keywords:
                    fm, ft = self.ex(f.value, pre)
                    l, lt = self.ex(x.args[0].value, pre)
                    if ft != 'Str' or lt != 'StrList':
                        raise TrErr('format: ' + ast.unparse(x))
                    self.eff = True
                    t = self.fresh()
                    pre.append(f'call (ofExc (strFormat {fm} {l})) fun {t} =>')
                    return t, 'Str'
            raise TrErr('call ' + ast.unparse(x))
        raise TrErr('expression ' + ast.unparse(x))

    # ---- statements -----------------------------------------------------------------------------
    def ret_line(self, l, t):
        return self.as_str(l, t)

    def block(self, stmts, ind):
        """a statement list that ends in `return` on every path -> lines"""
        stmts = [s for s in stmts if not is_doc(s)]
        out = []
        pad = '  ' * ind
        i = 0
        while i < len(stmts):
            st = stmts[i]
            out += [pad + c for c in src_comment(st)]
            pre = []
            if isinstance(st, ast.Return):
                if st.value is None:
                    raise TrErr('bare return')
                l, t = self.ex(st.value, pre)
                out += [pad + p for p in pre]
                out.append(pad + 'RET (' + self.ret_line(l, t) + ')')
                if i + 1 != len(stmts):
                    raise TrErr('statements after return')
                return out
            if isinstance(st, ast.If):
                if st.orelse:
                    raise TrErr('if with else')
                c, ct = self.ex(st.test, pre)
                if ct != 'Bool':
                    raise TrErr('condition ' + ast.unparse(st.test))
                out += [pad + p for p in pre]
                out.append(pad + f'if {c} then (')
                out += self.block(st.body, ind + 1)
                out.append(pad + ') else')
                i += 1
                continue
            if isinstance(st, ast.Assert):
                c, ct = self.ex(st.test, pre)
                if ct != 'Bool':
                    raise TrErr('assert ' + ast.unparse(st.test))
                self.eff = True
                out += [pad + p for p in pre]
                out.append(pad + f'assert_ {c} <|')
                i += 1
                continue
            if isinstance(st, ast.Assign) and len(st.targets) == 1 and isinstance(st.targets[0], ast.Name):
                name = st.targets[0].id
                if isinstance(st.value, ast.Dict) and not st.value.keys:
                    out.append(pad + f'let v_{name} : List (Nat × String) := []')
                    self.env[name] = ('v_' + name, 'DictStr')
                    i += 1
                    continue
                l, t = self.ex(st.value, pre)
                if t not in LEAN_TY:
                    raise TrErr(f'assignment of a value of type {t}')
                out += [pad + p for p in pre]
                out.append(pad + f'let v_{name} : {LEAN_TY[t]} := {l}')
                self.env[name] = ('v_' + name, t)
                i += 1
                continue
            if isinstance(st, ast.For):
                # for key, val in d.items(): acc[key] = e
                tg, it = st.target, st.iter
                if st.orelse or not (isinstance(tg, ast.Tuple) and len(tg.elts) == 2 and all(isinstance(e, ast.Name) for e in tg.elts)):
                    raise TrErr('for target ' + ast.unparse(tg))
                if not (isinstance(it, ast.Call) and isinstance(it.func, ast.Attribute) and it.func.attr == 'items' and not it.args):
                    raise TrErr('for over ' + ast.unparse(it))
                d, dt = self.ex(it.func.value, pre)
                if dt != 'DictPat':
                    raise TrErr('for over ' + ast.unparse(it))
                kv, vv = tg.elts[0].id, tg.elts[1].id
                if len(st.body) != 1:
                    raise TrErr('loop body of more than one statement')
                b = st.body[0]
                if not (isinstance(b, ast.Assign) and len(b.targets) == 1 and isinstance(b.targets[0], ast.Subscript)
                        and isinstance(b.targets[0].value, ast.Name) and isinstance(b.targets[0].slice, ast.Name)):
                    raise TrErr('loop body ' + ast.unparse(b))
                acc = b.targets[0].value.id
                if self.env.get(acc, (None, None))[1] != 'DictStr':
                    raise TrErr(f'loop body assigns to {acc}')
                saved = dict(self.env)
                self.env[kv] = ('c_' + kv, 'Nat')
                self.env[vv] = ('c_' + vv, 'Pat')
                key, keyt = self.ex(b.targets[0].slice, pre)
                inner = []
                l, t = self.ex(b.value, inner)
                self.env = saved
                if keyt != 'Nat' or t != 'Str':
                    raise TrErr('loop body ' + ast.unparse(b))
                self.eff = True
                a = self.env[acc][0]
                out += [pad + p for p in pre]
                out.append(pad + f'call (forItems {d} {a} fun {a} c_{kv} c_{vv} =>')
                out += [pad + '    ' + c for c in src_comment(b)]
                out += [pad + '    ' + p for p in inner]
                out.append(pad + f'    ret (dictSet {a} {key} {l})) fun {a} =>')
                i += 1
                continue
            if isinstance(st, ast.Try):
                # try: <block>  except Exception as e: raise ... from e
                if st.orelse or st.finalbody or len(st.handlers) != 1:
                    raise TrErr('try statement')
                h = st.handlers[0]
                if not (isinstance(h.type, ast.Name) and h.type.id == 'Exception' and len(h.body) == 1 and isinstance(h.body[0], ast.Raise)):
                    raise TrErr('exception handler ' + ast.unparse(h)[:60])
                if i + 1 != len(stmts):
                    raise TrErr('statements after try')
                self.eff = True
                out.append(pad + 'tryExceptRaise (')
                out += self.block(st.body, ind + 1)
                out.append(pad + ')')
                return out
            raise TrErr('statement ' + ast.unparse(st)[:70])
        raise TrErr('a path without return')


class PatternTr:
    def __init__(self, tree, problems):
        self.tree, self.problems = tree, problems
        self.pure = {}       # (class, 'pretty' | 'str' | 'print_instantiation') -> bool
        self.lines = []
        self.ok = True
        self.simplify_ok = False

    def problem(self, msg):
        self.problems.append('PyPretty: ' + msg)
        self.ok = False

    def dataclass_fields(self, node):
        return [(s.target.id, ast.unparse(s.annotation), s.value) for s in node.body
                if isinstance(s, ast.AnnAssign) and isinstance(s.target, ast.Name)]

    def method(self, owner, fn, meth, self_ty, fields, params):
        """translate one method; params: [(python name, type)] after self"""
        got = [a.arg for a in fn.args.args[1:]]
        if got != [p for p, _ in params] or fn.args.vararg or fn.args.kwarg or fn.args.kwonlyargs or fn.args.defaults:
            raise TrErr(f'parameters {got}')
        for a, (p, ty) in zip(fn.args.args[1:], params):
            if a.annotation is None or ANN.get(ast.unparse(a.annotation)) != ty:
                raise TrErr(f'annotation of {p}')
        if fn.returns is None or ast.unparse(fn.returns) != 'str':
            raise TrErr('return annotation')
        if fn.decorator_list:
            raise TrErr('decorated method')
        m = PMethod(self, owner, fn, self_ty, fields)
        for p, ty in params:
            m.env[p] = (('a_' + p) if ty == 'InstO' else p, ty)
        body = m.block(fn.body, 1)
        binders = []
        if self_ty == 'Notation':
            binders.append('(self : Notation)')
        else:
            binders += [f'(b_{f} : {LEAN_TY[ANN[ann]]})' for f, ann in fields]
        for p, ty in params:
            if ty == 'InstO':
                binders += [f'(a_{p}_pattern : NPat)', f'(a_{p}_inst : List (Nat × NPat))']
            else:
                binders.append(f'({p} : {LEAN_TY[ty]})')
        name = f'{owner}_{meth}'
        if m.eff:
            head = f'def {name} {REC} {" ".join(binders)} : Py String :='
            body = [l.replace('RET (', 'ret (') for l in body]
        else:
            head = f'def {name} (σ : Nat → String) {" ".join(binders)} : String :='
            body = [l.replace('RET (', '(') for l in body]
        pyname = '__str__' if meth == 'str' else meth
        self.lines.append(f'/-- `{owner}.{pyname}` (line {fn.lineno}) -/')
        self.lines.append(head)
        self.lines += body
        self.pure[(owner, meth)] = not m.eff

    def run(self):
        classes = {n.name: n for n in self.tree.body if isinstance(n, ast.ClassDef)}
        L = self.lines
        # --- PrettyOptions
        po = classes.get('PrettyOptions')
        L.append('/-! ## (a) pattern.py -/')
        if po is None:
            self.problem('class PrettyOptions not found')
        else:
            flds = self.dataclass_fields(po)
            if [(f, a) for f, a, _ in flds] != OPTS_FIELDS:
                self.problem(f'fields of PrettyOptions: {[(f, a) for f, a, _ in flds]}')
            else:
                vals = []
                for f, a, v in flds:
                    u = ast.unparse(v) if v is not None else None
                    if a == 'bool' and isinstance(v, ast.Constant) and isinstance(v.value, bool):
                        vals.append(f'{f} := {"true" if v.value else "false"}')
                    elif u == 'frozendict({})':
                        vals.append(f'{f} := []')
                    else:
                        self.problem(f'default of PrettyOptions.{f}: {u}')
                L.append(f'/-- the dataclass `PrettyOptions` (line {po.lineno}): `PrettyOptions()` -/')
                L.append('def PrettyOptions_default : PrettyOptions := { ' + ', '.join(vals) + ' }')
        # --- Notation fields
        nt = classes.get('Notation')
        if nt is None:
            self.problem('class Notation not found')
        elif [(f, a) for f, a, _ in self.dataclass_fields(nt)] != NOTATION_FIELDS:
            self.problem(f'fields of Notation: {[(f, a) for f, a, _ in self.dataclass_fields(nt)]}')
        # --- Instantiate.simplify (translated by transmatch: Gen.PyMatch.Instantiate.simplify)
        ins = classes.get('Instantiate')
        if ins is not None:
            sm = next((n for n in ins.body if isinstance(n, ast.FunctionDef) and n.name == 'simplify'), None)
            if sm is not None:
                body = [s for s in sm.body if not is_doc(s)]
                self.simplify_ok = len(body) == 1 and ast.unparse(body[0]) == SIMPLIFY_BODY
        # --- the base class
        base = classes.get('Pattern')
        if base is not None:
            for mname in ('pretty', '__str__'):
                fn = next((n for n in base.body if isinstance(n, ast.FunctionDef) and n.name == mname), None)
                if fn is not None:
                    L.append(f'-- `Pattern.{mname}` (line {fn.lineno}): {ast.unparse(fn.body[-1])} — overridden by every class below')
        # --- leaf classes first (their methods are called statically), then the others, Notation before Instantiate
        order = ['EVar', 'SVar', 'Symbol', 'MetaVar', 'Implies', 'App', 'Exists', 'Mu', 'ESubst', 'SSubst', 'Notation', 'Instantiate']
        for cls in order:
            node = classes.get(cls)
            if node is None:
                self.problem(f'class {cls} not found')
                continue
            meths = {n.name: n for n in node.body if isinstance(n, ast.FunctionDef)}
            if cls == 'Notation':
                fn = meths.get('print_instantiation')
                if fn is None:
                    self.problem('Notation.print_instantiation not found')
                    continue
                try:
                    self.method('Notation', fn, 'print_instantiation', 'Notation', [], [('applied', 'InstO'), ('opts', 'Opts')])
                except TrErr as e:
                    self.problem(f'Notation.print_instantiation: {e}')
                continue
            lean, fields = CLASSES[cls]
            if [b.id if isinstance(b, ast.Name) else ast.unparse(b) for b in node.bases] != ['Pattern']:
                self.problem(f'bases of {cls}')
            got = [(f, a) for f, a, _ in self.dataclass_fields(node)]
            if got != fields:
                self.problem(f'fields of {cls}: {got} (the model represents it by NPat.{lean})')
                continue
            for pyname, meth, params in (('pretty', 'pretty', [('opts', 'Opts')]), ('__str__', 'str', [])):
                fn = meths.get(pyname)
                if fn is None:
                    self.problem(f'{cls}.{pyname} not found (the base class method would run)')
                    continue
                try:
                    self.method(cls, fn, meth, 'Obj', fields, params)
                except TrErr as e:
                    self.problem(f'{cls}.{pyname}: {e}')
        # --- the dispatchers
        if self.ok:
            L.append('mutual')
            L.append('/-- `p.pretty(opts)`: dispatch on the class of `p` (one unit of fuel) -/')
            L.append('def pretty (σ : Nat → String) : Nat → NPat → PrettyOptions → Py String')
            L.append('  | 0, _, _ => none')
            for cls in CLASSES:
                lean, fields = CLASSES[cls]
                b = ' '.join('b_' + f for f, _ in fields)
                if self.pure[(cls, 'pretty')]:
                    L.append(f'  | _ + 1, .{lean} {b}, opts => ret ({cls}_pretty σ {b} opts)')
                else:
                    L.append(f'  | n + 1, .{lean} {b}, opts => {cls}_pretty σ n (pretty σ n) (toStr σ n) {b} opts')
            L.append('/-- `str(p)` = `p.__str__()`: dispatch on the class of `p` (one unit of fuel) -/')
            L.append('def toStr (σ : Nat → String) : Nat → NPat → Py String')
            L.append('  | 0, _ => none')
            for cls in CLASSES:
                lean, fields = CLASSES[cls]
                b = ' '.join('b_' + f for f, _ in fields)
                if self.pure[(cls, 'str')]:
                    L.append(f'  | _ + 1, .{lean} {b} => ret ({cls}_str σ {b})')
                else:
                    L.append(f'  | n + 1, .{lean} {b} => {cls}_str σ n (pretty σ n) (toStr σ n) {b}')
            L.append('end')


# ----------------------------------------------------------------------------------------------
# (b) pretty_printing_interpreter.py
# ----------------------------------------------------------------------------------------------

class StepTr:
    def __init__(self, tree, problems, pure):
        self.tree, self.problems, self.pure = tree, problems, pure
        self.lines = []
        self.ok = True

    def problem(self, msg):
        self.problems.append('PyPretty: ' + msg)
        self.ok = False

    # ---- the strings handed to self.out.write ---------------------------------------------------
    def sx(self, x, env, uses):
        """a string-valued expression of a decorated method; env: name -> (lean, kind)"""
        if isinstance(x, ast.Constant) and isinstance(x.value, str):
            return lstr(x.value)
        if isinstance(x, ast.Name) and x.id in env and env[x.id][1] == 'Str':
            return env[x.id][0]
        if isinstance(x, ast.JoinedStr):
            parts = []
            for v in x.values:
                if isinstance(v, ast.Constant) and isinstance(v.value, str):
                    parts.append(lstr(v.value))
                elif isinstance(v, ast.FormattedValue) and v.conversion == -1 and v.format_spec is None:
                    parts.append(self.piece(v.value, env, uses))
                else:
                    raise TrErr('f-string ' + ast.unparse(x))
            return 'cat [' + ', '.join(parts) + ']'
        if isinstance(x, ast.Call) and isinstance(x.func, ast.Name) and x.func.id == 'str' and len(x.args) == 1 and not x.keywords:
            a = x.args[0]
            if ast.unparse(a) == 'self.memory.index(term)':
                uses.add('memIdx')
                return '(strNat memIdx)'
            if isinstance(a, ast.Name) and a.id in env and env[a.id][1] == 'Item':
                return f'(strItem {env[a.id][0]})'
            return self.piece(a, env, uses)
        if isinstance(x, ast.Call) and isinstance(x.func, ast.Attribute) and x.func.attr == 'join' and len(x.args) == 1 \
                and isinstance(x.func.value, ast.Constant) and isinstance(x.func.value.value, str):
            a = x.args[0]
            # sep.join(map(str, delta.keys()))
            if isinstance(a, ast.Call) and isinstance(a.func, ast.Name) and a.func.id == 'map' and len(a.args) == 2 \
                    and isinstance(a.args[0], ast.Name) and a.args[0].id == 'str':
                it = a.args[1]
                if isinstance(it, ast.Call) and isinstance(it.func, ast.Attribute) and it.func.attr == 'keys' and not it.args \
                        and isinstance(it.func.value, ast.Name) and env.get(it.func.value.id, (None, None))[1] == 'Keys':
                    return f'(strJoin {lstr(x.func.value.value)} ({env[it.func.value.id][0]}.map strNat))'
            raise TrErr('join ' + ast.unparse(x))
        raise TrErr('written expression ' + ast.unparse(x))

    def piece(self, v, env, uses):
        """an int- or str-valued expression inside an f-string / str()"""
        if isinstance(v, ast.Name) and v.id in env:
            l, k = env[v.id]
            if k == 'Nat':
                return f'(strNat {l})'
            if k == 'Str':
                return l
            raise TrErr(f'{v.id} (a value of kind {k}) in a string')
        if isinstance(v, ast.Attribute) and v.attr == 'name' and isinstance(v.value, ast.Name) and env.get(v.value.id, (None, None))[1] in ('EVarO', 'SVarO'):
            return f'(strNat {env[v.value.id][0]})'
        if isinstance(v, ast.Call) and isinstance(v.func, ast.Name) and v.func.id == 'len' and len(v.args) == 1 \
                and isinstance(v.args[0], ast.Name) and env.get(v.args[0].id, (None, None))[1] in ('EVars', 'SVars', 'Items'):
            return f'(strNat {env[v.args[0].id][0]}.length)'
        raise TrErr('string piece ' + ast.unparse(v))

    def writes(self, stmts, env, uses, helpers, ind):
        """statements -> a Lean expression of type `List String` (the strings written, in order)"""
        stmts = [s for s in stmts if not is_doc(s)]
        pad = '  ' * ind
        parts = []
        i = 0
        while i < len(stmts):
            st = stmts[i]
            cm = [pad + c for c in src_comment(st)]
            if isinstance(st, ast.FunctionDef):
                i += 1
                continue        # helpers are translated separately
            if isinstance(st, ast.Expr) and isinstance(st.value, ast.Call):
                c = st.value
                fu = ast.unparse(c.func)
                if fu == 'self.out.write' and len(c.args) == 1 and not c.keywords:
                    parts.append((cm, '[' + self.sx(c.args[0], env, uses) + ']'))
                    i += 1
                    continue
                if isinstance(c.func, ast.Name) and c.func.id in helpers and not c.keywords:
                    h = helpers[c.func.id]
                    if len(c.args) != 2 or not (isinstance(c.args[0], ast.Constant) and isinstance(c.args[0].value, str)) \
                            or not (isinstance(c.args[1], ast.Name) and env.get(c.args[1].id, (None, None))[1] in ('EVars', 'SVars')):
                        raise TrErr('call ' + ast.unparse(c))
                    l, k = env[c.args[1].id]
                    cls = 'EVar' if k == 'EVars' else 'SVar'
                    if not self.pure.get((cls, 'str')):
                        raise TrErr(f'{cls}.__str__ is not a plain string function')
                    parts.append((cm, f'({h} ({cls}_str σ) {lstr(c.args[0].value)} {l})'))
                    i += 1
                    continue
            if isinstance(st, ast.If) and not st.orelse and len(st.body) == 1 and isinstance(st.body[0], ast.Return) and st.body[0].value is None:
                t = st.test
                if isinstance(t, ast.Compare) and len(t.ops) == 1 and isinstance(t.ops[0], ast.Eq) and ast.unparse(t.comparators[0]) == '0' \
                        and isinstance(t.left, ast.Call) and ast.unparse(t.left.func) == 'len' and isinstance(t.left.args[0], ast.Name) \
                        and env.get(t.left.args[0].id, (None, None))[1] in ('Items', 'EVars', 'SVars'):
                    rest = self.writes(stmts[i + 1:], env, uses, helpers, ind + 1)
                    parts.append((cm, f'(if {env[t.left.args[0].id][0]}.length == 0 then [] else\n{rest})'))
                    return self.join_parts(parts, pad)
                raise TrErr('condition ' + ast.unparse(t))
            if isinstance(st, ast.For) and not st.orelse and isinstance(st.target, ast.Name) and isinstance(st.iter, ast.Name) \
                    and env.get(st.iter.id, (None, None))[1] == 'Items':
                env2 = dict(env)
                env2[st.target.id] = ('c_' + st.target.id, 'Item')
                body = self.writes(st.body, env2, uses, helpers, ind + 1)
                parts.append((cm, f'({env[st.iter.id][0]}.flatMap fun c_{st.target.id} =>\n{body})'))
                i += 1
                continue
            raise TrErr('statement ' + ast.unparse(st)[:70])
        return self.join_parts(parts, pad)

    @staticmethod
    def join_parts(parts, pad):
        if not parts:
            return pad + '[]'
        out = []
        for j, (cm, e) in enumerate(parts):
            out += cm
            out.append(pad + e + (' ++' if j + 1 < len(parts) else ''))
        return '\n'.join(out)

    def run(self):
        L = self.lines
        cls = next((n for n in self.tree.body if isinstance(n, ast.ClassDef) and n.name == 'PrettyPrintingInterpreter'), None)
        L.append('/-! ## (b) pretty_printing_interpreter.py -/')
        if cls is None:
            self.problem('class PrettyPrintingInterpreter not found')
            return
        bases = [ast.unparse(b) for b in cls.bases]
        if bases != ['IOInterpreter']:
            self.problem(f'bases of PrettyPrintingInterpreter: {bases}')
        L.append(f'/-- `class PrettyPrintingInterpreter({", ".join(bases)})` (line {cls.lineno}): where `super()` methods are looked up -/')
        L.append(f'def superClass : String := {lstr(", ".join(bases))}')
        meths = [n for n in cls.body if isinstance(n, ast.FunctionDef)]
        others = [n for n in cls.body if not isinstance(n, ast.FunctionDef) and not is_doc(n)]
        if others:
            self.problem('class body contains ' + ast.unparse(others[0])[:60])
        byname = {n.name: n for n in meths}
        if len(byname) != len(meths):
            self.problem('a method is defined twice')
        extra = sorted(set(byname) - set(INTERFACE) - {'__init__', 'pretty', 'print_stack'})
        if extra:
            self.problem(f'methods not covered by the translator: {extra}')
        # --- __init__
        ini = byname.get('__init__')
        if ini is None or [ast.unparse(s) for s in ini.body if not is_doc(s)] != INIT_BODY:
            self.problem('__init__ is not the expected constructor (super().__init__(...); self.pretty_options = ...)')
        else:
            L.append(f'-- `__init__` (line {ini.lineno}): {INIT_BODY[1]} (the constructor; `print_stack` takes the options as a parameter)')
        # --- the decorator
        self.decorator(byname.get('pretty'))
        # --- decorated methods
        ctors, meth_arms, stack_arms, write_arms, helper_defs = [], [], [], [], []
        for m in INTERFACE:
            fn = byname.get(m)
            if fn is None:
                self.problem(f'{m} is not overridden: the call would write no step line')
                continue
            try:
                ps = self.decoration(fn)
                a = fn.args
                if a.vararg or a.kwarg or a.kwonlyargs or a.posonlyargs or not a.args or a.args[0].arg != 'self':
                    raise TrErr('parameter list')
                env, binders, names = {}, [], []
                for p in a.args[1:]:
                    u = ast.unparse(p.annotation) if p.annotation is not None else None
                    if u not in PARAM:
                        raise TrErr(f'annotation of {p.arg}: {u}')
                    if PARAM[u] is None:
                        continue
                    ty, kind = PARAM[u]
                    env[p.arg] = ('a_' + p.arg, kind)
                    binders.append((f'a_{p.arg}', ty))
                    names.append(p.arg)
                uses = set()
                helpers = {}
                for st in fn.body:
                    if isinstance(st, ast.FunctionDef):
                        hname = f'{m}_{st.name}'
                        helper_defs += self.helper(st, hname)
                        helpers[st.name] = hname
                body = self.writes(fn.body, env, uses, helpers, 3)
                if 'memIdx' in uses:
                    binders.append(('memIdx', 'Nat'))
                ctors.append(f'  /-- `{m}` (line {fn.lineno}) -/\n  | {lname(m)} ' + ' '.join(f'({b} : {t})' for b, t in binders))
                pat = f'.{lname(m)} ' + ' '.join(b for b, _ in binders)
                meth_arms.append(f'  | {pat.strip()} => {lstr(fn.name)}'.replace('  =>', ' =>'))
                stack_arms.append(f'  | {pat.strip()} => {ps}')
                write_arms.append(f'  | {pat.strip()} =>\n{body}')
            except TrErr as e:
                self.problem(f'{m}: {e}')
        for u in UNDECORATED:
            if u in byname:
                self.problem(f'{u} is overridden')
        if not self.ok:
            return
        L += helper_defs
        L.append('/-- one call of a decorated method, with the arguments its step line can mention (term arguments are dropped;')
        L.append('`memIdx` = `self.memory.index(term)`) -/')
        L.append('inductive PCall where')
        L += ctors
        L.append('deriving Repr')
        L.append('/-- the name of the decorated function (`func.__name__`) -/')
        L.append('def PCall.method : PCall → String')
        L += meth_arms
        L.append('/-- the decorator argument `print_stack` -/')
        L.append('def PCall.printStack : PCall → Bool')
        L += stack_arms
        L.append('/-- the strings the decorated function hands to `self.out.write`, in order -/')
        L.append('def PCall.writes (σ : Nat → String) : PCall → List String')
        L += write_arms
        L.append('/-- what the decorated call does -/')
        L.append('def PCall.events (σ : Nat → String) (c : PCall) : List Ev := wrapper c.printStack c.method ((c.writes σ).map Ev.out)')
        L.append('/-- interpreter methods that are *not* overridden (no step line): the phase changes of `IOInterpreter` -/')
        L.append('def undecorated : List String := [' + ', '.join(lstr(u) for u in UNDECORATED) + ']')
        self.print_stack(byname.get('print_stack'))

    def decoration(self, fn):
        """`@pretty()` / `@pretty(print_stack=<bool>)` -> the Lean value of print_stack"""
        if len(fn.decorator_list) != 1:
            raise TrErr('decorators ' + ', '.join(ast.unparse(d) for d in fn.decorator_list))
        d = fn.decorator_list[0]
        if not (isinstance(d, ast.Call) and isinstance(d.func, ast.Name) and d.func.id == 'pretty' and not d.args):
            raise TrErr('decorator ' + ast.unparse(d))
        if not d.keywords:
            return 'printStackDefault'
        if len(d.keywords) == 1 and d.keywords[0].arg == 'print_stack' and isinstance(d.keywords[0].value, ast.Constant) \
                and isinstance(d.keywords[0].value.value, bool):
            return 'true' if d.keywords[0].value.value else 'false'
        raise TrErr('decorator ' + ast.unparse(d))

    def helper(self, fn, hname):
        """a nested `def write_list(name: str, lst: tuple[EVar, ...] | tuple[SVar, ...])`"""
        a = fn.args
        if [p.arg for p in a.args] != ['name', 'lst'] or a.vararg or a.kwarg or a.defaults or fn.decorator_list:
            raise TrErr(f'helper {fn.name}: parameters')
        if ast.unparse(a.args[0].annotation) != 'str' or ast.unparse(a.args[1].annotation) != 'tuple[EVar, ...] | tuple[SVar, ...]':
            raise TrErr(f'helper {fn.name}: annotations')
        env = {'name': ('a_name', 'Str'), 'lst': ('a_lst', 'Items')}
        body = self.writes(fn.body, env, set(), {}, 1)
        return [f'/-- the helper `{fn.name}` (line {fn.lineno}); `strItem` = `str` of an item: the `__str__` of the class the',
                'annotation of the argument names -/',
                f'def {hname} (strItem : Nat → String) (a_name : String) (a_lst : List Nat) : List String :=', body]

    def decorator(self, fn):
        L = self.lines
        if fn is None:
            self.problem('the decorator `pretty` not found')
            return
        try:
            if [ast.unparse(d) for d in fn.decorator_list] != ['staticmethod']:
                raise TrErr('not a staticmethod')
            a = fn.args
            if [p.arg for p in a.args] != ['print_stack'] or len(a.defaults) != 1 or not isinstance(a.defaults[0], ast.Constant) \
                    or not isinstance(a.defaults[0].value, bool):
                raise TrErr('parameters')
            body = [s for s in fn.body if not is_doc(s)]
            if not (len(body) == 2 and isinstance(body[0], ast.FunctionDef) and body[0].name == 'decorator'
                    and ast.unparse(body[1]) == 'return decorator' and [p.arg for p in body[0].args.args] == ['func']):
                raise TrErr('shape')
            dec = [s for s in body[0].body if not is_doc(s)]
            if not (len(dec) == 2 and isinstance(dec[0], ast.FunctionDef) and dec[0].name == 'wrapper' and ast.unparse(dec[1]) == 'return wrapper'):
                raise TrErr('shape of decorator')
            w = dec[0]
            if w.args.args or w.args.vararg is None or w.args.vararg.arg != 'args' or w.args.kwarg is None or w.args.kwarg.arg != 'kwargs':
                raise TrErr('parameters of wrapper')
            evs = []
            result = None
            returned = False
            for st in [s for s in w.body if not is_doc(s)]:
                u = ast.unparse(st)
                cm = ['  ' + c for c in src_comment(st)]
                if returned:
                    raise TrErr('statements after return')
                if u == 'self, *nargs = args':
                    evs.append((cm, None))
                elif u == 'assert isinstance(self, PrettyPrintingInterpreter)':
                    evs.append((cm, None))
                elif isinstance(st, ast.Assign) and len(st.targets) == 1 and isinstance(st.targets[0], ast.Name) \
                        and ast.unparse(st.value) == 'getattr(super(PrettyPrintingInterpreter, self), func.__name__)(*nargs, **kwargs)':
                    result = st.targets[0].id
                    evs.append((cm, '[Ev.super_ func_name]'))
                elif u == 'func(self, *nargs, **kwargs)':
                    evs.append((cm, 'func'))
                elif isinstance(st, ast.Expr) and isinstance(st.value, ast.Call) and ast.unparse(st.value.func) == 'self.out.write' \
                        and len(st.value.args) == 1 and isinstance(st.value.args[0], ast.Constant) and isinstance(st.value.args[0].value, str):
                    evs.append((cm, f'[Ev.out {lstr(st.value.args[0].value)}]'))
                elif isinstance(st, ast.If) and not st.orelse and ast.unparse(st.test) == 'print_stack' and len(st.body) == 1 \
                        and ast.unparse(st.body[0]) == 'self.print_stack()':
                    evs.append((cm, '(if print_stack then [Ev.printStack] else [])'))
                elif isinstance(st, ast.Return) and st.value is not None and isinstance(st.value, ast.Name) and st.value.id == result:
                    evs.append((cm, None))
                    returned = True
                else:
                    raise TrErr('statement of wrapper: ' + u[:70])
            if not returned:
                raise TrErr('wrapper does not return the value of the super method')
            L.append(f'/-- the default of the decorator parameter `print_stack` (line {fn.lineno}) -/')
            L.append(f'def printStackDefault : Bool := {"true" if a.defaults[0].value else "false"}')
            L.append(f'/-- the wrapper the decorator `pretty` puts around a method (line {w.lineno}): `func` = what the decorated function writes -/')
            L.append('def wrapper (print_stack : Bool) (func_name : String) (func : List Ev) : List Ev :=')
            real = [e for _, e in evs if e is not None]
            k = 0
            for cm, e in evs:
                L += cm
                if e is not None:
                    k += 1
                    L.append('  ' + e + (' ++' if k < len(real) else ''))
            if not real:
                L.append('  []')
        except TrErr as e:
            self.problem(f'decorator pretty: {e}')

    def print_stack(self, fn):
        L = self.lines
        if fn is None:
            self.problem('print_stack not found')
            return
        try:
            if [p.arg for p in fn.args.args] != ['self'] or fn.decorator_list:
                raise TrErr('parameters')
            body = [s for s in fn.body if not is_doc(s)]
            if len(body) != 2:
                raise TrErr('shape')
            first, loop = body

            def written(st):
                if isinstance(st, ast.Expr) and isinstance(st.value, ast.Call) and ast.unparse(st.value.func) == 'self.out.write' \
                        and len(st.value.args) == 1 and not st.value.keywords:
                    return st.value.args[0]
                raise TrErr('statement ' + ast.unparse(st)[:70])

            def fstr(x, itemexpr, bound):
                """an f-string over `i` and one `<itemexpr>.pretty(self.pretty_options)`"""
                if isinstance(x, ast.Constant) and isinstance(x.value, str):
                    return lstr(x.value), False
                if not isinstance(x, ast.JoinedStr):
                    raise TrErr('written expression ' + ast.unparse(x))
                parts, used = [], False
                for v in x.values:
                    if isinstance(v, ast.Constant) and isinstance(v.value, str):
                        parts.append(lstr(v.value))
                    elif isinstance(v, ast.FormattedValue) and v.conversion == -1 and v.format_spec is None:
                        u = ast.unparse(v.value)
                        if u == 'i':
                            parts.append('(strNat c_i)')
                        elif u == f'{itemexpr}.pretty(self.pretty_options)' and not used:
                            parts.append(bound)
                            used = True
                        else:
                            raise TrErr('f-string piece ' + u)
                    else:
                        raise TrErr('f-string ' + ast.unparse(x))
                return 'cat [' + ', '.join(parts) + ']', used
            head, _ = fstr(written(first), None, None)
            if not (isinstance(loop, ast.For) and not loop.orelse and ast.unparse(loop.target) == '(i, item)'
                    and ast.unparse(loop.iter) == 'enumerate(self.stack)'):
                raise TrErr('loop ' + ast.unparse(loop)[:60])
            lb = [s for s in loop.body if not is_doc(s)]
            if not (len(lb) == 2 and isinstance(lb[0], ast.If) and not lb[0].orelse and ast.unparse(lb[0].test) == 'isinstance(item, Proved)'
                    and len(lb[0].body) == 2 and isinstance(lb[0].body[1], ast.Continue)):
                raise TrErr('loop body')
            pe, pu = fstr(written(lb[0].body[0]), 'item.conclusion', 't1')
            qe, qu = fstr(written(lb[1]), 'item', 't2')
            L.append(f'/-- `print_stack` (line {fn.lineno}): the strings written; `stack` = `self.stack` bottom first, `opts` = `self.pretty_options` -/')
            L.append('def print_stack (σ : Nat → String) (n : Nat) (stack : List TTerm) (opts : PrettyOptions) : Py (List String) :=')
            L += ['  ' + c for c in src_comment(first)]
            L.append(f'  let out : List String := [{head}]')
            L.append('  -- for i, item in enumerate(self.stack):')
            L.append('  call (forEnum stack 0 out fun out c_i item =>')
            L.append('    match item with')
            L.append('    -- if isinstance(item, Proved):')
            L.append('    | .proved conclusion =>')
            L += ['      ' + c for c in src_comment(lb[0].body[0])]
            if pu:
                L.append('      call (pretty σ n conclusion opts) fun t1 =>')
            L.append(f'      ret (out ++ [{pe}])')
            L.append('    | .pat item =>')
            L += ['      ' + c for c in src_comment(lb[1])]
            if qu:
                L.append('      call (pretty σ n item opts) fun t2 =>')
            L.append(f'      ret (out ++ [{qe}])) fun out =>')
            L.append('  ret out')
        except TrErr as e:
            self.problem(f'print_stack: {e}')


def gen_py_pretty(src_dir=None, out_path=None):
    """src_dir: the directory that contains `proof_generation/` (default: core.PYSRC); out_path: where to write"""
    problems = []
    src_dir = src_dir or core.PYSRC
    pt = st = None
    try:
        ptree = ast.parse(open(os.path.join(src_dir, 'proof_generation/pattern.py'), encoding='utf-8').read())
        itree = ast.parse(open(os.path.join(src_dir, 'proof_generation/pretty_printing_interpreter.py'), encoding='utf-8').read())
    except Exception as ex:   # noqa  (a missing or unparsable source file: still write a file with `translated := false`)
        problems.append(f'PyPretty: cannot read the sources: {type(ex).__name__}: {ex}')
        ptree = itree = None
    if ptree is not None:
        pt = PatternTr(ptree, problems)
        try:
            pt.run()
        except Exception as ex:   # noqa
            pt.problem(f'pattern.py: {type(ex).__name__}: {ex}')
        st = StepTr(itree, problems, pt.pure)
        try:
            if pt.ok:
                st.run()
        except Exception as ex:   # noqa
            st.problem(f'pretty_printing_interpreter.py: {type(ex).__name__}: {ex}')
    okk = pt is not None and pt.ok and st.ok and not problems
    lines = ['import Pi2.PrettySupport',
             '/-! GENERATED by /verif/vlib/transpretty.py from the `pretty` / `__str__` methods of the pattern classes,',
             '`Notation.print_instantiation`, `PrettyOptions` (generation/src/proof_generation/pattern.py) and from',
             '`PrettyPrintingInterpreter` (pretty_printing_interpreter.py), method by method, statement by statement — do not edit.',
             '`Pi2/PrettyTie.lean` proves `pretty` equal to the hand-written `PP.pretty` and the step lines to correspond to the',
             'instructions the translated serializer writes. -/',
             'open PyI PyP',
             'set_option linter.unusedVariables false',
             'namespace Gen.PyPretty']
    if okk:
        lines += pt.lines + st.lines
    else:
        lines.append('-- the translation failed: ' + '; '.join(p.replace('\n', ' ') for p in problems)[:2000])
    lines.append(f'def translated : Bool := {"true" if okk else "false"}')
    lines.append('end Gen.PyPretty')
    from .translate import _write_if_changed, GEN
    _write_if_changed(out_path or os.path.join(GEN, 'PyPretty.lean'), '\n'.join(lines) + '\n')
    return problems


if __name__ == '__main__':
    import sys
    print(gen_py_pretty(*(sys.argv[1:3])))
