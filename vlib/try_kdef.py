"""Validation of the specification `KDefSpec.sigOfDefinition` / `sigOfDefinitionM` / `traceStepsR` and of the translation `Pi2/Gen/PyKDef.lean` on
generated Kore definitions (run: python3 -m vlib.try_kdef [n] [seed]; called from `vlib/props/c20.py`).

For worlds of `vlib/kgen.py` (signature, rewrite rules, traces) a Kore definition is written in the protocol
  (def (module N (sort N 0|1) (symbol N (vars ..) (params ..) SORT (attrs ..)) (axiom T) (import M) (other)) ..)
the way `harness/py/py_kore.py: definition` builds it for the C20 check, plus what the check's own definitions never contain: axioms
that are NOT rules between the rules (so ordinals differ from positions in the rule list), equational axioms, hooked sorts, `constructor`
attributes, sentences of other classes — and deliberately broken definitions (a sort / symbol declared twice, a symbol over an undeclared
sort or an unbound sort variable, a rule that uses a symbol declared after it, an `Import` of an unknown module).

Definitions with SEVERAL modules (`make_multi`, 2-4 modules, every sort / symbol name declared once in the whole definition, no self import)
are INSIDE the specification (`KDefSpec.sigOfDefinitionM`; the driver answers with it for any number of modules and says
`(one-module-spec-differs)` when the one-module specification disagrees with it on a one-module definition): the declarations and rules of
a world are spread over the modules — import chains 0<-1<-2.., a diamond (3 imports 1 and 2, which both import 0), a module with a rule
that the LAST (= main) module does not import (the rule is then not among the rules `get_axiom` finds; its scope stays cached), random
import graphs; symbol declarations only in modules that see the sort they use (own or transitively imported), a rule anywhere after the
declarations it uses (imported or not), sorts before the imports, rules between the declarations, axioms that are not rules between the
rules of different modules (one counter).  Broken ones (`broken_multi`): the import of a later / an unknown module, a module name taken
twice, the same module imported twice by one module, a symbol over a sort of a module that is not imported (directly or through a module
that does not import it either), a sort / symbol declared twice in ONE module, a rule over a symbol that a LATER module declares.
(Self imports are not generated: the real code accepts them and then recurses without end, the specification refuses them.)

Compared:
  1. SPEC vs CHECK: `sigOfDefinitionM` (driver `pi2gen`, command `kdef`) against the `Sig` and the converted rules the check builds from
     the generator's knowledge (`KWorld.sig_sx`, `kconv` of every rule by the model driver `pi2drv`), with the ordinals the generator
     knows (position among ALL axioms of ALL modules), the rules being those of the modules the last module reaches; the modules (name,
     imports, reach as a set, own sorts / symbols / rule ordinals) and the scopes of ALL rules against the generator's knowledge;
  2. SPEC vs REAL and TEXT vs REAL: the REAL `LanguageSemantics.from_kore_definition` (harness command `kdef`: every module's sorts, symbols,
     axioms with ordinals, the cached scopes, the counter) against the store the GENERATED `from_kore_definition` returns (differential test
     of the translator) and against the specification (`spec_vs_real`: refusal; per module the own sorts / symbols / rule ordinals; the
     sorts and symbol flags of all modules against the signature; the axioms of the modules the last module reaches against the rules
     — ordinal, kind, pattern; the cached scopes of all rules; the counter);
  2b. `count_simplifications` (`kcount`): the generated function vs the real one on converted terms (no specification: the function is not used
     by the pipeline);
  3. hint streams (`khints`): REAL `get_proof_hints` vs the generated one vs `traceStepsR` — hints (axiom, configurations, substitution) and the
     scopes (of ALL rules) after the trace; streams with events that are not rule events, rule events not followed by a configuration, unknown
     ordinals, ordinals of skipped axioms, substitutions with a repeated / unknown variable; on definitions with several modules the same
     streams, and a one-step stream whose rule lives in a module the main module does not import: both sides must raise."""
from __future__ import annotations

import json
import random
import sys

from . import core, kgen, sx

FN, CT, CELL = 1000001, 1000002, 1000003


def attr(n):
    return '(app %d () ())' % n


def sym_sx(w, d, rng, ctor=False):
    n, nsp, nin, cell, fn, kseq = d
    attrs = ([attr(FN)] if fn else []) + ([attr(CELL)] if cell else []) + ([attr(CT)] if ctor else [])
    s0 = '(s %d)' % w.sorts[0]
    return '(symbol %d (vars %s) (params %s) %s (attrs %s))' % (n, ' '.join('(sv %d)' % i for i in range(nsp)), ' '.join(s0 for _ in range(nin)), s0,
                                                                 ' '.join(attrs))


def rule_sx(r):
    srt = kgen.tsx(r[1])
    return '(axiom (rewrites %s (and %s %s (top %s)) (and %s %s (top %s))))' % (srt, srt, kgen.tsx(r[2]), srt, srt, kgen.tsx(r[3]), srt)


def make_def(w, rng, plain=False):
    """-> (definition text, ordinals of the rules of `w.rules`, equational axioms [(ordinal, term)], number of axioms)"""
    sents = ['(sort %d %d)' % (s, 0 if plain else rng.random() < 0.3) for s in w.sorts]
    for d in w.syms:
        sents.append(sym_sx(w, d, rng, ctor=not plain and rng.random() < 0.4))
        if not plain and rng.random() < 0.1:
            sents.append('(other)')
    s0 = ('s', w.sorts[0])
    skipped = [('top', s0), ('rewrites', s0, w.c(w.consts[0]), w.c(w.consts[1])), ('implies', s0, ('top', s0), ('bottom', s0)),
               ('and', s0, ('top', s0), ('equals', s0, s0, w.c(w.consts[0]), w.c(w.consts[0])))]
    eqs = [('implies', s0, ('top', s0), ('equals', s0, s0, ('evar', 5), w.c(w.consts[0]))),
           ('implies', ('sv', 1), ('top', s0), ('and', s0, ('equals', s0, ('sv', 1), w.term(1, [2, 4]), ('evar', 2)), ('top', s0))),
           ('implies', s0, ('evar', 1), ('and', s0, ('top', s0), ('equals', s0, s0, w.c(w.consts[1]), ('evar', 1))))]
    ords, equations, o = [], [], 0
    for r in w.rules:
        while not plain and rng.random() < 0.35:
            if rng.random() < 0.6:
                sents.append('(axiom %s)' % kgen.tsx(rng.choice(skipped)))
            else:
                e = rng.choice(eqs)
                sents.append('(axiom %s)' % kgen.tsx(e))
                equations.append((o, e))
            o += 1
        sents.append(rule_sx(r))
        ords.append(o)
        o += 1
    return '(def (module 0 %s))' % ' '.join(sents), ords, equations, o


def broken(w, rng):
    """definitions that must be refused (one module, no self import): text, what"""
    base, _, _, _ = make_def(w, rng, plain=True)
    body = base[len('(def (module 0 '):-2]
    s0 = '(s %d)' % w.sorts[0]
    out = [('(def (module 0 %s (sort %d 0)))' % (body, w.sorts[0]), 'a sort declared twice'),
           ('(def (module 0 %s %s))' % (body, sym_sx(w, w.syms[0], rng)), 'a symbol declared twice'),
           ('(def (module 0 %s (symbol 500 (vars) (params (s 77)) %s (attrs))))' % (body, s0), 'a symbol over an undeclared sort'),
           ('(def (module 0 %s (symbol 500 (vars (sv 1)) (params (sv 2)) %s (attrs))))' % (body, s0), 'a symbol over an unbound sort variable'),
           ('(def (module 0 %s (symbol 500 (vars (sv 1)) (params (sv 1)) (s 78) (attrs))))' % body, 'a symbol with an undeclared result sort'),
           ('(def (module 0 %s %s))' % (body, rule_sx(('rewrites', ('s', w.sorts[0]), ('app', 600, (), ()), w.c(w.consts[0])))), 'a rule over an undeclared symbol'),
           ('(def (module 0 (import 3) %s))' % body, 'an import of an unknown module'),
           ('(def (module 0 (sort %d 0) %s %s))' % (w.sorts[0], rule_sx(w.rules[0]), ' '.join(sym_sx(w, d, rng) for d in w.syms)),
            'a rule before the declarations of its symbols')]
    return out


def two_modules(w, rng):
    """the declarations and one axiom that is not a rule in module 0, the rules in module 1 that imports it"""
    decls = ' '.join(['(sort %d 0)' % s for s in w.sorts] + [sym_sx(w, d, rng) for d in w.syms])
    return '(def (module 0 %s (axiom (top (s %d)))) (module 1 (import 0) %s))' % (decls, w.sorts[0], ' '.join(rule_sx(r) for r in w.rules))


def one_module_info(w, ords, eqs):
    """what the generator knows of the module of `make_def`, in the shape of the specification's `mods`"""
    return [['0', [], [], [str(s) for s in w.sorts], [str(d[0]) for d in w.syms], [str(o) for o in sorted(ords + [o for o, _ in eqs])]]]


# ---------------------------------------------------------------------------------------------------------------------------------
# definitions with several modules
# ---------------------------------------------------------------------------------------------------------------------------------

SHAPES_CLOSED = ('chain', 'diamond')        # the last module reaches every module
SHAPES_OPEN = ('island', 'random')          # a module (with a rule) the last module does not import / any import graph


def term_uses(t, syms=None, sorts=None):
    """-> (symbol names, sort names) a Kore term of the protocol mentions (the conversion looks every one of them up)"""
    syms = set() if syms is None else syms
    sorts = set() if sorts is None else sorts
    k = t[0]
    if k == 's':
        sorts.add(t[1])
    elif k == 'app':
        syms.add(t[1])
        for x in tuple(t[2]) + tuple(t[3]):
            term_uses(x, syms, sorts)
    elif k == 'dv':
        term_uses(t[1], syms, sorts)
    elif k not in ('sv', 'evar'):
        for x in t[1:]:
            if isinstance(x, tuple):
                term_uses(x, syms, sorts)
    return syms, sorts


def shape_imports(shape, rng):
    """-> (for every module the INDICES of the (earlier) modules it imports, in the order of its Import sentences; the index of a module that
    the last module does not reach and that must hold a rule, or None)"""
    if shape == 'chain':
        k = rng.randint(2, 4)
        return [[]] + [[i - 1] for i in range(1, k)], None
    if shape == 'diamond':
        last = [1, 2]
        rng.shuffle(last)
        return [[], [0], [0], last], None
    if shape == 'island':
        k = rng.randint(3, 4)
        isl = rng.randint(1, k - 2)
        imps = [[]]
        for i in range(1, k):
            if i == isl:
                sub = [j for j in range(i) if rng.random() < 0.6]
            else:
                cand = [j for j in range(i) if j != isl]
                sub = [j for j in cand if rng.random() < 0.6] or [rng.choice(cand)]
            rng.shuffle(sub)
            imps.append(sub)
        return imps, isl
    k = rng.randint(2, 4)
    imps = [[]]
    for i in range(1, k):
        sub = [j for j in range(i) if rng.random() < 0.6]
        rng.shuffle(sub)
        imps.append(sub)
    return imps, None


def make_multi(w, rng, shape):
    """a definition of 2-4 modules with the declarations and rules of `w` -> dict: text; ords (ordinal of every rule of `w.rules`);
    eqs [(ordinal, term)]; nax; mods (the generator's knowledge in the shape of the specification's `mods`, reach sorted); found (the
    (ordinal, kind) of the rules in the modules the last module reaches); hidden (indices of the rules of `w.rules` in the other modules).
    Every sort / symbol is declared once; the sorts and the symbols keep the order of the world over the whole definition (the signature
    of the specification lists them in the order of the sentences)."""
    imps, forced = shape_imports(shape, rng)
    k = len(imps)
    names = rng.sample(range(9), k) if rng.random() < 0.5 else list(range(k))
    reach = []
    for i in range(k):
        r = set()
        for j in imps[i]:
            r |= {j} | reach[j]
        reach.append(r)
    # the symbols of `sym_sx` are over the first sort, which module 0 declares: a symbol may be declared by module 0 and the modules that reach it
    eligible = [i for i in range(k) if i == 0 or 0 in reach[i]]
    rule_uses = [term_uses(r) for r in w.rules]
    for attempt in range(30):
        spread = attempt < 20            # afterwards: every declaration in module 0 (always possible)
        cur, sort_at, sym_at = 0, {}, {}
        for n_, s_ in enumerate(w.sorts):
            if n_ and spread and rng.random() < 0.4:
                cur = rng.randint(cur, eligible[-1])
            sort_at[s_] = cur
        for d in w.syms:
            if spread and rng.random() < 0.4:
                cur = rng.randint(cur, eligible[-1])
            cur = min(e for e in eligible if e >= cur)
            sym_at[d[0]] = cur

        def first_module(uses):
            return max([sym_at[f] for f in uses[0]] + [sort_at[s_] for s_ in uses[1]] + [0])
        mins = [first_module(u) for u in rule_uses]
        if forced is None or any(m <= forced for m in mins):
            break
    rule_mod = [rng.randint(m, k - 1) for m in mins]
    if forced is not None:
        rule_mod[rng.choice([j for j, m in enumerate(mins) if m <= forced])] = forced
    items = []
    for i in range(k):
        imp = [('import', names[j]) for j in imps[i]]
        own_sorts = [('sort', s_) for s_ in w.sorts if sort_at[s_] == i]
        own_syms = [('sym', d) for d in w.syms if sym_at[d[0]] == i]
        if rng.random() < 0.3:
            items.append(own_sorts + imp + own_syms)       # the imports after the own sorts (before the symbols, which may need them)
        else:
            items.append(imp + own_sorts + own_syms)

    def declared(i, p):
        syms, sorts = set(), set()
        for m in range(i + 1):
            for it in (items[m] if m < i else items[m][:p]):
                if it[0] == 'sort':
                    sorts.add(it[1])
                elif it[0] == 'sym':
                    syms.add(it[1][0])
        return syms, sorts

    def insert(i, item, uses):
        """somewhere in module i after the declarations the item uses"""
        lo = next(p for p in range(len(items[i]) + 1) if uses[0] <= declared(i, p)[0] and uses[1] <= declared(i, p)[1])
        items[i].insert(len(items[i]) if rng.random() < 0.5 else rng.randint(lo, len(items[i])), item)
    for j in range(len(w.rules)):
        insert(rule_mod[j], ('rule', j), rule_uses[j])
    s0 = ('s', w.sorts[0])
    skipped = [('top', s0), ('rewrites', s0, w.c(w.consts[0]), w.c(w.consts[1])), ('implies', s0, ('top', s0), ('bottom', s0)),
               ('and', s0, ('top', s0), ('equals', s0, s0, w.c(w.consts[0]), w.c(w.consts[0])))]
    eqs_ = [('implies', s0, ('top', s0), ('equals', s0, s0, ('evar', 5), w.c(w.consts[0]))),
            ('implies', ('sv', 1), ('top', s0), ('and', s0, ('equals', s0, ('sv', 1), w.term(1, [2, 4]), ('evar', 2)), ('top', s0))),
            ('implies', s0, ('evar', 1), ('and', s0, ('top', s0), ('equals', s0, s0, w.c(w.consts[1]), ('evar', 1))))]
    for i in range(k):
        for _ in range(rng.choice((0, 0, 1, 2))):
            if rng.random() < 0.6:
                insert(i, ('skip', rng.choice(skipped)), (set(), set()))       # an axiom that is not a rule is not converted: anywhere
            else:
                e = rng.choice(eqs_)
                if first_module(term_uses(e)) <= i:
                    insert(i, ('eq', e), term_uses(e))
        if rng.random() < 0.1:
            insert(i, ('other',), (set(), set()))
    if rng.random() < 0.7:
        insert(rng.randrange(k - 1), ('skip', rng.choice(skipped)), (set(), set()))     # a gap in the ordinals before the last module
    main = reach[k - 1] | {k - 1}
    o, ords, eqs, found, mods, texts = 0, [None] * len(w.rules), [], [], [], []
    for i in range(k):
        sents, own = [], []
        for it in items[i]:
            if it[0] == 'import':
                sents.append('(import %d)' % it[1])
            elif it[0] == 'sort':
                sents.append('(sort %d %d)' % (it[1], rng.random() < 0.3))
            elif it[0] == 'sym':
                sents.append(sym_sx(w, it[1], rng, ctor=rng.random() < 0.4))
            elif it[0] == 'other':
                sents.append('(other)')
            elif it[0] == 'skip':
                sents.append('(axiom %s)' % kgen.tsx(it[1]))
                o += 1
            else:
                if it[0] == 'rule':
                    sents.append(rule_sx(w.rules[it[1]]))
                    ords[it[1]] = o
                else:
                    sents.append('(axiom %s)' % kgen.tsx(it[1]))
                    eqs.append((o, it[1]))
                own.append(o)
                if i in main:
                    found.append((o, 'rw' if it[0] == 'rule' else 'eq'))
                o += 1
        texts.append('(module %d %s)' % (names[i], ' '.join(sents)))
        mods.append([str(names[i]), [str(names[j]) for j in imps[i]], sorted(str(names[j]) for j in reach[i]),
                     [str(it[1]) for it in items[i] if it[0] == 'sort'], [str(it[1][0]) for it in items[i] if it[0] == 'sym'], [str(x) for x in own]])
    return {'text': '(def %s)' % ' '.join(texts), 'ords': ords, 'eqs': eqs, 'nax': o, 'mods': mods, 'found': sorted(found), 'shape': shape,
            'hidden': [j for j in range(len(w.rules)) if rule_mod[j] not in main], 'modules': k}


def broken_multi(w, rng):
    """definitions with several modules that must be refused (no self import): text, what"""
    sorts = ' '.join('(sort %d 0)' % s for s in w.sorts)
    syms = ' '.join(sym_sx(w, d, rng) for d in w.syms)
    decls = sorts + ' ' + syms
    rules = ' '.join(rule_sx(r) for r in w.rules)
    s0 = '(s %d)' % w.sorts[0]
    extra = '(symbol 500 (vars) (params %s) %s (attrs))' % (s0, s0)
    return [('(def (module 0 (import 1) %s) (module 1 (import 0) %s))' % (decls, rules), 'the import of a LATER module'),
            ('(def (module 0 %s) (module 1 (import 0) (import 7) %s))' % (decls, rules), 'the import of an unknown module (second module)'),
            ('(def (module 0 %s) (module 0 %s))' % (decls, rules), 'two modules of the same name'),
            ('(def (module 2 %s) (module 1 (import 2)) (module 1 (import 2) %s))' % (decls, rules), 'two modules of the same name (second and third)'),
            ('(def (module 0 %s) (module 1 (import 0) (import 0) %s))' % (decls, rules), 'the same module imported twice by one module'),
            ('(def (module 0 %s) (module 1 %s %s))' % (decls, extra, rules), 'a symbol over a sort of an earlier module that is not imported'),
            ('(def (module 0 %s) (module 1 (axiom (top %s))) (module 2 (import 1) %s %s))' % (decls, s0, extra, rules),
             'a symbol over a sort of a module that is imported neither directly nor through the imported module'),
            ('(def (module 0 %s) (module 1 (import 0) (sort 50 0) %s (sort 50 1)))' % (decls, rules), 'a sort declared twice in ONE (the second) module'),
            ('(def (module 0 %s) (module 1 (import 0) %s %s %s))' % (decls, extra, rules, extra), 'a symbol declared twice in ONE (the second) module'),
            ('(def (module 0 %s %s) (module 1 (import 0) %s))' % (sorts, rules, syms), 'a rule over symbols that a LATER module declares'),
            ('(def (module 0 %s) (module 1 %s (import 0) %s))' % (decls, extra, rules), 'a symbol over a sort of a module that is imported only AFTER the declaration')]


def trace_sx(w, init, steps, ords, rng, noise):
    items = []
    for i, sg in steps:
        kvs = ' '.join('(%d %s)' % (v, kgen.tsx(t)) for v, t in sg.items())
        if noise and rng.random() < 0.2:
            items.append('(other)')
        if noise and rng.random() < 0.15:
            items.append('(rule %d (%s))' % (ords[i], kvs))       # a rule event that is not followed by a configuration: no step
        items.append('(rule %d (%s))' % (ords[i], kvs))
        items.append('(config %s)' % kgen.tsx(init))
        if noise and rng.random() < 0.2:
            items.append('(config %s)' % kgen.tsx(init))
    return '(trace %s %s)' % (kgen.tsx(init), ' '.join(items))


def norm(t):
    return sx.dump(sx.parse(t)[0]) if t.startswith('(') else t


def split2(ans, head):
    """`(head A B)` -> (A, B) as texts"""
    x = sx.parse(ans)[0]
    if x[0] != head or len(x) != 3:
        raise ValueError(ans[:200])
    return sx.dump(x[1]), sx.dump(x[2])


def real_sym(e):
    """a symbol of the real dump in the shape of the signature: name, number of sort parameters / inputs, cell, functional, kseq"""
    return [e[0], str(len(e[1])), str(len(e[2])), e[6], e[4], '1' if e[0] == '999' else '0']


def spec_vs_real(x, ax):
    """the parsed specification answer `(spec sig rules naxioms mods allscopes)` against the parsed real dump `(ls module.. scopes counters)`
    -> the list of what differs (empty: they agree)"""
    sig, rules, naxioms, mods, allscopes = x[1], x[2][1:], x[3][1], x[4][1:], x[5][1:]
    rmods = ax[1:-2]
    diffs = []
    if [rm[1] for rm in rmods] != [m[0] for m in mods]:
        diffs.append('the names of the modules')
    else:
        for rm, m in zip(rmods, mods):
            for what, got, want in (('own sorts', [e[0] for e in rm[2][1:]], m[3]), ('own symbols', [e[0] for e in rm[3][1:]], m[4]),
                                    ('own rule ordinals', [e[0] for e in rm[4][1:]], m[5])):
                if got != want:
                    diffs.append(f'the {what} of module {m[0]}')
        if mods:
            # `get_axiom` = that of the main (= last) module: its own axioms and those of the modules it reaches
            main = set(mods[-1][2]) | {mods[-1][0]}
            found = sorted((e for rm in rmods if rm[1] in main for e in rm[4][1:]), key=lambda e: int(e[0]))
            if [[e[0], e[1], e[2]] for e in found] != [[r[0], r[1], r[2]] for r in rules]:
                diffs.append('the rules of the modules the last module reaches (ordinal, kind, pattern)')
    if [e[0] for rm in rmods for e in rm[2][1:]] != sig[1]:
        diffs.append('the sorts of all modules')
    if [real_sym(e) for rm in rmods for e in rm[3][1:]] != sig[2]:
        diffs.append('the symbols of all modules (flags)')
    if sorted(([e[0], e[1], e[2]] for e in ax[-2][1:]), key=lambda e: int(e[0])) != sorted(allscopes, key=lambda e: int(e[0])):
        diffs.append('the cached scopes of all rules')
    if any([r[0], r[3], r[4]] not in allscopes for r in rules):
        diffs.append('the scope of a rule and its entry in the scopes of all rules')
    if ax[-1][1] != [naxioms]:
        diffs.append('the counter')
    return diffs


def compare(worlds, rng):
    """-> (findings, counters)"""
    findings, reqs, info = [], [], []

    def streams(w, d, ords, eqs, nax, kind):
        for flavour in ('match', 'mismatch'):
            init, steps, _ = w.trace(rng.randint(0, 4), flavour)
            reqs.append('khints %s %s' % (d, trace_sx(w, init, steps, ords, rng, True))); info.append((kind, w, d))
        # unknown ordinal / ordinal of a skipped axiom / unknown variable / repeated variable
        init, steps, _ = w.trace(2, 'match')
        if steps:
            i, sg = steps[0]
            kvs = ' '.join('(%d %s)' % (v, kgen.tsx(t)) for v, t in sg.items())
            c = '(config %s)' % kgen.tsx(init)
            for what, item in (('an unknown ordinal', '(rule %d (%s))' % (nax + 3, kvs)),
                               ('the ordinal of an axiom that is not a rule', '(rule %d (%s))' % (next((o for o in range(nax) if o not in ords and o not in [e[0] for e in eqs]), nax + 5), kvs)),
                               ('a substitution for an unknown variable', '(rule %d (%s (77 %s)))' % (ords[i], kvs, kgen.tsx(w.c(w.consts[0])))),
                               ('a substitution with a repeated variable', '(rule %d (%s %s))' % (ords[i], kvs, kvs))):
                reqs.append('khints %s (trace %s %s %s)' % (d, kgen.tsx(init), item, c)); info.append((kind, w, d))
        for o, e in eqs[:1]:
            reqs.append('khints %s (trace %s (rule %d ()) (config %s))' % (d, kgen.tsx(init), o, kgen.tsx(init))); info.append((kind, w, d))

    for wi, w in enumerate(worlds):
        d, ords, eqs, nax = make_def(w, rng)
        reqs.append('kdef ' + d)
        info.append(('good', w, {'text': d, 'ords': ords, 'eqs': eqs, 'nax': nax, 'mods': one_module_info(w, ords, eqs), 'modules': 1, 'hidden': [],
                                 'found': sorted([(o, 'rw') for o in ords] + [(o, 'eq') for o, _ in eqs])}))
        for bd, what in rng.sample(broken(w, rng), 3):
            reqs.append('kdef ' + bd); info.append(('broken', w, bd, what))
        reqs.append('kdef ' + two_modules(w, rng)); info.append(('two', w, None))
        # count_simplifications (TEXT vs REAL only): rule sides and random terms, with constructor / cell / non-functional heads
        for t in [w.rules[0][2], w.rules[0][3], w.term(3, [0, 1]), w.term(2, []), ('and', ('s', w.sorts[0]), w.term(2, [1]), ('not', ('s', w.sorts[0]), w.term(1, [])))]:
            reqs.append('kcount %s %s' % (d, kgen.tsx(t))); info.append(('count', w, None))
        streams(w, d, ords, eqs, nax, 'hints')
        # several modules: one definition whose last module reaches all modules, one where it need not (a module with a rule it does not import)
        for shape in (SHAPES_CLOSED[wi % 2], SHAPES_OPEN[(wi // 2) % 2]):
            m = make_multi(w, rng, shape)
            reqs.append('kdef ' + m['text']); info.append(('multi', w, m))
            streams(w, m['text'], m['ords'], m['eqs'], m['nax'], 'mhints')
            for j in m['hidden'][:2]:
                # one step by a rule of a module the main module does not import (substitution by constants, configurations that fit): `get_axiom` raises
                sg = {v: w.c(w.consts[0]) for v in kgen.evars(w.rules[j][2])}
                init = kgen.subst(w.rules[j][2], sg)
                reqs.append('khints %s (trace %s (rule %d (%s)) (config %s))' % (m['text'], kgen.tsx(init), m['ords'][j], ' '.join('(%d %s)' % (v, kgen.tsx(t)) for v, t in sg.items()),
                                                                              kgen.tsx(kgen.subst(w.rules[j][3], sg))))
                info.append(('mhints-hidden', w, m))
        bm = broken_multi(w, rng)
        for t in range(3):
            bd, what = bm[(3 * wi + t) % len(bm)]
            reqs.append('kdef ' + bd); info.append(('mbroken', w, bd, what))
    gen = core.lean_gen(reqs)
    if gen is None:
        return findings, {'skipped': 'pi2gen did not build'}
    real = core.py_h(reqs)
    # the check's own construction of the rules: the model conversion under the FULL signature
    conv_reqs, conv_at = [], {}
    for k, it in enumerate(info):
        if it[0] in ('good', 'multi'):
            w, m = it[1], it[2]
            for j, r in enumerate(w.rules):
                conv_at[(k, m['ords'][j])] = len(conv_reqs)
                conv_reqs.append('kconv %s %s' % (w.sig_sx(), kgen.tsx(('rewrites', r[1], r[2], r[3]))))
            for o, e in m['eqs']:
                conv_at[(k, o)] = len(conv_reqs)
                conv_reqs.append('kconv %s %s' % (w.sig_sx(), kgen.tsx(e)))
    conv = core.lean_drv(conv_reqs)
    n = {'definitions': 0, 'refused': 0, 'hint_streams': 0, 'hint_streams_ok': 0, 'rules_checked': 0, 'two_modules': 0, 'multi_definitions': 0, 'multi_modules': 0,
         'multi_with_hidden_rules': 0, 'multi_hidden_rules': 0, 'multi_scopes_checked': 0, 'multi_refused': 0, 'multi_hint_streams': 0, 'multi_hint_streams_ok': 0,
         'multi_hint_streams_hidden_rule': 0, 'multi_shapes': {}}
    for k, (l, g, a, it) in enumerate(zip(reqs, gen, real, info)):
        kind = it[0]
        if kind == 'count':
            n['counts'] = n.get('counts', 0) + 1
            n['counts_nonzero'] = n.get('counts_nonzero', 0) + (a.startswith('(count ') and a != '(count 0)')
            if g != a:
                findings.append({'key': 'count-text-differs', 'request': l[:2500], 'lean': g[:200], 'python': a[:200],
                                 'what': 'correspondence: the generated count_simplifications (Pi2/Gen/PyKDef.lean) and the real one differ'})
            continue
        try:
            spec, text = split2(g, 'kdef' if l.startswith('kdef ') else 'khints')
            a = norm(a)
        except Exception:   # noqa
            findings.append({'key': 'kdef-driver', 'request': l[:1500], 'lean': g[:300], 'what': 'the driver pi2gen does not answer a kdef / khints request'})
            continue
        if text != a:
            findings.append({'key': 'builder-text-differs', 'request': l[:2500], 'lean': text[:1200], 'python': a[:1200],
                             'what': 'correspondence: the generated from_kore_definition / get_proof_hints (Pi2/Gen/PyKDef.lean) and the real code differ'})
        if spec == '(one-module-spec-differs)':
            findings.append({'key': 'one-module-spec-differs', 'request': l[:2500],
                             'what': 'sigOfDefinition (one module) and sigOfDefinitionM (any number of modules) differ on a one-module definition'})
            continue
        if kind == 'two':
            n['two_modules'] += 1
            # REAL vs the generator's knowledge: the ordinals run on across the modules (module 0 has one axiom, which is not a rule)
            if a.startswith('(ls '):
                ax = sx.parse(a)[0]
                got = [e[0] for e in ax[2][4][1:]] if len(ax) > 3 else None
                if got != [str(i + 1) for i in range(len(it[1].rules))] or ax[-1][1] != [str(len(it[1].rules) + 1)]:
                    findings.append({'key': 'multi-module-ordinals', 'request': l[:2500], 'python': a[:600],
                                     'what': 'two modules: the ordinals of the second module do not continue the count of the first'})
                # SPEC vs REAL (the definition is inside the specification `sigOfDefinitionM`)
                diffs = spec_vs_real(sx.parse(spec)[0], ax) if spec.startswith('(spec ') else ['the specification refuses']
                if diffs:
                    findings.append({'key': 'spec-vs-real', 'request': l[:2500], 'spec': spec[:1000], 'python': a[:1000], 'differs': diffs,
                                     'what': 'sigOfDefinitionM differs from the real LanguageSemantics on a two-module definition: ' + '; '.join(diffs)})
            else:
                findings.append({'key': 'multi-module-refused', 'request': l[:2500], 'python': a[:300], 'what': 'a two-module definition with an import is refused'})
            continue
        if kind in ('broken', 'mbroken'):
            n['refused' if kind == 'broken' else 'multi_refused'] += 1
            if spec != '(refused)' or a != '(raise)':
                findings.append({'key': 'spec-refusal', 'request': l[:2500], 'spec': spec[:300], 'python': a[:300],
                                 'what': f'a definition with {it[3]}: the specification and the real builder do not both refuse it'})
            continue
        if kind in ('good', 'multi'):
            w, m = it[1], it[2]
            ords, eqs, nax = m['ords'], m['eqs'], m['nax']
            if kind == 'good':
                n['definitions'] += 1
            else:
                n['multi_definitions'] += 1
                n['multi_modules'] += m['modules']
                n['multi_with_hidden_rules'] += bool(m['hidden'])
                n['multi_hidden_rules'] += len(m['hidden'])
                n['multi_shapes'][m['shape']] = n['multi_shapes'].get(m['shape'], 0) + 1
            if not spec.startswith('(spec ') or not a.startswith('(ls '):
                findings.append({'key': 'spec-refuses', 'request': l[:2500], 'spec': spec[:300], 'python': a[:300],
                                 'what': 'the specification / the real builder refuses a definition of the generator'})
                continue
            x = sx.parse(spec)[0]
            sig, rules, naxioms, mods, allscopes = x[1], x[2][1:], x[3][1], x[4][1:], x[5][1:]
            want_sig = sx.parse(w.sig_sx())[0]
            if sig != want_sig or int(naxioms) != nax:
                findings.append({'key': 'spec-sig-differs', 'request': l[:2500], 'spec': sx.dump(sig)[:600], 'check': w.sig_sx()[:600],
                                 'what': 'sigOfDefinitionM: the signature / the number of axioms differs from what the check builds from the generator'})
            if [(int(r[0]), r[1]) for r in rules] != m['found']:
                findings.append({'key': 'spec-ordinals', 'request': l[:2500], 'spec': str([(r[0], r[1]) for r in rules]), 'check': str(m['found']),
                                 'what': 'sigOfDefinitionM: the ordinals / kinds of the rules differ from the positions of the axioms (of the modules the last module reaches)'})
            if [[e[0], e[1], sorted(set(e[2])), e[3], e[4], e[5]] for e in mods] != m['mods']:
                findings.append({'key': 'spec-modules', 'request': l[:2500], 'spec': sx.dump(x[4])[:600], 'check': str(m['mods'])[:600],
                                 'what': 'sigOfDefinitionM: the modules (name, imports, reach, own sorts / symbols / rule ordinals) differ from the generator\'s knowledge'})
            for r in rules:
                c = conv[conv_at[(k, int(r[0]))]] if (k, int(r[0])) in conv_at else None
                n['rules_checked'] += 1
                if c is None or not c.startswith('(ok '):
                    findings.append({'key': 'spec-rule', 'request': l[:2500], 'ordinal': r[0], 'model': str(c)[:300], 'what': 'the check cannot convert a rule the specification has'})
                    continue
                cx = sx.parse(c)[0]
                if cx[1] != r[2] or cx[2][1] != r[3] or cx[2][2] != r[4]:
                    findings.append({'key': 'spec-rule-differs', 'request': l[:2500], 'ordinal': r[0], 'spec': sx.dump(r)[:800], 'check': c[:800],
                                     'what': 'sigOfDefinitionM: the converted pattern / scope of a rule differs from the conversion the check does (full signature, fresh scope)'})
            # the scopes of ALL rules (also of those the last module does not reach): the scope of the check's conversion
            want_scopes = []
            for o in sorted(ords + [o for o, _ in eqs]):
                c = conv[conv_at[(k, o)]]
                want_scopes.append([str(o)] + sx.parse(c)[0][2][1:3] if c.startswith('(ok ') else [str(o), 'not converted'])
            n['multi_scopes_checked'] += len(want_scopes) if kind == 'multi' else 0
            if allscopes != want_scopes:
                findings.append({'key': 'spec-allscopes', 'request': l[:2500], 'spec': sx.dump(x[5])[:600], 'check': sx.dump(want_scopes)[:600],
                                 'what': 'sigOfDefinitionM: the scopes of the rules of ALL modules differ from the scopes of the check\'s conversions'})
            # the real builder: sorts, symbol flags, axioms with ordinals and scopes
            ax = sx.parse(a)[0]
            diffs = spec_vs_real(x, ax)
            if kind == 'good':
                m0 = ax[1]
                real_rules = [[e[0], e[1], e[2]] for e in m0[4][1:]]
                real_scopes = {e[0]: (e[1], e[2]) for e in ax[-2][1:]}
                if len(ax) != 4 or [e[0] for e in m0[2][1:]] != sig[1] or [real_sym(e) for e in m0[3][1:]] != sig[2] or real_rules != [[r[0], r[1], r[2]] for r in rules] \
                        or any(real_scopes.get(r[0]) != (r[3], r[4]) for r in rules) or ax[-1][1] != [naxioms]:
                    diffs.append('the one module (sorts, symbol flags, ordinals, patterns, scopes, counter)')
            if diffs:
                findings.append({'key': 'spec-vs-real', 'request': l[:2500], 'spec': spec[:1000], 'python': a[:1000], 'differs': diffs,
                                 'what': 'sigOfDefinitionM differs from the real LanguageSemantics: ' + '; '.join(diffs)})
            continue
        # hints
        if kind == 'hints':
            n['hint_streams'] += 1
            n['hint_streams_ok'] += a.startswith('(hints')
        else:
            n['multi_hint_streams'] += 1
            n['multi_hint_streams_ok'] += a.startswith('(hints')
        if spec != a:
            findings.append({'key': 'hints-spec-differs', 'request': l[:3000], 'spec': spec[:1000], 'python': a[:1000],
                             'what': 'traceStepsR (specification) and the real get_proof_hints differ (hints / scopes after the trace / refusal)'})
        if kind == 'mhints-hidden':
            n['multi_hint_streams_hidden_rule'] += 1
            if spec != '(raise)' or a != '(raise)':
                findings.append({'key': 'hidden-rule-found', 'request': l[:3000], 'spec': spec[:600], 'python': a[:600],
                                 'what': 'a hint stream whose rule lives in a module the main module does not import: the specification and the real get_proof_hints do not both raise'})
    return findings, n


def module_order_probe(runs=8):
    """FINDING KF-C20-module-order (not part of the check): `LanguageSemantics.modules` collects the modules in a `set` of objects that hash by
    address, so `get_symbol` / `get_sort` search the modules in an order that changes from process to process.  Five modules that do not import
    each other declare the symbol f0 with 0..4 arguments: which declaration `get_symbol` returns depends on the run."""
    d = '(def %s)' % ' '.join('(module %d (sort 0 0) (symbol 0 (vars) (params %s) (s 0) (attrs)))' % (i, ' '.join('(s 0)' for _ in range(i))) for i in range(5))
    return sorted({core.py_h(['ksym %s 0' % d])[0] for _ in range(runs)})


def run(n=20, seed=1):
    rng = random.Random(seed)
    core.lean_build(['Pi2', 'pi2drv'])
    worlds = [kgen.KWorld(rng) for _ in range(n)]
    findings, counters = compare(worlds, rng)
    for f in findings[:10]:
        print(json.dumps(f, indent=1)[:3000])
    print('try_kdef:', counters, len(findings), 'disagreements')
    return len(findings)


if __name__ == '__main__':
    a = sys.argv[1:]
    if a and a[0] == 'probe':
        print('\n'.join(module_order_probe()))
        sys.exit(0)
    sys.exit(1 if run(int(a[0]) if a else 20, int(a[1]) if len(a) > 1 else 1) else 0)
