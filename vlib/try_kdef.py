"""Validation of the specification `KDefSpec.sigOfDefinition` / `traceStepsR` and of the translation `Pi2/Gen/PyKDef.lean` on generated Kore
definitions (run: python3 -m vlib.try_kdef [n] [seed]; called from `vlib/props/c20.py`).

For worlds of `vlib/kgen.py` (signature, rewrite rules, traces) a Kore definition is written in the protocol
  (def (module N (sort N 0|1) (symbol N (vars ..) (params ..) SORT (attrs ..)) (axiom T) (import M) (other)) ..)
the way `harness/py/py_kore.py: definition` builds it for the C20 check, plus what the check's own definitions never contain: axioms
that are NOT rules between the rules (so ordinals differ from positions in the rule list), equational axioms, hooked sorts, `constructor`
attributes, sentences of other classes — and deliberately broken definitions (a sort / symbol declared twice, a symbol over an undeclared
sort or an unbound sort variable, a rule that uses a symbol declared after it, an `Import` of an unknown module).  Compared:
  1. SPEC vs CHECK: `sigOfDefinition` (driver `pi2gen`, command `kdef`) against the `Sig` and the converted rules the check builds from
     the generator's knowledge (`KWorld.sig_sx`, `kconv` of every rule by the model driver `pi2drv`), with the ordinals the generator
     knows (position among ALL axioms);
  2. SPEC vs REAL and TEXT vs REAL: the REAL `LanguageSemantics.from_kore_definition` (harness command `kdef`: every module's sorts, symbols,
     axioms with ordinals, the cached scopes, the counter) against the store the GENERATED `from_kore_definition` returns (differential test
     of the translator) and against the specification (refusal, signature, ordinals, patterns, scopes);
  2b. `count_simplifications` (`kcount`): the generated function vs the real one on converted terms (no specification: the function is not used
     by the pipeline);
  3. hint streams (`khints`): REAL `get_proof_hints` vs the generated one vs `traceStepsR` — hints (axiom, configurations, substitution) and the
     scopes after the trace; streams with events that are not rule events, rule events not followed by a configuration, unknown ordinals,
     ordinals of skipped axioms, substitutions with a repeated / unknown variable.
Definitions outside the fragment of the specification (two modules with an `Import`) are compared TEXT vs REAL only."""
from __future__ import annotations

import json
import random
import sys

from . import core, kgen, sx

FN, CT, CELL = 1000001, 1000002, 1000003


def attr(n):
    return '(app %d () ())' % n


def sym_sx(w, d, rng, ctor=False):
    n, nsp, nin, cell, fn, kseq = d
    attrs = ([attr(FN)] if fn else []) + ([attr(CELL)] if cell else []) + ([attr(CT)] if ctor else [])
    s0 = '(s %d)' % w.sorts[0]
    return '(symbol %d (vars %s) (params %s) %s (attrs %s))' % (n, ' '.join('(sv %d)' % i for i in range(nsp)), ' '.join(s0 for _ in range(nin)), s0,
                                                                 ' '.join(attrs))


def rule_sx(r):
    srt = kgen.tsx(r[1])
    return '(axiom (rewrites %s (and %s %s (top %s)) (and %s %s (top %s))))' % (srt, srt, kgen.tsx(r[2]), srt, srt, kgen.tsx(r[3]), srt)


def make_def(w, rng, plain=False):
    """-> (definition text, ordinals of the rules of `w.rules`, equational axioms [(ordinal, term)], number of axioms)"""
    sents = ['(sort %d %d)' % (s, 0 if plain else rng.random() < 0.3) for s in w.sorts]
    for d in w.syms:
        sents.append(sym_sx(w, d, rng, ctor=not plain and rng.random() < 0.4))
        if not plain and rng.random() < 0.1:
            sents.append('(other)')
    s0 = ('s', w.sorts[0])
    skipped = [('top', s0), ('rewrites', s0, w.c(w.consts[0]), w.c(w.consts[1])), ('implies', s0, ('top', s0), ('bottom', s0)),
               ('and', s0, ('top', s0), ('equals', s0, s0, w.c(w.consts[0]), w.c(w.consts[0])))]
    eqs = [('implies', s0, ('top', s0), ('equals', s0, s0, ('evar', 5), w.c(w.consts[0]))),
           ('implies', ('sv', 1), ('top', s0), ('and', s0, ('equals', s0, ('sv', 1), w.term(1, [2, 4]), ('evar', 2)), ('top', s0))),
           ('implies', s0, ('evar', 1), ('and', s0, ('top', s0), ('equals', s0, s0, w.c(w.consts[1]), ('evar', 1))))]
    ords, equations, o = [], [], 0
    for r in w.rules:
        while not plain and rng.random() < 0.35:
            if rng.random() < 0.6:
                sents.append('(axiom %s)' % kgen.tsx(rng.choice(skipped)))
            else:
                e = rng.choice(eqs)
                sents.append('(axiom %s)' % kgen.tsx(e))
                equations.append((o, e))
            o += 1
        sents.append(rule_sx(r))
        ords.append(o)
        o += 1
    return '(def (module 0 %s))' % ' '.join(sents), ords, equations, o


def broken(w, rng):
    """definitions that must be refused (one module, no self import): text, what"""
    base, _, _, _ = make_def(w, rng, plain=True)
    body = base[len('(def (module 0 '):-2]
    s0 = '(s %d)' % w.sorts[0]
    out = [('(def (module 0 %s (sort %d 0)))' % (body, w.sorts[0]), 'a sort declared twice'),
           ('(def (module 0 %s %s))' % (body, sym_sx(w, w.syms[0], rng)), 'a symbol declared twice'),
           ('(def (module 0 %s (symbol 500 (vars) (params (s 77)) %s (attrs))))' % (body, s0), 'a symbol over an undeclared sort'),
           ('(def (module 0 %s (symbol 500 (vars (sv 1)) (params (sv 2)) %s (attrs))))' % (body, s0), 'a symbol over an unbound sort variable'),
           ('(def (module 0 %s (symbol 500 (vars (sv 1)) (params (sv 1)) (s 78) (attrs))))' % body, 'a symbol with an undeclared result sort'),
           ('(def (module 0 %s %s))' % (body, rule_sx(('rewrites', ('s', w.sorts[0]), ('app', 600, (), ()), w.c(w.consts[0])))), 'a rule over an undeclared symbol'),
           ('(def (module 0 (import 3) %s))' % body, 'an import of an unknown module'),
           ('(def (module 0 (sort %d 0) %s %s))' % (w.sorts[0], rule_sx(w.rules[0]), ' '.join(sym_sx(w, d, rng) for d in w.syms)),
            'a rule before the declarations of its symbols')]
    return out


def two_modules(w, rng):
    """outside the fragment of the specification: the declarations in module 0, the rules in module 1 that imports it (TEXT vs REAL only)"""
    decls = ' '.join(['(sort %d 0)' % s for s in w.sorts] + [sym_sx(w, d, rng) for d in w.syms])
    return '(def (module 0 %s (axiom (top (s %d)))) (module 1 (import 0) %s))' % (decls, w.sorts[0], ' '.join(rule_sx(r) for r in w.rules))


def trace_sx(w, init, steps, ords, rng, noise):
    items = []
    for i, sg in steps:
        kvs = ' '.join('(%d %s)' % (v, kgen.tsx(t)) for v, t in sg.items())
        if noise and rng.random() < 0.2:
            items.append('(other)')
        if noise and rng.random() < 0.15:
            items.append('(rule %d (%s))' % (ords[i], kvs))       # a rule event that is not followed by a configuration: no step
        items.append('(rule %d (%s))' % (ords[i], kvs))
        items.append('(config %s)' % kgen.tsx(init))
        if noise and rng.random() < 0.2:
            items.append('(config %s)' % kgen.tsx(init))
    return '(trace %s %s)' % (kgen.tsx(init), ' '.join(items))


def norm(t):
    return sx.dump(sx.parse(t)[0]) if t.startswith('(') else t


def split2(ans, head):
    """`(head A B)` -> (A, B) as texts"""
    x = sx.parse(ans)[0]
    if x[0] != head or len(x) != 3:
        raise ValueError(ans[:200])
    return sx.dump(x[1]), sx.dump(x[2])


def compare(worlds, rng):
    """-> (findings, counters)"""
    findings, reqs, info = [], [], []
    for w in worlds:
        d, ords, eqs, nax = make_def(w, rng)
        reqs.append('kdef ' + d); info.append(('good', w, d, ords, eqs, nax))
        for bd, what in rng.sample(broken(w, rng), 3):
            reqs.append('kdef ' + bd); info.append(('broken', w, bd, what))
        reqs.append('kdef ' + two_modules(w, rng)); info.append(('outside', w, None))
        # count_simplifications (TEXT vs REAL only): rule sides and random terms, with constructor / cell / non-functional heads
        for t in [w.rules[0][2], w.rules[0][3], w.term(3, [0, 1]), w.term(2, []), ('and', ('s', w.sorts[0]), w.term(2, [1]), ('not', ('s', w.sorts[0]), w.term(1, [])))]:
            reqs.append('kcount %s %s' % (d, kgen.tsx(t))); info.append(('count', w, None))
        for flavour in ('match', 'mismatch'):
            init, steps, _ = w.trace(rng.randint(0, 4), flavour)
            reqs.append('khints %s %s' % (d, trace_sx(w, init, steps, ords, rng, True))); info.append(('hints', w, d))
        # unknown ordinal / ordinal of a skipped axiom / unknown variable / repeated variable
        init, steps, _ = w.trace(2, 'match')
        if steps:
            i, sg = steps[0]
            kvs = ' '.join('(%d %s)' % (v, kgen.tsx(t)) for v, t in sg.items())
            c = '(config %s)' % kgen.tsx(init)
            for what, item in (('an unknown ordinal', '(rule %d (%s))' % (nax + 3, kvs)),
                               ('the ordinal of an axiom that is not a rule', '(rule %d (%s))' % (next((o for o in range(nax) if o not in ords and o not in [e[0] for e in eqs]), nax + 5), kvs)),
                               ('a substitution for an unknown variable', '(rule %d (%s (77 %s)))' % (ords[i], kvs, kgen.tsx(w.c(w.consts[0])))),
                               ('a substitution with a repeated variable', '(rule %d (%s %s))' % (ords[i], kvs, kvs))):
                reqs.append('khints %s (trace %s %s %s)' % (d, kgen.tsx(init), item, c)); info.append(('hints', w, d))
        for o, e in eqs[:1]:
            reqs.append('khints %s (trace %s (rule %d ()) (config %s))' % (d, kgen.tsx(init), o, kgen.tsx(init))); info.append(('hints', w, d))
    gen = core.lean_gen(reqs)
    if gen is None:
        return findings, {'skipped': 'pi2gen did not build'}
    real = core.py_h(reqs)
    # the check's own construction of the rules: the model conversion under the FULL signature
    conv_reqs, conv_at = [], {}
    for k, it in enumerate(info):
        if it[0] == 'good':
            _, w, d, ords, eqs, nax = it
            for j, r in enumerate(w.rules):
                conv_at[(k, ords[j])] = len(conv_reqs)
                conv_reqs.append('kconv %s %s' % (w.sig_sx(), kgen.tsx(('rewrites', r[1], r[2], r[3]))))
            for o, e in eqs:
                conv_at[(k, o)] = len(conv_reqs)
                conv_reqs.append('kconv %s %s' % (w.sig_sx(), kgen.tsx(e)))
    conv = core.lean_drv(conv_reqs)
    n = {'definitions': 0, 'refused': 0, 'hint_streams': 0, 'hint_streams_ok': 0, 'outside_fragment': 0, 'rules_checked': 0}
    for k, (l, g, a, it) in enumerate(zip(reqs, gen, real, info)):
        kind = it[0]
        if kind == 'count':
            n['counts'] = n.get('counts', 0) + 1
            n['counts_nonzero'] = n.get('counts_nonzero', 0) + (a.startswith('(count ') and a != '(count 0)')
            if g != a:
                findings.append({'key': 'count-text-differs', 'request': l[:2500], 'lean': g[:200], 'python': a[:200],
                                 'what': 'correspondence: the generated count_simplifications (Pi2/Gen/PyKDef.lean) and the real one differ'})
            continue
        try:
            spec, text = split2(g, 'kdef' if l.startswith('kdef ') else 'khints')
            a = norm(a)
        except Exception:   # noqa
            findings.append({'key': 'kdef-driver', 'request': l[:1500], 'lean': g[:300], 'what': 'the driver pi2gen does not answer a kdef / khints request'})
            continue
        if text != a:
            findings.append({'key': 'builder-text-differs', 'request': l[:2500], 'lean': text[:1200], 'python': a[:1200],
                             'what': 'correspondence: the generated from_kore_definition / get_proof_hints (Pi2/Gen/PyKDef.lean) and the real code differ'})
        if kind == 'outside':
            n['outside_fragment'] += 1
            # REAL vs the generator's knowledge: the ordinals run on across the modules (module 0 has one axiom, which is not a rule)
            if a.startswith('(ls '):
                ax = sx.parse(a)[0]
                got = [e[0] for e in ax[2][4][1:]] if len(ax) > 3 else None
                if got != [str(i + 1) for i in range(len(it[1].rules))] or ax[-1][1] != [str(len(it[1].rules) + 1)]:
                    findings.append({'key': 'multi-module-ordinals', 'request': l[:2500], 'python': a[:600],
                                     'what': 'two modules: the ordinals of the second module do not continue the count of the first'})
            else:
                findings.append({'key': 'multi-module-refused', 'request': l[:2500], 'python': a[:300], 'what': 'a two-module definition with an import is refused'})
            if spec != '(refused)':
                findings.append({'key': 'spec-fragment', 'request': l[:1500], 'what': 'sigOfDefinition answers on a two-module definition'})
            continue
        if kind == 'broken':
            n['refused'] += 1
            if spec != '(refused)' or a != '(raise)':
                findings.append({'key': 'spec-refusal', 'request': l[:2500], 'spec': spec[:300], 'python': a[:300],
                                 'what': f'a definition with {it[3]}: the specification and the real builder do not both refuse it'})
            continue
        if kind == 'good':
            _, w, d, ords, eqs, nax = it
            n['definitions'] += 1
            if not spec.startswith('(spec ') or not a.startswith('(ls '):
                findings.append({'key': 'spec-refuses', 'request': l[:2500], 'spec': spec[:300], 'python': a[:300],
                                 'what': 'the specification / the real builder refuses a definition of the generator'})
                continue
            x = sx.parse(spec)[0]
            sig, rules, naxioms = x[1], x[2][1:], x[3][1]
            want_sig = sx.parse(w.sig_sx())[0]
            if sig != want_sig or int(naxioms) != nax:
                findings.append({'key': 'spec-sig-differs', 'request': l[:2500], 'spec': sx.dump(sig)[:600], 'check': w.sig_sx()[:600],
                                 'what': 'sigOfDefinition: the signature / the number of axioms differs from what the check builds from the generator'})
            want = sorted([(o, 'rw') for o in ords] + [(o, 'eq') for o, _ in eqs])
            if [(int(r[0]), r[1]) for r in rules] != want:
                findings.append({'key': 'spec-ordinals', 'request': l[:2500], 'spec': str([(r[0], r[1]) for r in rules]), 'check': str(want),
                                 'what': 'sigOfDefinition: the ordinals / kinds of the rules differ from the positions of the axioms'})
            for r in rules:
                c = conv[conv_at[(k, int(r[0]))]] if (k, int(r[0])) in conv_at else None
                n['rules_checked'] += 1
                if c is None or not c.startswith('(ok '):
                    findings.append({'key': 'spec-rule', 'request': l[:2500], 'ordinal': r[0], 'model': str(c)[:300], 'what': 'the check cannot convert a rule the specification has'})
                    continue
                cx = sx.parse(c)[0]
                if cx[1] != r[2] or cx[2][1] != r[3] or cx[2][2] != r[4]:
                    findings.append({'key': 'spec-rule-differs', 'request': l[:2500], 'ordinal': r[0], 'spec': sx.dump(r)[:800], 'check': c[:800],
                                     'what': 'sigOfDefinition: the converted pattern / scope of a rule differs from the conversion the check does (full signature, fresh scope)'})
            # the real builder: sorts, symbol flags, axioms with ordinals and scopes
            ax = sx.parse(a)[0]
            m0 = ax[1]
            real_sorts = [e[0] for e in m0[2][1:]]
            real_syms = [[e[0], str(len(e[1])), str(len(e[2])), e[6], e[4], '1' if e[0] == '999' else '0'] for e in m0[3][1:]]
            real_rules = [[e[0], e[1], e[2]] for e in m0[4][1:]]
            real_scopes = {e[0]: (e[1], e[2]) for e in ax[-2][1:]}
            if real_sorts != sig[1] or real_syms != sig[2] or real_rules != [[r[0], r[1], r[2]] for r in rules] \
                    or any(real_scopes.get(r[0]) != (r[3], r[4]) for r in rules) or ax[-1][1] != [naxioms]:
                findings.append({'key': 'spec-vs-real', 'request': l[:2500], 'spec': spec[:1000], 'python': a[:1000],
                                 'what': 'sigOfDefinition differs from the real LanguageSemantics (sorts, symbol flags, ordinals, patterns, scopes, counter)'})
            continue
        # hints
        n['hint_streams'] += 1
        n['hint_streams_ok'] += a.startswith('(hints')
        if spec != a:
            findings.append({'key': 'hints-spec-differs', 'request': l[:3000], 'spec': spec[:1000], 'python': a[:1000],
                             'what': 'traceStepsR (specification) and the real get_proof_hints differ (hints / scopes after the trace / refusal)'})
    return findings, n


def module_order_probe(runs=8):
    """FINDING KF-C20-module-order (not part of the check): `LanguageSemantics.modules` collects the modules in a `set` of objects that hash by
    address, so `get_symbol` / `get_sort` search the modules in an order that changes from process to process.  Five modules that do not import
    each other declare the symbol f0 with 0..4 arguments: which declaration `get_symbol` returns depends on the run."""
    d = '(def %s)' % ' '.join('(module %d (sort 0 0) (symbol 0 (vars) (params %s) (s 0) (attrs)))' % (i, ' '.join('(s 0)' for _ in range(i))) for i in range(5))
    return sorted({core.py_h(['ksym %s 0' % d])[0] for _ in range(runs)})


def run(n=20, seed=1):
    rng = random.Random(seed)
    core.lean_build(['Pi2', 'pi2drv'])
    worlds = [kgen.KWorld(rng) for _ in range(n)]
    findings, counters = compare(worlds, rng)
    for f in findings[:10]:
        print(json.dumps(f, indent=1)[:3000])
    print('try_kdef:', counters, len(findings), 'disagreements')
    return len(findings)


if __name__ == '__main__':
    a = sys.argv[1:]
    if a and a[0] == 'probe':
        print('\n'.join(module_order_probe()))
        sys.exit(0)
    sys.exit(1 if run(int(a[0]) if a else 20, int(a[1]) if len(a) > 1 else 1) else 0)
