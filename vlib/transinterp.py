"""Translator: the methods of `BasicInterpreter` (generation/src/proof_generation/basic_interpreter.py), of
`StatefulInterpreter` (stateful_interpreter.py) and the two phase changes of the base class `Interpreter`
(interpreter.py), Python `ast` -> Lean functions (`Pi2/Gen/PyInterp.lean`), statement by statement, regenerated on
every run.  `Pi2/InterpTie.lean` proves them equal to the hand-written model: `NPat.pyMP / pyGen / pyInst` and the
axiom patterns (`Pi2/Rules.lean`, `Pi2/Tracker.lean`) for `BasicInterpreter`, `PySt.track1` for `StatefulInterpreter`.

Target language: the continuation-passing combinators of `Pi2/InterpSupport.lean` (`Py α = Option (Option α)`, outer
`none` = out of fuel, inner `none` = the method raises).  A method that reads `self.<attr>` takes the state `s : PySt`,
one that assigns to it (or mutates a list in it) returns the new state, one that evaluates `==` / `in` /
`Implies.extract` / `evar_is_free` / `instantiate` on patterns takes fuel `n`.

Accepted statements:
  `x = e`, `x: T = e`, `a, b = Implies.extract(e)`, `*self.stack, a[, b] = self.stack`, `a, *self.claims = self.claims`,
  `self.stack = e`, `self.phase = e`, `self.stack.append(e)`, `self.memory.append(e)`, `self.stack.pop()`,
  `super().m(...)`, `assert e[, msg]` (the message is not evaluated unless the assertion fails and has no effect),
  `if e: <assignments>` (joined), `if e: ... return`, `return e`, `...`, docstrings.
Accepted expressions: parameters, locals, `x.conclusion`, `x.name` (of an `EVar` object), `x.pattern` (of a claim),
  `self.stack / memory / claims / phase`, `ExecutionPhase.X`, integer constants, `[]`, the pattern constructors,
  `Proved(e)`, `Instantiate(p, frozendict(delta))`, `bot()`, `Implies.extract(e)`, `e.evar_is_free(x)`,
  `e.instantiate(delta)`, `len(delta)`, `list(delta.values())`, `not delta`, `a == b`, `t in self.memory`,
  `self.stack[-1]`, `self.stack[-k:]`, `self.stack[:-k]`, `super().m(...)`.
Everything else is reported as a problem and makes the generated file define `translated := false`."""
from __future__ import annotations

import ast
import os

from . import core

LEAN_TY = {'Pat': 'NPat', 'Proved': 'Proved', 'Term': 'TTerm', 'EVarO': 'VId', 'SVarO': 'VId', 'Nat': 'Nat',
           'Delta': 'List (Nat × NPat)', 'Vars': 'List VId', 'Unit': 'Unit', 'Phase': 'Phase', 'Bool': 'Bool',
           'Stack': 'Stack', 'Mem': 'List TTerm', 'Claims': 'List Claim', 'Claim': 'Claim', 'PatList': 'List NPat',
           'PatPair': 'NPat × NPat'}
ANN = {'Pattern': 'Pat', 'Proved': 'Proved', 'Pattern | Proved': 'Term', 'int': 'Nat', 'str': 'Nat', 'EVar': 'EVarO',
       'SVar': 'SVarO', 'MetaVar': 'Pat', 'MetaVar | ESubst | SSubst': 'Pat', 'tuple[EVar, ...]': 'Vars',
       'tuple[SVar, ...]': 'Vars', 'dict[int, Pattern]': 'Delta', 'Mapping[int, Pattern]': 'Delta', 'None': 'Unit',
       'ExecutionPhase': 'Phase'}
PHASES = {'Gamma': 'Phase.gamma', 'Claim': 'Phase.claim', 'Proof': 'Phase.proof'}
# constructor -> (Lean constructor, [field kinds]); kinds: P pattern, N number, E EVar object, S SVar object, V tuple of variable objects
CTORS = {'Symbol': ('sym', 'N'), 'Implies': ('imp', 'PP'), 'App': ('app', 'PP'), 'Exists': ('ex', 'NP'), 'Mu': ('mu', 'NP'),
         'MetaVar': ('mv', 'NVVVVV'), 'ESubst': ('esub', 'PEP'), 'SSubst': ('ssub', 'PSP')}
KIND_TY = {'P': 'Pat', 'N': 'Nat', 'E': 'EVarO', 'S': 'SVarO', 'V': 'Vars'}
# methods that are not part of the modelled interface (constructors: the initial state is `PySt.init`; diagnostics)
SKIP = {'Interpreter': None,   # only the two phase changes are translated
        'BasicInterpreter': {'__init__': 'constructor (`PySt.init`)', 'mark_generation_unsafe': 'diagnostics only'},
        'StatefulInterpreter': {'__init__': 'constructor (`PySt.init`)', 'print_state': 'diagnostics only'}}
KEYWORDS = {'exists'}
# the interface `Pi2/InterpTie.lean` has a tie theorem for; a method that appears or disappears is a problem
INTERFACE = ['evar', 'svar', 'symbol', 'metavar', 'implies', 'app', 'exists', 'esubst', 'ssubst', 'mu', 'prop1', 'prop2',
             'prop3', 'modus_ponens', 'exists_quantifier', 'exists_generalization', 'instantiate', 'instantiate_pattern',
             'pop', 'save', 'load', 'publish_proof', 'publish_axiom', 'publish_claim']
EXPECTED = {'Interpreter': ['into_claim_phase', 'into_proof_phase'], 'BasicInterpreter': INTERFACE,
            'StatefulInterpreter': ['into_claim_phase', 'into_proof_phase'] + INTERFACE}


class TrErr(Exception):
    pass


def lname(n):
    return f'«{n}»' if n in KEYWORDS else n


def ann_ty(node):
    if node is None:
        raise TrErr('missing type annotation')
    u = ast.unparse(node)
    if u not in ANN:
        raise TrErr(f'type annotation {u}')
    return ANN[u]


class Sig:
    """signature of a translated method"""
    def __init__(self, ns, name, params, ret, fuel, reads, writes, eff):
        self.ns, self.name, self.params, self.ret = ns, name, params, ret
        self.fuel, self.reads, self.writes, self.eff = fuel, reads, writes, eff

    def lean_ret(self):
        t = LEAN_TY[self.ret]
        if self.writes:
            return 'Py PySt' if self.ret == 'Unit' else f'Py (PySt × {t})'
        return f'Py {t}' if self.eff else t


class M:
    """translation of one method body"""

    def __init__(self, ns, fn, supers, eff, bot_ok):
        self.ns, self.fn, self.supers, self.bot_ok = ns, fn, supers, bot_ok
        self.eff = eff                 # the result type is `Py _`
        self.fuel = self.reads = self.writes = False
        self.tmp = 0
        self.pure_only = 0
        self.env = {}
        self.params = []
        a = fn.args
        if a.vararg or a.kwarg or a.kwonlyargs or a.posonlyargs:
            raise TrErr('parameter list')
        if not a.args or a.args[0].arg != 'self':
            raise TrErr('no self parameter')
        for p in a.args[1:]:
            ty = ann_ty(p.annotation)
            self.params.append((p.arg, ty))
            self.env[p.arg] = ('a_' + p.arg, ty)
        self.ret = ann_ty(fn.returns)

    # ---- helpers -----------------------------------------------------------------------------
    def fresh(self):
        self.tmp += 1
        return f't{self.tmp}'

    def effect(self, pre, line):
        if self.pure_only:
            raise TrErr('an operation that can fail inside a joined `if` branch')
        self.need_eff()
        pre.append(line)

    def need_eff(self):
        if not self.eff:
            raise NeedEff()

    def co(self, lean, ty, want):
        """coerce a value of static type `ty` to `want`"""
        if ty == want:
            return lean
        if ty == 'EVarO' and want in ('Pat', 'Term'):
            return self.co(f'(NPat.evar {lean})', 'Pat', want)
        if ty == 'SVarO' and want in ('Pat', 'Term'):
            return self.co(f'(NPat.svar {lean})', 'Pat', want)
        if ty == 'Pat' and want == 'Term':
            return f'(TTerm.pat {lean})'
        if ty == 'Proved' and want == 'Term':
            return f'(ofProved {lean})'
        if ty == 'Stack' and want == 'TermList':
            return f'(pyList {lean})'
        if ty == 'PatList' and want == 'TermList':
            return f'({lean}.map TTerm.pat)'
        if ty == 'Empty' and want in ('Stack', 'TermList', 'PatList', 'Mem', 'Claims'):
            return '[]'
        raise TrErr(f'a value of type {ty} where {want} is expected: {lean}')

    def is_self(self, x, attr=None):
        return isinstance(x, ast.Attribute) and isinstance(x.value, ast.Name) and x.value.id == 'self' and (attr is None or x.attr == attr)

    # ---- expressions: returns (lean, type); effects are appended to `pre` --------------------
    def e(self, x, pre):
        if isinstance(x, ast.Name):
            if x.id in self.env:
                return self.env[x.id]
            raise TrErr(f'unknown name {x.id}')
        if isinstance(x, ast.Constant) and isinstance(x.value, int) and not isinstance(x.value, bool):
            return str(x.value), 'Nat'
        if isinstance(x, ast.List) and not x.elts:
            return '[]', 'Empty'
        if isinstance(x, ast.Attribute):
            if self.is_self(x):
                self.reads = True
                if x.attr == 'stack':
                    return 's.stack', 'Stack'
                if x.attr == 'memory':
                    return 's.memory', 'Mem'
                if x.attr == 'claims':
                    return 's.claims', 'Claims'
                if x.attr == 'phase':
                    return 's.phase', 'Phase'
                raise TrErr('attribute ' + ast.unparse(x))
            if isinstance(x.value, ast.Name) and x.value.id == 'ExecutionPhase' and x.attr in PHASES:
                return PHASES[x.attr], 'Phase'
            v, ty = self.e(x.value, pre)
            if x.attr == 'conclusion' and ty == 'Proved':
                return f'(Proved.conclusion {v})', 'Pat'
            if x.attr == 'name' and ty in ('EVarO', 'SVarO'):
                return v, 'Nat'
            if x.attr == 'pattern' and ty == 'Claim':
                return f'(Claim.pattern {v})', 'Pat'
            raise TrErr('attribute ' + ast.unparse(x))
        if isinstance(x, ast.UnaryOp) and isinstance(x.op, ast.Not):
            v, ty = self.e(x.operand, pre)
            if ty == 'Delta':
                return f'{v}.isEmpty', 'Bool'          # `not delta`: the dict is empty
            return f'(!{self.truth(v, ty)})', 'Bool'
        if isinstance(x, ast.Compare) and len(x.ops) == 1:
            return self.compare(x, pre)
        if isinstance(x, ast.Subscript):
            return self.subscript(x, pre)
        if isinstance(x, ast.Call):
            return self.call(x, pre)
        raise TrErr('expression ' + ast.unparse(x))

    def truth(self, v, ty):
        if ty == 'Bool':
            return v
        if ty == 'Nat':
            return f'({v} != 0)'
        if ty == 'Delta':
            return f'(!{v}.isEmpty)'
        raise TrErr(f'truth value of a {ty}')

    def compare(self, x, pre):
        l, lt = self.e(x.left, pre)
        r, rt = self.e(x.comparators[0], pre)
        op = x.ops[0]
        if isinstance(op, ast.Eq):
            if lt == 'Phase' and rt == 'Phase':
                return f'(decide ({l} = {r}))', 'Bool'
            pats = ('Pat', 'EVarO', 'SVarO')
            terms = pats + ('Term', 'Proved')
            lists = ('Stack', 'PatList', 'TermList', 'Empty')
            t = self.fresh()
            if lt in pats and rt in pats:
                self.fuel = True
                self.effect(pre, f'fuel (NPat.peqF n {self.co(l, lt, "Pat")} {self.co(r, rt, "Pat")}) fun {t} =>')
                return t, 'Bool'
            if lt in terms and rt in terms:
                # `Proved.__eq__` (dataclass) compares the conclusions; a `Proved` is never equal to a `Pattern`
                self.fuel = True
                self.effect(pre, f'fuel (PySt.teqF n {self.co(l, lt, "Term")} {self.co(r, rt, "Term")}) fun {t} =>')
                return t, 'Bool'
            if lt in lists and rt in lists:
                self.fuel = True
                self.effect(pre, f'fuel (listEqF n {self.co(l, lt, "TermList")} {self.co(r, rt, "TermList")}) fun {t} =>')
                return t, 'Bool'
            raise TrErr(f'comparison of a {lt} with a {rt}: ' + ast.unparse(x))
        if isinstance(op, ast.In):
            if rt == 'Mem' and lt in ('Pat', 'Term', 'Proved', 'EVarO', 'SVarO'):
                self.fuel = True
                t = self.fresh()
                self.effect(pre, f'fuel (memF n {self.co(l, lt, "Term")} {r}) fun {t} =>')
                return t, 'Bool'
        raise TrErr('comparison ' + ast.unparse(x))

    def neg_bound(self, b, pre):
        """`-k` as a slice bound: the Lean term for `k`"""
        if isinstance(b, ast.UnaryOp) and isinstance(b.op, ast.USub):
            v, ty = self.e(b.operand, pre)
            if ty == 'Nat':
                return v
        raise TrErr('slice bound ' + ast.unparse(b))

    def subscript(self, x, pre):
        v, ty = self.e(x.value, pre)
        if ty != 'Stack':
            raise TrErr('subscript of a ' + ty)
        sl = x.slice
        if isinstance(sl, ast.UnaryOp) and isinstance(sl.op, ast.USub) and isinstance(sl.operand, ast.Constant) and sl.operand.value == 1:
            t = self.fresh()
            self.effect(pre, f'topOf {v} fun {t} =>')
            return t, 'Term'
        if isinstance(sl, ast.Slice) and sl.step is None:
            if sl.lower is not None and sl.upper is None:
                return f'(sliceFromNeg {self.neg_bound(sl.lower, pre)} {v})', 'Stack'
            if sl.lower is None and sl.upper is not None:
                return f'(sliceToNeg {self.neg_bound(sl.upper, pre)} {v})', 'Stack'
        raise TrErr('subscript ' + ast.unparse(x))

    def args_of(self, x, names):
        """positional + keyword arguments of a call, in the order of `names`"""
        if len(x.args) > len(names):
            raise TrErr('too many arguments: ' + ast.unparse(x))
        got = dict(zip(names, x.args))
        for kw in x.keywords:
            if kw.arg is None or kw.arg not in names or kw.arg in got:
                raise TrErr('keyword argument: ' + ast.unparse(x))
            got[kw.arg] = kw.value
        return got

    def call(self, x, pre):
        f = x.func
        if isinstance(f, ast.Name):
            if f.id in ('EVar', 'SVar') and len(x.args) == 1 and not x.keywords:
                v, ty = self.e(x.args[0], pre)
                return self.co(v, ty, 'Nat'), ('EVarO' if f.id == 'EVar' else 'SVarO')
            if f.id in CTORS:
                con, kinds = CTORS[f.id]
                if x.keywords or len(x.args) > len(kinds):
                    raise TrErr('constructor call ' + ast.unparse(x))
                parts = []
                for i, k in enumerate(kinds):
                    if i < len(x.args):
                        v, ty = self.e(x.args[i], pre)
                        parts.append(self.co(v, ty, KIND_TY[k]))
                    elif f.id == 'MetaVar' and k == 'V':
                        parts.append('[]')          # dataclass default `()`, checked against pattern.py
                    else:
                        raise TrErr('constructor call ' + ast.unparse(x))
                return f'(NPat.{con} {" ".join(parts)})', 'Pat'
            if f.id == 'Proved' and len(x.args) == 1 and not x.keywords:
                v, ty = self.e(x.args[0], pre)
                return f'(Proved.mk {self.co(v, ty, "Pat")})', 'Proved'
            if f.id == 'Instantiate' and len(x.args) == 2 and not x.keywords:
                v, ty = self.e(x.args[0], pre)
                d = x.args[1]
                if isinstance(d, ast.Call) and isinstance(d.func, ast.Name) and d.func.id == 'frozendict' and len(d.args) == 1 and not d.keywords:
                    dv, dty = self.e(d.args[0], pre)
                    if dty == 'Delta':
                        return f'(NPat.inst {self.co(v, ty, "Pat")} {dv})', 'Pat'
                raise TrErr('constructor call ' + ast.unparse(x))
            if f.id == 'bot' and not x.args and not x.keywords:
                if not self.bot_ok:
                    raise TrErr('bot() but the notation `bot` of pattern.py could not be translated')
                return 'Gen.PyInterp.bot', 'Pat'
            if f.id == 'len' and len(x.args) == 1:
                v, ty = self.e(x.args[0], pre)
                if ty == 'Delta':
                    return f'{v}.length', 'Nat'
            if f.id == 'list' and len(x.args) == 1:
                a = x.args[0]
                if isinstance(a, ast.Call) and isinstance(a.func, ast.Attribute) and a.func.attr == 'values' and not a.args:
                    v, ty = self.e(a.func.value, pre)
                    if ty == 'Delta':
                        return f'(deltaValues {v})', 'PatList'
            raise TrErr('call ' + ast.unparse(x))
        if isinstance(f, ast.Attribute):
            # Implies.extract(e)
            if isinstance(f.value, ast.Name) and f.value.id == 'Implies' and f.attr == 'extract' and len(x.args) == 1:
                v, ty = self.e(x.args[0], pre)
                self.fuel = True
                a, b = self.fresh(), self.fresh()
                self.effect(pre, f'extractImplies n {self.co(v, ty, "Pat")} fun {a} {b} =>')
                return f'({a}, {b})', 'PatPair'
            # super().m(...)
            if isinstance(f.value, ast.Call) and isinstance(f.value.func, ast.Name) and f.value.func.id == 'super' and not f.value.args:
                return self.super_call(x, f.attr, pre)
            if f.attr == 'evar_is_free' and len(x.args) == 1:
                v, ty = self.e(f.value, pre)
                a, aty = self.e(x.args[0], pre)
                if ty == 'Pat' and aty == 'Nat':
                    self.fuel = True
                    t = self.fresh()
                    self.effect(pre, f'fuel (NPat.evarIsFreeF n {a} {v}) fun {t} =>')
                    return t, 'Bool'
            if f.attr == 'instantiate' and len(x.args) == 1:
                v, ty = self.e(f.value, pre)
                a, aty = self.e(x.args[0], pre)
                if ty == 'Pat' and aty == 'Delta':
                    self.fuel = True
                    t = self.fresh()
                    self.effect(pre, f'fuel (NPat.instF n {a} {v}) fun {t} =>')
                    return t, 'Pat'
        raise TrErr('call ' + ast.unparse(x))

    def super_call(self, x, name, pre):
        sig = None
        for table in self.supers:
            if name in table:
                sig = table[name]
                break
        if sig is None:
            raise TrErr(f'super().{name}: no translated method of that name in a base class')
        got = self.args_of(x, [p for p, _ in sig.params])
        if len(got) != len(sig.params):
            raise TrErr('arguments: ' + ast.unparse(x))
        parts = [f'{sig.ns}.{lname(sig.name)}']
        if sig.fuel:
            self.fuel = True
            parts.append('n')
        if sig.reads or sig.writes:
            self.reads = True
            parts.append('s')
        for p, pty in sig.params:
            v, ty = self.e(got[p], pre)
            parts.append(self.co(v, ty, pty))
        head = ' '.join(parts)
        if sig.writes:
            if sig.ret != 'Unit':
                raise TrErr(f'super().{name}: a state-changing method with a result')
            self.writes = True
            self.effect(pre, f'call ({head}) fun s =>')
            return '()', 'Unit'
        if sig.eff:
            t = '_' if sig.ret == 'Unit' else self.fresh()
            self.effect(pre, f'call ({head}) fun {t} =>')
            return ('()' if sig.ret == 'Unit' else t), sig.ret
        return f'({head})', sig.ret

    # ---- statements --------------------------------------------------------------------------
    def set_field(self, out, field, v):
        self.reads = self.writes = True
        self.need_eff()
        out.append(f'let s := {{ s with {field} := {v} }}')

    def assign_name(self, out, name, v, ty, rest):
        if ty == 'Empty':
            ty = self.later_type(name, rest)
            v = '[]'
        if ty == 'PatPair':
            raise TrErr('a pair assigned to one name')
        if ty not in LEAN_TY:
            raise TrErr(f'a local of type {ty}')
        out.append(f'let v_{name} : {LEAN_TY[ty]} := {v}')
        self.env[name] = ('v_' + name, ty)

    def later_type(self, name, rest):
        """type of an `x = []` from a later assignment to the same name"""
        for st in rest:
            for n in ast.walk(st):
                if isinstance(n, ast.Assign) and len(n.targets) == 1 and isinstance(n.targets[0], ast.Name) and n.targets[0].id == name:
                    save = (self.pure_only, self.tmp, self.reads, self.writes, self.fuel)
                    self.pure_only += 1
                    try:
                        _, ty = self.e(n.value, [])
                    finally:
                        self.pure_only, self.tmp = save[0], save[1]
                    if ty != 'Empty':
                        return ty
        raise TrErr(f'cannot determine the element type of `{name} = []`')

    def stmt(self, st, rest, out):
        """translate one statement; `rest` = the statements after it in the same block.  Returns True if the
        statement consumed `rest` (an `if` with a returning branch)."""
        src = ast.unparse(st).split('\n')
        if isinstance(st, ast.Expr) and isinstance(st.value, ast.Constant) and (st.value.value is Ellipsis or isinstance(st.value.value, str)):
            return False
        out.append('-- ' + src[0] + (' …' if len(src) > 1 else ''))
        pre = []
        if isinstance(st, ast.AnnAssign) and isinstance(st.target, ast.Name) and st.value is not None:
            want = ann_ty(st.annotation)
            v, ty = self.e(st.value, pre)
            out += pre
            self.assign_name(out, st.target.id, self.co(v, ty, want), want, rest)
            return False
        if isinstance(st, ast.Assign) and len(st.targets) == 1:
            tg = st.targets[0]
            if isinstance(tg, ast.Name):
                v, ty = self.e(st.value, pre)
                out += pre
                self.assign_name(out, tg.id, v, ty, rest)
                return False
            if self.is_self(tg):
                v, ty = self.e(st.value, pre)
                out += pre
                want = {'stack': 'Stack', 'phase': 'Phase'}.get(tg.attr)
                if want is None:
                    raise TrErr('assignment to ' + ast.unparse(tg))
                self.set_field(out, tg.attr, self.co(v, ty, want))
                return False
            if isinstance(tg, ast.Tuple):
                return self.unpack(st, tg, out)
            raise TrErr('assignment target ' + ast.unparse(tg))
        if isinstance(st, ast.Assert):
            v, ty = self.e(st.test, pre)
            out += pre
            self.need_eff()
            if self.pure_only:
                raise TrErr('assert inside a joined `if` branch')
            out.append(f'assert_ {self.truth(v, ty)} <|')
            return False
        if isinstance(st, ast.Return):
            if st.value is None:
                out.append(self.final(None))
            else:
                v, ty = self.e(st.value, pre)
                out += pre
                out.append(self.final(self.co(v, ty, self.ret)))
            return False
        if isinstance(st, ast.Expr) and isinstance(st.value, ast.Call):
            c = st.value
            f = c.func
            if isinstance(f, ast.Attribute) and self.is_self(f.value) and not c.keywords:
                if f.attr == 'append' and len(c.args) == 1 and f.value.attr in ('stack', 'memory'):
                    v, ty = self.e(c.args[0], pre)
                    out += pre
                    if f.value.attr == 'stack':
                        self.set_field(out, 'stack', f'pushTop s.stack {self.co(v, ty, "Term")}')
                    else:
                        self.set_field(out, 'memory', f's.memory ++ [{self.co(v, ty, "Term")}]')
                    return False
                if f.attr == 'pop' and not c.args and f.value.attr == 'stack':
                    t = self.fresh()
                    self.reads = True
                    self.effect(pre, f'popTop s.stack fun {t} =>')
                    out += pre
                    self.set_field(out, 'stack', t)
                    return False
            if isinstance(f, ast.Attribute) and isinstance(f.value, ast.Call) and isinstance(f.value.func, ast.Name) and f.value.func.id == 'super':
                v, ty = self.e(c, pre)
                out += pre
                if v != '()':
                    out.append(f'let _ : {LEAN_TY[ty]} := {v}')
                return False
            raise TrErr('statement ' + src[0])
        if isinstance(st, ast.If):
            return self.if_stmt(st, rest, out)
        raise TrErr('statement ' + src[0])

    def unpack(self, st, tg, out):
        """`*self.stack, a, b = self.stack`  /  `a, *self.claims = self.claims`  /  `l, r = Implies.extract(e)`"""
        pre = []
        elts = tg.elts
        stars = [i for i, t in enumerate(elts) if isinstance(t, ast.Starred)]
        if not stars:
            v, ty = self.e(st.value, pre)
            out += pre
            if ty == 'PatPair' and len(elts) == 2 and all(isinstance(t, ast.Name) for t in elts):
                out.append(f'let (v_{elts[0].id}, v_{elts[1].id}) := {v}')
                for t in elts:
                    self.env[t.id] = ('v_' + t.id, 'Pat')
                return False
            raise TrErr('unpacking of a ' + ty)
        if len(stars) != 1 or not self.is_self(elts[stars[0]].value):
            raise TrErr('unpacking ' + ast.unparse(tg))
        names = [t for t in elts if not isinstance(t, ast.Starred)]
        if not all(isinstance(t, ast.Name) for t in names):
            raise TrErr('unpacking ' + ast.unparse(tg))
        names = [t.id for t in names]
        star_attr = elts[stars[0]].value.attr
        v, ty = self.e(st.value, pre)
        out += pre
        t = self.fresh()
        if ty == 'Stack' and stars[0] == 0 and len(names) in (1, 2) and star_attr == 'stack':
            self.effect(out, f'unpackLast{len(names)} {v} fun {t} {" ".join("v_" + n for n in names)} =>')
            for n in names:
                self.env[n] = ('v_' + n, 'Term')
            self.set_field(out, 'stack', t)
            return False
        if ty == 'Claims' and stars[0] == len(elts) - 1 and len(names) == 1 and star_attr == 'claims':
            self.effect(out, f'unpackFirst1 {v} fun v_{names[0]} {t} =>')
            self.env[names[0]] = ('v_' + names[0], 'Claim')
            self.set_field(out, 'claims', t)
            return False
        raise TrErr('unpacking ' + ast.unparse(st))

    def returns(self, stmts):
        return bool(stmts) and isinstance(stmts[-1], ast.Return)

    def if_stmt(self, st, rest, out):
        pre = []
        c, cty = self.e(st.test, pre)
        out += pre
        c = self.truth(c, cty)
        if self.returns(st.body) and not st.orelse:
            # if c: ...; return e      (the rest of the block is the else branch)
            env = dict(self.env)
            out.append(f'if {c} then')
            out += ['  ' + l for l in self.block(st.body, None)]
            self.env = env
            out.append('else')
            out += ['  ' + l for l in self.block(rest, 'fall')]
            return True
        if self.returns(st.body) or self.returns(st.orelse):
            raise TrErr('if/else with a return')
        # joined: the branches only assign
        assigned = []
        for b in (st.body, st.orelse):
            for s_ in b:
                for n in ast.walk(s_):
                    if isinstance(n, (ast.Assign, ast.AnnAssign)):
                        for tg in (n.targets if isinstance(n, ast.Assign) else [n.target]):
                            key = 's' if self.is_self(tg) else ('v_' + tg.id if isinstance(tg, ast.Name) else None)
                            if key is None:
                                raise TrErr('assignment target in an `if` branch: ' + ast.unparse(tg))
                            if key != 's' and tg.id not in self.env:
                                raise TrErr(f'`{tg.id}` is assigned in an `if` branch only')
                            if key not in assigned:
                                assigned.append(key)
        if not assigned:
            raise TrErr('`if` without assignments')
        assigned.sort(key=lambda k: k != 's')
        tup = assigned[0] if len(assigned) == 1 else '(' + ', '.join(assigned) + ')'
        env = dict(self.env)
        self.pure_only += 1
        try:
            out.append(f'let {tup} := if {c} then')
            bl = self.block(st.body, None)
            types_then = {k: self.env[k[2:]][1] for k in assigned if k != 's'}
            out += ['    ' + l for l in bl] + ['    ' + tup]
            self.env = dict(env)
            out.append('  else')
            bl = self.block(st.orelse, None) if st.orelse else []
            types_else = {k: self.env[k[2:]][1] for k in assigned if k != 's'}
            out += ['    ' + l for l in bl] + ['    ' + tup]
        finally:
            self.pure_only -= 1
        if types_then != types_else:
            raise TrErr(f'the branches of an `if` give different types: {types_then} / {types_else}')
        self.env = dict(env)
        for k, ty in types_then.items():
            self.env[k[2:]] = (k, ty)
        return False

    def final(self, v):
        if self.writes:
            return 'ret s' if v is None or self.ret == 'Unit' else f'ret (s, {v})'
        if v is None or self.ret == 'Unit':
            v = '()'
        return f'ret {v}' if self.eff else v

    def block(self, stmts, tail):
        """`tail` = 'fall': the block is the end of the method body (implicit `return None`)"""
        out = []
        done = False
        for i, st in enumerate(stmts):
            if done:
                raise TrErr('statement after return')
            if self.stmt(st, stmts[i + 1:], out):
                return out
            done = isinstance(st, ast.Return)
        if tail == 'fall' and not done:
            if self.ret != 'Unit':
                raise TrErr('the method can end without `return`')
            out.append(self.final(None))
        return out


class NeedEff(Exception):
    pass


def translate_method(ns, fn, supers, bot_ok):
    """returns (Sig, lines)"""
    for eff in (False, True):
        m = M(ns, fn, supers, eff, bot_ok)
        try:
            body = m.block(fn.body, 'fall')
        except NeedEff:
            continue
        sig = Sig(ns, fn.name, m.params, m.ret, m.fuel, m.reads, m.writes, m.eff)
        binders = ''
        if m.fuel:
            binders += ' (n : Nat)'
        if m.reads or m.writes:
            binders += ' (s : PySt)'
        for p, ty in m.params:
            binders += f' (a_{p} : {LEAN_TY[ty]})'
        lines = [f'def {lname(fn.name)}{binders} : {sig.lean_ret()} :=']
        lines += ['  ' + l for l in body]
        return sig, lines
    raise TrErr('internal: effect analysis')


def translate_bot(tree):
    """`bot = Notation('bot', 0, <definition>, ...)` and `Notation.__call__` of pattern.py -> the pattern `bot()`"""
    cls = next((n for n in tree.body if isinstance(n, ast.ClassDef) and n.name == 'Notation'), None)
    if cls is None:
        raise TrErr('class Notation not found')
    callm = next((n for n in cls.body if isinstance(n, ast.FunctionDef) and n.name == '__call__'), None)
    if callm is None or ast.unparse(callm.body[-1]) != 'return Instantiate(self.definition, frozendict(enumerate(args)))':
        raise TrErr('Notation.__call__ is no longer `return Instantiate(self.definition, frozendict(enumerate(args)))`')
    for n in tree.body:
        if isinstance(n, ast.Assign) and len(n.targets) == 1 and isinstance(n.targets[0], ast.Name) and n.targets[0].id == 'bot':
            c = n.value
            if not (isinstance(c, ast.Call) and isinstance(c.func, ast.Name) and c.func.id == 'Notation' and len(c.args) == 4
                    and isinstance(c.args[1], ast.Constant) and c.args[1].value == 0):
                raise TrErr('bot = ' + ast.unparse(c))
            fake = ast.parse('def f(self) -> Pattern: pass').body[0]
            m = M('', fake, [], False, False)
            pre = []
            v, ty = m.e(c.args[2], pre)
            if pre:
                raise TrErr('bot = ' + ast.unparse(c))
            return f'(NPat.inst {m.co(v, ty, "Pat")} [])'
    raise TrErr('no assignment `bot = Notation(...)`')


def check_metavar_defaults(tree):
    cls = next((n for n in tree.body if isinstance(n, ast.ClassDef) and n.name == 'MetaVar'), None)
    if cls is None:
        raise TrErr('class MetaVar not found')
    fields = [(n.target.id, None if n.value is None else ast.unparse(n.value)) for n in cls.body if isinstance(n, ast.AnnAssign)]
    want = [('name', None), ('e_fresh', '()'), ('s_fresh', '()'), ('positive', '()'), ('negative', '()'), ('app_ctx_holes', '()')]
    if fields != want:
        raise TrErr(f'fields of MetaVar: {fields}')


CLASSES = [('Interpreter', 'interpreter.py', 'Interp', ['into_claim_phase', 'into_proof_phase']),
           ('BasicInterpreter', 'basic_interpreter.py', 'Basic', None),
           ('StatefulInterpreter', 'stateful_interpreter.py', 'Stateful', None)]
BASES = {'Interpreter': 'ABC', 'BasicInterpreter': 'Interpreter', 'StatefulInterpreter': 'BasicInterpreter'}


def gen_py_interp(srcdir=None, outdir=None):
    """srcdir: directory holding interpreter.py / basic_interpreter.py / stateful_interpreter.py / pattern.py
    (default: /repo's proof_generation); outdir: where PyInterp.lean is written (default: lean/Pi2/Gen)"""
    problems = []
    default = os.path.join(core.PYSRC, 'proof_generation')

    def source(f):
        p = os.path.join(srcdir, f) if srcdir and os.path.exists(os.path.join(srcdir, f)) else os.path.join(default, f)
        return ast.parse(open(p, encoding='utf-8').read())

    ok = True
    lines = ['import Pi2.InterpSupport',
             '/-! GENERATED by /verif/vlib/transinterp.py from `BasicInterpreter` (basic_interpreter.py), `StatefulInterpreter`',
             '(stateful_interpreter.py), `Interpreter.into_claim_phase / into_proof_phase` (interpreter.py) and the notation `bot`',
             '(pattern.py) of generation/src/proof_generation, method by method, statement by statement — do not edit.',
             '`Pi2/InterpTie.lean` proves these equal to the hand-written `NPat.pyMP / pyGen / pyInst` and `PySt.track1`. -/',
             'open PyI',
             'set_option linter.unusedVariables false',
             'namespace Gen.PyInterp']
    bot_ok = False
    try:
        ptree = source('pattern.py')
        check_metavar_defaults(ptree)
        lines.append(f'def bot : NPat := {translate_bot(ptree)}')
        bot_ok = True
    except (TrErr, OSError, SyntaxError) as ex:
        problems.append(f'PyInterp: pattern.py: {ex}'); ok = False
    tables = {}
    for cname, fname, ns, only in CLASSES:
        tables[cname] = {}
        try:
            tree = source(fname)
        except (OSError, SyntaxError) as ex:
            problems.append(f'PyInterp: {fname}: {ex}'); ok = False
            continue
        cls = next((n for n in tree.body if isinstance(n, ast.ClassDef) and n.name == cname), None)
        if cls is None:
            problems.append(f'PyInterp: class {cname} not found in {fname}'); ok = False
            continue
        bases = [ast.unparse(b) for b in cls.bases]
        if bases != [BASES[cname]]:
            problems.append(f'PyInterp: {cname} has base classes {bases}, expected [{BASES[cname]}]'); ok = False
        supers = []
        b = BASES[cname]
        while b in tables:
            supers.append(tables[b])
            b = BASES[b]
        lines.append(f'namespace {ns}')
        lines.append(f'/-! ## class {cname} ({fname}) -/')
        for node in cls.body:
            if isinstance(node, ast.Expr) and isinstance(node.value, ast.Constant) and isinstance(node.value.value, str):
                continue
            if isinstance(node, ast.AnnAssign) and node.value is None:
                continue                                    # `stack: list[Pattern | Proved]`: a declaration
            if not isinstance(node, ast.FunctionDef):
                problems.append(f'PyInterp: {cname}: unexpected class member {ast.unparse(node)[:60]}'); ok = False
                continue
            if only is not None and node.name not in only:
                continue
            skip = SKIP[cname] or {}
            if node.name in skip:
                lines.append(f'-- not translated: {cname}.{node.name} ({skip[node.name]})')
                continue
            if node.decorator_list:
                problems.append(f'PyInterp: {cname}.{node.name}: decorated'); ok = False
                continue
            try:
                sig, body = translate_method(f'Gen.PyInterp.{ns}', node, supers, bot_ok)
            except TrErr as ex:
                problems.append(f'PyInterp: {cname}.{node.name}: {ex}'); ok = False
                lines.append(f'-- NOT TRANSLATED: {cname}.{node.name}: {ex}')
                continue
            tables[cname][node.name] = sig
            lines.append(f'/-- `{cname}.{node.name}` (line {node.lineno}) -/')
            lines += body
        for m in EXPECTED[cname]:
            if m not in tables[cname]:
                problems.append(f'PyInterp: {cname}.{m} not found or not translated'); ok = False
        extra = sorted(set(tables[cname]) - set(EXPECTED[cname]))
        if extra:
            problems.append(f'PyInterp: {cname}: methods without a tie theorem in Pi2/InterpTie.lean: {extra}'); ok = False
        lines.append(f'end {ns}')
    lines.append(f'def translated : Bool := {"true" if ok else "false"}')
    lines.append('end Gen.PyInterp')
    from .translate import _write_if_changed, GEN
    _write_if_changed(os.path.join(outdir or GEN, 'PyInterp.lean'), '\n'.join(lines) + '\n')
    return problems


if __name__ == '__main__':
    print(gen_py_interp())
