"""Translator: `instantiate_internal` / `instantiate_in_place` of the Rust checker (rust/src/lib.rs) -> Lean definitions
(`Pi2/Gen/RustInst.lean`), regenerated on every run.  `Pi2/RustInstTie.lean` proves the generated functions equal to the
hand-written model `Pat.instU` (about which `Pi2/InstUThm.lean` and the soundness theorems are stated): a change of the Rust
source that changes what instantiation computes (or when it panics) breaks that proof.

The translation is syntax-directed: the body is parsed (a small Rust subset, see `Parser`) into a tree, and every statement
and expression is translated by a fixed rule into a Lean term in the panic monad `Option` (outer `none` = panic):

  value-typed Rust expression   ->  (bindings, pure Lean term); a binding is a sub-computation that may panic
                                    (`plugs[pos]`, `x.unwrap()`, a call of `instantiate_internal` / `apply_esubst`, `.find(..)` with
                                    a panicking closure) -> `Option.bind c (fun t => ..)`, or the `?` operator
                                    -> `match e with | none => some none | some t => ..`; left-to-right evaluation order
  `let [mut] x = e; REST`       ->  `let l_x := e; REST`                      `x = e; REST` (x declared mut) likewise
  `if c { ..diverges.. } REST`  ->  `if c then .. else REST`                  (diverges = ends in `return e;` / `panic!(..)`)
  `if c { x = e; } REST`        ->  `let l_x := if c then e else l_x; REST`
  `if let Some(v) = e { ..diverges.. } REST` -> `match e with | some l_v => .. | none => REST`
  `if let Some(v) = e { x = e' } REST`       -> `let x := match e with | some l_v => e' | none => x; REST`
  `if c { A } else { B }` (tail) -> `if c then A else B`;  tail expression `e` / `return e;` -> `some e`;  `panic!(..)` -> `none`
  `Some(e)`/`None`/`Rc::clone(e)`/`&e`/`*e` -> `some e`/`none`/`e`/`e`/`e`;   `implies(a,b)`.. -> `Pat.imp a b`..
  `l.iter()`/`l.into_iter()` -> `l`;  `.position(|&x| c)` -> `List.findIdx? (fun c_x => c) l`;
  `.find(|&v| c)` -> `findP (fun c_v => <c as a computation>) l`;   `l[i]` -> `l[i]?` (a binding: out of bounds = panic);
  `x.is_none()` -> `Option.isNone x`;  `x.unwrap()` -> the binding `x` itself (None = panic);  `l.len()` -> `List.length l`

Anything else is reported as a translator problem, and `instTranslated` is then `false` (never silently skipped)."""
from __future__ import annotations

import os
import re

from . import core
from .transrust import TrErr, strip_comments, CTORS, HELPERS, FUNCS, SUBST_FUNCS

TOK3 = re.compile(r'\s*("(?:[^"\\]|\\.)*"|=>|&&|\|\||==|!=|>=|<=|\.\.|::|[{}()\[\],;.!*&=|?<>]|[A-Za-z_][A-Za-z0-9_]*|\d+)')
IDENT = re.compile(r'[A-Za-z_]\w*')
KEYWORDS = {'let', 'mut', 'if', 'else', 'return', 'match', 'panic', 'Some', 'None', 'Rc', 'Pattern', 'true', 'false'}


def lex3(s):
    out, pos = [], 0
    s = s.strip()
    while pos < len(s):
        m = TOK3.match(s, pos)
        if not m:
            raise TrErr(f'cannot tokenize near {s[pos:pos + 30]!r}')
        out.append(m.group(1)); pos = m.end()
    return out


def find_fn_text(src, name):
    """(parameter text, return-type text, body text) of `fn name(..) [-> T] { .. }`; string-literal aware brace matching"""
    m = re.search(r'\bfn\s+' + name + r'\s*\(', src)
    if not m:
        raise TrErr(f'fn {name} not found')
    i = m.end()
    j = src.index(')', i)
    params = src[i:j]
    k = src.index('{', j)
    ret = src[j + 1:k]
    depth, q, instr = 1, k + 1, False
    while depth:
        if q >= len(src):
            raise TrErr(f'fn {name}: unbalanced braces')
        c = src[q]
        if instr:
            if c == '\\':
                q += 1
            elif c == '"':
                instr = False
        elif c == '"':
            instr = True
        elif c == '{':
            depth += 1
        elif c == '}':
            depth -= 1
        q += 1
    return params, ret, src[k + 1:q - 1]


def parse_params(params):
    out = []
    for part in params.split(','):
        part = part.strip()
        if not part:
            continue
        nm, _, ty = part.partition(':')
        out.append((nm.strip(), re.sub(r'\s+', '', ty)))
    return out


# ---------------------------------------------------------------------------------------------------------
# parser: tokens -> tree
# ---------------------------------------------------------------------------------------------------------

class Parser:
    """expressions:  or > and > cmp > unary (`!`, `*`, `&`) > postfix (`.m(args)`, `[i]`, `?`) > primary
    (`(e)`, `None`, `Some(e)`, `Rc::clone(e)`, `f(args)`, `panic!(..)`, `|&x| e`, name, number);
    statements: `let [mut] x = e;`, `if [let Some(x) =] e { .. } [else { .. }]`, `return e;`, `panic!(..)[;]`, `[*]x = e[;]`, `e[;]`"""

    def __init__(self, toks):
        self.t, self.i = toks, 0

    def peek(self, k=0):
        return self.t[self.i + k] if self.i + k < len(self.t) else None

    def eat(self, x=None):
        v = self.peek()
        if v is None or (x is not None and v != x):
            raise TrErr(f'expected {x!r}, got {v!r} (token {self.i})')
        self.i += 1
        return v

    def ident(self):
        v = self.eat()
        if not IDENT.fullmatch(v):
            raise TrErr(f'expected a name, got {v!r}')
        return v

    # ---- expressions
    def expr(self):
        a = self.conj()
        while self.peek() == '||':
            self.eat(); a = ('or', a, self.conj())
        return a

    def conj(self):
        a = self.cmp()
        while self.peek() == '&&':
            self.eat(); a = ('and', a, self.cmp())
        return a

    def cmp(self):
        a = self.unary()
        if self.peek() in ('==', '!=', '>=', '<=', '<', '>'):
            op = self.eat()
            return ('cmp', op, a, self.unary())
        return a

    def unary(self):
        t = self.peek()
        if t == '!':
            self.eat(); return ('not', self.unary())
        if t == '*':
            self.eat(); return ('deref', self.unary())
        if t == '&':
            self.eat()
            if self.peek() == 'mut':
                self.eat()
            return ('ref', self.unary())
        return self.postfix()

    def args(self):
        self.eat('(')
        out = []
        while self.peek() != ')':
            out.append(self.expr())
            if self.peek() == ',':
                self.eat()
            elif self.peek() != ')':
                raise TrErr(f'expected , or ) in argument list, got {self.peek()!r}')
        self.eat(')')
        return out

    def skip_macro_args(self):
        self.eat('(')
        depth = 1
        while depth:
            t = self.eat()
            if t == '(':
                depth += 1
            elif t == ')':
                depth -= 1

    def postfix(self):
        a = self.primary()
        while True:
            t = self.peek()
            if t == '.':
                self.eat(); f = self.ident()
                a = ('method', a, f, self.args())
            elif t == '[':
                self.eat(); i = self.expr(); self.eat(']')
                a = ('index', a, i)
            elif t == '?':
                self.eat(); a = ('try', a)
            else:
                return a

    def primary(self):
        t = self.peek()
        if t == '(':
            self.eat(); a = self.expr(); self.eat(')')
            return a
        if t == '|':
            self.eat()
            if self.peek() == '&':
                self.eat()
            v = self.ident(); self.eat('|')
            return ('closure', v, self.expr())
        if t == 'None':
            self.eat(); return ('none',)
        if t == 'Some':
            self.eat(); a = self.args()
            if len(a) != 1:
                raise TrErr('Some/_ arity')
            return ('some', a[0])
        if t == 'Rc':
            self.eat(); self.eat('::'); self.eat('clone'); a = self.args()
            if len(a) != 1:
                raise TrErr('Rc::clone arity')
            return ('clone', a[0])
        if t == 'panic' and self.peek(1) == '!':
            self.eat(); self.eat('!'); self.skip_macro_args()
            return ('panic',)
        if t == 'if':
            return self.if_()
        if t is not None and re.fullmatch(r'\d+', t):
            self.eat(); return ('num', t)
        if t in ('true', 'false'):
            self.eat(); return ('bool', t)
        if t is not None and IDENT.fullmatch(t) and t not in KEYWORDS:
            self.eat()
            if self.peek() == '(':
                return ('call', t, self.args())
            if self.peek() == '!':
                raise TrErr(f'unsupported macro {t}!')
            return ('name', t)
        raise TrErr(f'unexpected token {t!r} in an expression')

    def if_(self):
        self.eat('if')
        if self.peek() == 'let':
            self.eat(); self.eat('Some'); self.eat('('); v = self.ident(); self.eat(')'); self.eat('=')
            e = self.expr()
            head = ('iflet', v, e)
        else:
            head = ('if', self.expr())
        then = self.block()
        els = None
        if self.peek() == 'else':
            self.eat()
            els = [('expr', self.if_())] if self.peek() == 'if' else self.block()
        return head + (then, els)

    # ---- statements
    def block(self):
        self.eat('{')
        out = []
        while self.peek() != '}':
            out.append(self.stmt())
        self.eat('}')
        return out

    def stmt(self):
        t = self.peek()
        if t == 'let':
            self.eat()
            mut = False
            if self.peek() == 'mut':
                self.eat(); mut = True
            v = self.ident(); self.eat('='); e = self.expr(); self.eat(';')
            return ('let', v, mut, e)
        if t == 'return':
            self.eat(); e = self.expr(); self.eat(';')
            return ('return', e)
        if t == 'if':
            s = self.if_()
            if self.peek() == ';':
                self.eat()
            return s
        # assignment `x = e` / `*x = e`
        k = 1 if t == '*' else 0
        if IDENT.fullmatch(self.peek(k) or '') and self.peek(k) not in KEYWORDS and self.peek(k + 1) == '=':
            if k:
                self.eat()
            v = self.ident(); self.eat('='); e = self.expr()
            if self.peek() == ';':
                self.eat()
            elif self.peek() != '}':
                raise TrErr(f'expected ; after the assignment to {v}')
            return ('assign', v, e)
        e = self.expr()
        if self.peek() == ';':
            self.eat()
            return ('panic',) if e == ('panic',) else ('exprstmt', e)
        if self.peek() != '}':
            raise TrErr(f'expected ; or }} after an expression, got {self.peek()!r}')
        return ('panic',) if e == ('panic',) else ('expr', e)

    def match_arms(self, scrutinee):
        """`match SCRUTINEE.as_ref() { Pattern::C(..) => e|{..}, .. }` -> [(ctor, {field: rust name}, block)]"""
        self.eat('match'); self.eat(scrutinee); self.eat('.'); self.eat('as_ref'); self.eat('('); self.eat(')'); self.eat('{')
        arms = []
        while self.peek() != '}':
            self.eat('Pattern'); self.eat('::'); c = self.eat()
            if c not in CTORS:
                raise TrErr(f'unknown constructor {c}')
            _, fields = CTORS[c]
            names = {}
            if self.peek() == '(':
                self.eat(); names['0'] = self.eat(); self.eat(')')
            elif self.peek() == '{':
                self.eat()
                while self.peek() != '}':
                    if self.peek() == '..':
                        self.eat()
                    else:
                        f = self.ident()
                        if f not in fields:
                            raise TrErr(f'unknown field {f} of {c}')
                        names[f] = f
                    if self.peek() == ',':
                        self.eat()
                self.eat('}')
            if self.peek() == 'if':
                raise TrErr(f'match guard on the arm {c} is not supported')
            self.eat('=>')
            if self.peek() == '{':
                body = self.block()
            else:
                body = [('expr', self.expr())]
            if self.peek() == ',':
                self.eat()
            arms.append((c, names, body))
        self.eat('}')
        return arms


# ---------------------------------------------------------------------------------------------------------
# translation: tree -> Lean
# ---------------------------------------------------------------------------------------------------------

CMP = {'==': '==', '!=': '!='}
ORD = {'>=': '≥', '<=': '≤', '<': '<', '>': '>'}


def diverges(block):
    if not block:
        return False
    s = block[-1]
    if s[0] in ('return', 'panic'):
        return True
    if s[0] in ('if', 'iflet') and s[-1] is not None:
        return diverges(s[-2]) and diverges(s[-1])
    if s[0] == 'expr' and s[1][0] in ('if', 'iflet') and s[1][-1] is not None:
        return diverges(s[1][-2]) and diverges(s[1][-1])
    return False


class Tr:
    """`env`: Rust name -> Lean name; `mut`: the assignable Rust names; `unit`: the function returns `()` and its result
    is the final value of the `&mut` parameter `self.out`"""

    def __init__(self, env, mut, unit=False, out=None):
        self.env, self.mut, self.unit, self.out, self.n = dict(env), set(mut), unit, out, 0

    def fresh(self):
        self.n += 1
        return f't{self.n}'

    # ---- expressions: returns (bindings, pure term)
    def e(self, x, env):
        k = x[0]
        if k == 'name':
            if x[1] not in env:
                raise TrErr(f'unknown name {x[1]!r}')
            return [], env[x[1]]
        if k == 'num':
            return [], x[1]
        if k == 'bool':
            return [], x[1]
        if k == 'none':
            return [], 'none'
        if k == 'some':
            b, t = self.e(x[1], env)
            return b, f'(some {t})'
        if k in ('clone', 'ref', 'deref'):
            return self.e(x[1], env)
        if k == 'not':
            b, t = self.e(x[1], env)
            return b, f'(!{t})'
        if k in ('and', 'or'):
            b1, t1 = self.e(x[1], env)
            b2, t2 = self.e(x[2], env)
            if b2:
                raise TrErr(f'a right operand of {"&&" if k == "and" else "||"} that may panic is not supported')
            return b1, f'({t1} {"&&" if k == "and" else "||"} {t2})'
        if k == 'cmp':
            b1, t1 = self.e(x[2], env)
            b2, t2 = self.e(x[3], env)
            if x[1] in CMP:
                return b1 + b2, f'({t1} {CMP[x[1]]} {t2})'
            return b1 + b2, f'(decide ({t1} {ORD[x[1]]} {t2}))'
        if k == 'index':
            b1, t1 = self.e(x[1], env)
            b2, t2 = self.e(x[2], env)
            v = self.fresh()
            return b1 + b2 + [('bind', v, f'({t1}[{t2}]?)')], v
        if k == 'try':
            b, t = self.e(x[1], env)
            v = self.fresh()
            return b + [('try', v, t)], v
        if k == 'panic':
            raise TrErr('panic!(..) inside an expression')
        if k in ('if', 'iflet'):
            raise TrErr('`if` inside an expression (only as a statement or in tail position)')
        if k == 'closure':
            raise TrErr('closure outside .position(..)/.find(..)')
        if k == 'call':
            return self.call(x, env)
        if k == 'method':
            return self.method(x, env)
        raise TrErr(f'unsupported expression {k}')

    def call(self, x, env):
        f, args = x[1], x[2]
        bs, ts = [], []
        for a in args:
            b, t = self.e(a, env)
            bs += b; ts.append(t)
        if f in HELPERS:
            lean, sig = HELPERS[f]
            if len(ts) != len(sig):
                raise TrErr(f'{f}: arity')
            return bs, f'(Pat.{lean} {" ".join(ts)})'
        if f == 'instantiate_internal':
            if len(ts) != 3:
                raise TrErr(f'{f}: arity')
            v = self.fresh()
            return bs + [('bind', v, f'(instantiate_internal {ts[1]} {ts[2]} {ts[0]})')], v
        if f in SUBST_FUNCS:
            if len(ts) != 3:
                raise TrErr(f'{f}: arity')
            v = self.fresh()
            return bs + [('bind', v, f'({f} {ts[0]} {ts[1]} {ts[2]})')], v
        raise TrErr(f'unsupported function {f}')

    def method(self, x, env):
        recv, f, args = x[1], x[2], x[3]
        b, t = self.e(recv, env)
        if f in ('iter', 'into_iter') and not args:
            return b, t
        if f == 'is_none' and not args:
            return b, f'(Option.isNone {t})'
        if f == 'is_some' and not args:
            return b, f'(Option.isSome {t})'
        if f == 'len' and not args:
            return b, f'(List.length {t})'
        if f == 'unwrap' and not args:
            v = self.fresh()
            return b + [('bind', v, t)], v
        if f in FUNCS and len(args) == 1:
            b2, t2 = self.e(args[0], env)
            return b + b2, f'({f} {t} {t2})'
        if f == 'contains' and len(args) == 1:
            b2, t2 = self.e(args[0], env)
            return b + b2, f'(List.contains {t} {t2})'
        if f in ('position', 'find') and len(args) == 1 and args[0][0] == 'closure':
            _, cv, body = args[0]
            env2 = dict(env); env2[cv] = 'c_' + cv
            cb, ct = self.e(body, env2)
            if f == 'position':
                if cb:
                    raise TrErr('.position(..) with a closure that may panic is not supported')
                return b, f'(List.findIdx? (fun c_{cv} => {ct}) {t})'
            v = self.fresh()
            return b + [('bind', v, f'(findP (fun c_{cv} => {self.wrap(cb, f"some {ct}")}) {t})')], v
        raise TrErr(f'unsupported method .{f}/{len(args)}')

    def wrap(self, binds, body):
        for kind, v, c in reversed(binds):
            if kind == 'bind':
                body = f'Option.bind {c} (fun {v} =>\n{body})'
            else:   # the `?` operator: None returns None from the function
                if self.unit:
                    raise TrErr('`?` in a function without a result')
                body = f'(match {c} with\n| none => some none\n| some {v} =>\n{body})'
        return body

    # ---- statements (always in the tail position of the function: the term is the result of the whole function)
    def single_assign(self, block):
        if len(block) == 1 and block[0][0] == 'assign':
            return block[0]
        return None

    def ss(self, stmts, env):
        if not stmts:
            if self.unit:
                return f'some {env[self.out]}'
            raise TrErr('a block without a value')
        s, rest = stmts[0], stmts[1:]
        k = s[0]
        if k == 'expr' and s[1][0] in ('if', 'iflet'):
            s = s[1]; k = s[0]
        if k == 'let':
            _, v, mut, e = s
            b, t = self.e(e, env)
            env2 = dict(env); env2[v] = 'l_' + v
            if mut:
                self.mut.add(v)
            else:
                self.mut.discard(v)
            return self.wrap(b, f'(let l_{v} := {t};\n{self.ss(rest, env2)})')
        if k == 'assign':
            _, v, e = s
            if v not in env or v not in self.mut:
                raise TrErr(f'assignment to {v!r}, which is not a `mut` local')
            b, t = self.e(e, env)
            return self.wrap(b, f'(let {env[v]} := {t};\n{self.ss(rest, env)})')
        if k == 'return':
            if rest:
                raise TrErr('statements after `return`')
            if self.unit:
                raise TrErr('`return e` in a function without a result')
            b, t = self.e(s[1], env)
            return self.wrap(b, f'some {t}')
        if k == 'panic':
            if rest:
                raise TrErr('statements after panic!')
            return 'none'
        if k == 'expr':
            if rest:
                raise TrErr('statements after the final expression')
            if self.unit:
                raise TrErr('a final expression in a function without a result')
            b, t = self.e(s[1], env)
            return self.wrap(b, f'some {t}')
        if k == 'exprstmt':
            raise TrErr('an expression evaluated only for its effect')
        if k in ('if', 'iflet'):
            if k == 'if':
                _, c, then, els = s
                b, t = self.e(c, env)
                envt = env
            else:
                _, v, c, then, els = s
                b, t = self.e(c, env)
                envt = dict(env); envt[v] = ('l_' + v) if v != '_' else '_'
            bv = envt.get(s[1]) if k == 'iflet' else None
            if els is not None:
                if rest and not (diverges(then) and diverges(els)):
                    raise TrErr('`if .. else ..` that is not the last statement of its block')
                if rest:
                    raise TrErr('statements after a diverging `if .. else ..`')
                a, bb = self.ss(then, envt), self.ss(els, env)
                if k == 'if':
                    return self.wrap(b, f'(if {t} then\n{a}\nelse\n{bb})')
                return self.wrap(b, f'(match {t} with\n| some {bv} =>\n{a}\n| none =>\n{bb})')
            # no else
            if diverges(then):
                a, bb = self.ss(then, envt), self.ss(rest, env)
                if k == 'if':
                    return self.wrap(b, f'(if {t} then\n{a}\nelse\n{bb})')
                return self.wrap(b, f'(match {t} with\n| some {bv} =>\n{a}\n| none =>\n{bb})')
            asg = self.single_assign(then)
            if asg is not None:
                _, x, e = asg
                if x not in env or x not in self.mut:
                    raise TrErr(f'assignment to {x!r}, which is not a `mut` local')
                eb, et = self.e(e, envt)
                if eb:
                    raise TrErr('a conditionally assigned value that may panic is not supported')
                if k == 'if':
                    val = f'(if {t} then {et} else {env[x]})'
                else:
                    val = f'(match {t} with | some {bv} => {et} | none => {env[x]})'
                return self.wrap(b, f'(let {env[x]} := {val};\n{self.ss(rest, env)})')
            raise TrErr('`if` without `else` whose block neither diverges nor is a single assignment')
        raise TrErr(f'unsupported statement {k}')


def indent(term, base=4):
    """re-indent the generated term by parenthesis depth (layout only; every line break is inside parentheses)"""
    out, depth = [], 0
    for ln in term.split('\n'):
        out.append(' ' * (base + 2 * depth) + ln)
        depth += ln.count('(') - ln.count(')')
    return '\n'.join(out)


PRELUDE = '''/-- `Iterator::find` with a closure that may panic (`none`): the closure is evaluated on the elements in order, up to and
including the first one it accepts (fixed text of the translator, the meaning of `.find(..)`) -/
def findP {α : Type} (f : α → Option Bool) : List α → Option (Option α)
  | [] => some none
  | a :: as => Option.bind (f a) (fun b => if b then some (some a) else findP f as)'''


def translate_internal(src):
    params, ret, body = find_fn_text(src, 'instantiate_internal')
    ps = parse_params(params)
    if [ty for _, ty in ps] != ['&Rc<Pattern>', '&[Id]', '&[Rc<Pattern>]']:
        raise TrErr(f'unexpected parameter types {ps}')
    if re.sub(r'\s+', '', ret) != '->Option<Rc<Pattern>>':
        raise TrErr(f'unexpected return type {ret.strip()!r}')
    penv = {ps[0][0]: 'p', ps[1][0]: 'vars', ps[2][0]: 'plugs'}
    pr = Parser(lex3(body))
    arms = pr.match_arms(ps[0][0])
    if pr.peek() is not None:
        raise TrErr(f'text after the match: {pr.peek()!r}')
    out = ['def instantiate_internal (vars : List VId) (plugs : List Pat) : Pat → Option (Option Pat)']
    seen = set()
    for c, names, blk in arms:
        lean, fields = CTORS[c]
        if lean in seen:
            raise TrErr(f'two arms for {c}')
        seen.add(lean)
        env = dict(penv)
        pats = []
        for f in fields:
            if f in names and names[f] != '_':
                ln = 'b_' + (f if f != '0' else 'a')
                env[names[f]] = ln; pats.append(ln)
            else:
                pats.append('_')
        tr = Tr(env, set())
        out.append(f'  | p@(.{lean} {" ".join(pats)}) =>')
        out.append(indent(tr.ss(blk, env)))
    missing = [l for l, _ in CTORS.values() if l not in seen]
    if missing:
        raise TrErr(f'no arm for {missing}')
    return out


def translate_in_place(src):
    params, ret, body = find_fn_text(src, 'instantiate_in_place')
    ps = parse_params(params)
    if [ty for _, ty in ps] != ['&mutRc<Pattern>', '&[Id]', '&[Rc<Pattern>]']:
        raise TrErr(f'unexpected parameter types {ps}')
    if ret.strip():
        raise TrErr(f'unexpected return type {ret.strip()!r}')
    env = {ps[0][0]: 'p', ps[1][0]: 'vars', ps[2][0]: 'plugs'}
    pr = Parser(lex3('{' + body + '}'))
    blk = pr.block()
    if pr.peek() is not None:
        raise TrErr(f'text after the body: {pr.peek()!r}')
    tr = Tr(env, {ps[0][0]}, unit=True, out=ps[0][0])
    return ['/-- the result is the final value of `*p` (`none` = panic) -/',
            'def instantiate_in_place (vars : List VId) (plugs : List Pat) (p : Pat) : Option Pat :=',
            indent(tr.ss(blk, env), 2)]


def gen_rust_inst(src_path=None, out_dir=None):
    """regenerate `Pi2/Gen/RustInst.lean` from `instantiate_internal` / `instantiate_in_place` in rust/src/lib.rs
    (`src_path` / `out_dir`: another source file / output directory, used by the sensitivity tests)"""
    problems = []
    src_path = src_path or os.path.join(core.REPO, 'rust/src/lib.rs')
    src = strip_comments(open(src_path).read())
    lines = ['import Pi2.Gen.RustSubst',
             '/-! GENERATED by /verif/vlib/transinst.py from `instantiate_internal` / `instantiate_in_place` in rust/src/lib.rs (arm by',
             'arm, statement by statement; outer `none` = a panic, inner `none` = Rust `None`, "unchanged") — do not edit.',
             '`Pi2/RustInstTie.lean` proves these equal to `Pat.instU` / `(Pat.instU ..).map (·.getD p)`. -/',
             'namespace Gen.Rust', 'set_option linter.unusedVariables false', PRELUDE]
    okk = True
    for name, f in (('instantiate_internal', translate_internal), ('instantiate_in_place', translate_in_place)):
        if not okk:     # `instantiate_in_place` calls `instantiate_internal`: keep the generated file compilable
            problems.append(f'RustInst: {name}: not emitted, instantiate_internal was not translated')
            continue
        try:
            lines += f(src)
        except (TrErr, ValueError) as e:
            problems.append(f'RustInst: {name}: {e}')
            okk = False
    lines.append(f'def instTranslated : Bool := {"true" if okk else "false"}')
    lines.append('end Gen.Rust')
    from .translate import _write_if_changed, GEN
    _write_if_changed(os.path.join(out_dir or GEN, 'RustInst.lean'), '\n'.join(lines) + '\n')
    return problems


if __name__ == '__main__':
    print(gen_rust_inst())
