"""Translator: the methods `evar_is_free`, `metavars`, `apply_esubst`, `apply_ssubst`, `instantiate` of the ten
notation-free pattern classes of generation/src/proof_generation/pattern.py (Python `ast`) -> Lean functions on `Pat`
(`Pi2/Gen/PyPattern.lean`), regenerated on every run.  `Pi2/PyTie.lean` proves them equal to the hand-written Python
semantics `Py.esub`, `Py.ssub`, `Py.inst`, `Py.metavars`, `NPat.evarIsFreeF`-on-expansions that the notation theorems
(C06, C07, C11, C12, C13) are stated about.  The `Instantiate` class (notation) is `simplify()` + delegation and stays
hand-modelled with fuel.

Accepted statement forms: `return e`, `if c: return e` (+ a following return), `assert c, msg` with `c` a call of
`can_be_replaced_by` (whose body must be `return True`).  Expressions: field access, parameters, comparisons, and / or /
not, `EVar(x) in self.e_fresh`, `SVar(x) in self.s_fresh`, `x in delta`, `delta[x]`, `not delta`, constructor calls,
method calls of the five methods, `set()`, `{x}`, `a.union(b)`."""
from __future__ import annotations

import ast
import os

from . import core

CLASSES = {
    'EVar': ('evar', ['name']), 'SVar': ('svar', ['name']), 'Symbol': ('sym', ['name']),
    'Implies': ('imp', ['left', 'right']), 'App': ('app', ['left', 'right']),
    'Exists': ('ex', ['var', 'subpattern']), 'Mu': ('mu', ['var', 'subpattern']),
    'MetaVar': ('mv', ['name', 'e_fresh', 's_fresh', 'positive', 'negative', 'app_ctx_holes']),
    'ESubst': ('esub', ['pattern', 'var', 'plug']), 'SSubst': ('ssub', ['pattern', 'var', 'plug']),
}
METHODS = {'evar_is_free': ('Bool', ['name']), 'metavars': ('List VId', []), 'apply_esubst': ('Pat', ['evar_id', 'plug']),
           'apply_ssubst': ('Pat', ['svar_id', 'plug']), 'instantiate': ('Pat', ['delta'])}
ORDER = ['evar_is_free', 'metavars', 'apply_esubst', 'apply_ssubst', 'instantiate']


class TrErr(Exception):
    pass


class Tr:
    def __init__(self, cls, params):
        self.cls = cls
        self.lean, self.fields = CLASSES[cls]
        self.params = params

    def self_term(self):
        return 'p'

    def field(self, f):
        if f not in self.fields:
            raise TrErr(f'{self.cls} has no field {f}')
        return 'b_' + f

    def e(self, x):
        if isinstance(x, ast.Name):
            if x.id == 'self':
                return 'p'
            if x.id in self.params:
                return 'a_' + x.id
            raise TrErr(f'unknown name {x.id}')
        if isinstance(x, ast.Constant) and isinstance(x.value, bool):
            return 'true' if x.value else 'false'
        if isinstance(x, ast.Attribute):
            # self.f  |  self.var.name (the EVar/SVar object of a substitution node is its id in the model)
            if isinstance(x.value, ast.Name) and x.value.id == 'self':
                return self.field(x.attr)
            if x.attr == 'name' and isinstance(x.value, ast.Attribute) and isinstance(x.value.value, ast.Name) and x.value.value.id == 'self' \
                    and x.value.attr == 'var' and self.cls in ('ESubst', 'SSubst'):
                return self.field('var')
            raise TrErr('attribute ' + ast.unparse(x))
        if isinstance(x, ast.BoolOp):
            op = ' && ' if isinstance(x.op, ast.And) else ' || '
            return '(' + op.join(self.e(v) for v in x.values) + ')'
        if isinstance(x, ast.UnaryOp) and isinstance(x.op, ast.Not):
            if isinstance(x.operand, ast.Name) and x.operand.id == 'delta':
                return 'a_delta.isEmpty'
            return f'(!{self.e(x.operand)})'
        if isinstance(x, ast.Compare) and len(x.ops) == 1:
            l, r, op = x.left, x.comparators[0], x.ops[0]
            if isinstance(op, (ast.Eq, ast.NotEq)):
                return f'({self.e(l)} {"==" if isinstance(op, ast.Eq) else "!="} {self.e(r)})'
            if isinstance(op, ast.In):
                # EVar(n) in self.e_fresh / SVar(n) in self.s_fresh / k in delta
                if isinstance(l, ast.Call) and isinstance(l.func, ast.Name) and l.func.id in ('EVar', 'SVar') and len(l.args) == 1:
                    return f'(List.contains {self.e(r)} {self.e(l.args[0])})'
                if isinstance(r, ast.Name) and r.id == 'delta':
                    return f'(Py.lookup a_delta {self.e(l)}).isSome'
            raise TrErr('comparison ' + ast.unparse(x))
        if isinstance(x, ast.Subscript) and isinstance(x.value, ast.Name) and x.value.id == 'delta':
            return f'((Py.lookup a_delta {self.e(x.slice)}).getD p)'
        if isinstance(x, ast.Set) and len(x.elts) == 1:
            return f'[{self.e(x.elts[0])}]'
        if isinstance(x, ast.Call):
            f = x.func
            if isinstance(f, ast.Name):
                if f.id == 'set' and not x.args:
                    return '[]'
                if f.id in CLASSES:
                    lean, fields = CLASSES[f.id]
                    args = {}
                    for fld, a in zip(fields, x.args):
                        args[fld] = a
                    for kw in x.keywords:
                        args[kw.arg] = kw.value
                    if set(args) != set(fields):
                        raise TrErr('constructor call ' + ast.unparse(x))
                    parts = []
                    for fld in fields:
                        a = args[fld]
                        # var=EVar(evar_id) / var=SVar(svar_id): the id
                        if isinstance(a, ast.Call) and isinstance(a.func, ast.Name) and a.func.id in ('EVar', 'SVar') and fld == 'var':
                            parts.append(self.e(a.args[0]))
                        else:
                            parts.append(self.e(a))
                    return f'(Pat.{lean} {" ".join(parts)})'
            if isinstance(f, ast.Attribute):
                if f.attr == 'union' and len(x.args) == 1:
                    return f'({self.e(f.value)} ++ {self.e(x.args[0])})'
                if f.attr in METHODS:
                    recv = self.e(f.value)
                    args = []
                    for a in x.args:
                        # the id of a variable object: self.var.name
                        args.append(self.e(a))
                    return f'({f.attr} {recv} {" ".join(args)})'.replace(' )', ')')
            raise TrErr('call ' + ast.unparse(x))
        raise TrErr('expression ' + ast.unparse(x))

    def body(self, stmts):
        stmts = [s for s in stmts if not (isinstance(s, ast.Expr) and isinstance(s.value, ast.Constant))]
        if not stmts:
            raise TrErr('empty body')
        s = stmts[0]
        if isinstance(s, ast.Return):
            return self.e(s.value)
        if isinstance(s, ast.Assert):
            # only `assert self.can_be_replaced_by(...)`, which is `True` (checked separately)
            t = s.test
            if isinstance(t, ast.Call) and isinstance(t.func, ast.Attribute) and t.func.attr == 'can_be_replaced_by':
                return self.body(stmts[1:])
            raise TrErr('assert ' + ast.unparse(t))
        if isinstance(s, ast.If):
            if s.orelse:
                return f'(if {self.e(s.test)} then {self.body(s.body)} else {self.body(s.orelse)})'
            return f'(if {self.e(s.test)} then {self.body(s.body)} else {self.body(stmts[1:])})'
        raise TrErr('statement ' + type(s).__name__)


def gen_py_pattern():
    problems = []
    src = open(os.path.join(core.PYSRC, 'proof_generation/pattern.py')).read()
    tree = ast.parse(src)
    classes = {n.name: n for n in tree.body if isinstance(n, ast.ClassDef)}
    arms = {m: [] for m in METHODS}
    okk = True
    for cls, (lean, fields) in CLASSES.items():
        node = classes.get(cls)
        if node is None:
            problems.append(f'PyPattern: class {cls} not found'); okk = False
            continue
        meths = {n.name: n for n in node.body if isinstance(n, ast.FunctionDef)}
        if cls == 'MetaVar':
            cb = meths.get('can_be_replaced_by')
            if cb is None or ast.unparse(cb.body[-1]) != 'return True':
                problems.append('PyPattern: MetaVar.can_be_replaced_by is no longer the stub `return True`: the model of instantiate/match must be revisited')
                okk = False
        for m, (ret, params) in METHODS.items():
            fn = meths.get(m)
            if fn is None:
                problems.append(f'PyPattern: {cls}.{m} not found'); okk = False
                continue
            got = [a.arg for a in fn.args.args[1:]]
            if got != params:
                problems.append(f'PyPattern: {cls}.{m} has parameters {got}, expected {params}'); okk = False
                continue
            try:
                expr = Tr(cls, params).body(fn.body)
            except TrErr as e:
                problems.append(f'PyPattern: {cls}.{m}: {e}'); okk = False
                continue
            binders = ' '.join('b_' + f for f in fields)
            arms[m].append(f'  | p@(.{lean} {binders}){"".join(", a_" + q for q in params)} => {expr}')
    lines = ['import Pi2.Notation',
             '/-! GENERATED by /verif/vlib/transpy.py from the notation-free pattern classes of',
             'generation/src/proof_generation/pattern.py (method by method, class by class) — do not edit.',
             '`Pi2/PyTie.lean` proves these equal to the hand-written `Py.esub`, `Py.ssub`, `Py.inst`, `Py.metavars`. -/',
             'namespace Gen.Py', 'set_option linter.unusedVariables false']
    if okk:
        sig = {'evar_is_free': 'Pat → VId → Bool', 'metavars': 'Pat → List VId', 'apply_esubst': 'Pat → VId → Pat → Pat',
               'apply_ssubst': 'Pat → VId → Pat → Pat', 'instantiate': 'Pat → List (Nat × Pat) → Pat'}
        for m in ORDER:
            lines.append(f'def {m} : {sig[m]}')
            lines += arms[m]
    lines.append(f'def translated : Bool := {"true" if okk else "false"}')
    lines.append('end Gen.Py')
    from .translate import _write_if_changed, GEN
    _write_if_changed(os.path.join(GEN, 'PyPattern.lean'), '\n'.join(lines) + '\n')
    return problems


if __name__ == '__main__':
    print(gen_py_pattern())
