"""Translator for C10: the schematic methods of proofs/propositional.py and tautology.py (Python `ast`) -> values of the
Lean type `Lem.Def` (Pi2/Lemma.lean), and their docstring schemas -> `Lem.Spec`.  Regenerated on every run: a change of a
lemma body changes the generated definitions, and the kernel re-checks every `Spec.holds` obligation.

A method is *schematic* when its body fits the straight-line language (pattern expressions, calls of other schematic
methods, modus_ponens, instantiated axioms, Implies.extract / N.assert_matches destructuring, assert a == b).  Methods
that do not fit (integer parameters, loops, matching with `match_single`, recursion) are reported as opaque."""
from __future__ import annotations

import ast
import os
import re

from . import core

FILES = [('proof_generation/proofs/propositional.py', 'Propositional'), ('proof_generation/tautology.py', 'Tautology')]
PCTOR = {'Implies': ('imp', 2), 'neg': ('neg', 1), 'bot': ('bot', 0), 'top': ('top', 0), '_and': ('and', 2), '_or': ('or', 2), 'equiv': ('equiv', 2)}
NOTN = {'neg': ('neg', 1), '_and': ('and', 2), '_or': ('or', 2), 'equiv': ('equiv', 2)}
# parameters whose name is not the letter the docstring uses
PARAM_LETTER = {
    ('imim_l', 'pat'): 'c', ('imim_and_r', 'pat'): 'a', ('imim_and_l', 'pat'): 'c', ('imim_or_r', 'pat'): 'a', ('imim_or_l', 'pat'): 'c',
    ('*', 'pat1'): 'a', ('*', 'pat2'): 'b', ('*', 'pat3'): 'c',
}


class Opaque(Exception):
    pass


class Method:
    def __init__(self, cls, node):
        self.cls, self.node, self.name = cls, node, node.name
        self.params = []       # (name, kind 'P'|'T', default index or None)
        args = node.args.args[1:]
        defaults = [None] * (len(args) - len(node.args.defaults)) + list(node.args.defaults)
        self.sig_ok = True
        for a, d in zip(args, defaults):
            ann = ast.unparse(a.annotation) if a.annotation is not None else ''
            if ann == 'Pattern':
                kind = 'P'
            elif ann == 'ProofThunk':
                kind = 'T'
            else:
                self.sig_ok = False
                kind = '?'
            dv = None
            if d is not None:
                m = re.fullmatch(r'phi(\d+)', ast.unparse(d))
                if m:
                    dv = int(m.group(1))
                else:
                    self.sig_ok = False
            self.params.append((a.arg, kind, dv))
        ret = ast.unparse(node.returns) if node.returns is not None else ''
        if ret != 'ProofThunk':
            self.sig_ok = False
        self.doc = ast.get_docstring(node)


def load_methods():
    out = {}
    for rel, cls in FILES:
        tree = ast.parse(open(os.path.join(core.PYSRC, rel)).read())
        for n in tree.body:
            if isinstance(n, ast.ClassDef) and n.name == cls:
                for m in n.body:
                    if isinstance(m, ast.FunctionDef) and m.name != '__init__':
                        out[m.name] = Method(cls, m)       # a subclass override replaces the inherited method
    return out


class Translator:
    def __init__(self, methods):
        self.methods = methods
        self.defs = []          # translated, in dependency order: (name, nP, nT, body, ret)
        self.index = {}
        self.opaque = {}
        self.visiting = set()

    def translate(self, name):
        if name in self.index or name in self.opaque:
            return
        m = self.methods[name]
        if not m.sig_ok:
            self.opaque[name] = 'signature is not (Pattern | ProofThunk)* -> ProofThunk'
            return
        if name in self.visiting:
            self.opaque[name] = 'recursive'
            return
        self.visiting.add(name)
        try:
            d = self.body(m)
            self.index[name] = len(self.defs)
            self.defs.append(d)
        except Opaque as e:
            self.opaque[name] = str(e)
        finally:
            self.visiting.discard(name)

    # ---- one method
    def body(self, m):
        penv = [p for p, k, _ in m.params if k == 'P']
        tenv = [p for p, k, _ in m.params if k == 'T']
        nP, nT = len(penv), len(tenv)
        stmts = []
        self.cur_stmts = stmts
        ret = None
        body = list(m.node.body)
        if body and isinstance(body[0], ast.Expr) and isinstance(body[0].value, ast.Constant) and isinstance(body[0].value.value, str):
            body = body[1:]
        for st in body:
            if ret is not None:
                raise Opaque('statements after return')
            if isinstance(st, ast.Return):
                ret = self.te(st.value, penv, tenv)
            elif isinstance(st, ast.Expr):
                self.pe(st.value, penv, tenv)        # a bare expression (no effect)
            elif isinstance(st, ast.Assert):
                t = st.test
                if not (isinstance(t, ast.Compare) and len(t.ops) == 1 and isinstance(t.ops[0], ast.Eq)):
                    raise Opaque('assert that is not an equality')
                stmts.append('.assertEq %s %s' % (self.pe(t.left, penv, tenv), self.pe(t.comparators[0], penv, tenv)))
            elif isinstance(st, ast.Assign) and len(st.targets) == 1:
                tg, v = st.targets[0], st.value
                if isinstance(tg, ast.Tuple):
                    names = [e.id if isinstance(e, ast.Name) else None for e in tg.elts]
                    if None in names:
                        raise Opaque('tuple target')
                    if isinstance(v, ast.Call) and ast.unparse(v.func) == 'Implies.extract' and len(names) == 2:
                        stmts.append('.extractImp %s' % self.pe(v.args[0], penv, tenv))
                    elif isinstance(v, ast.Call) and isinstance(v.func, ast.Attribute) and v.func.attr == 'assert_matches' and \
                            ast.unparse(v.func.value) in NOTN and NOTN[ast.unparse(v.func.value)][1] == len(names):
                        stmts.append('.matchNot .%s %s' % (NOTN[ast.unparse(v.func.value)][0], self.pe(v.args[0], penv, tenv)))
                    else:
                        raise Opaque('destructuring of ' + ast.unparse(v)[:40])
                    penv += names
                elif isinstance(tg, ast.Name):
                    if isinstance(v, ast.Subscript) and isinstance(v.value, ast.Call) and isinstance(v.value.func, ast.Attribute) and \
                            v.value.func.attr == 'assert_matches' and ast.unparse(v.value.func.value) == 'neg' and ast.unparse(v.slice) == '0':
                        stmts.append('.matchNot .neg %s' % self.pe(v.value.args[0], penv, tenv))
                        penv.append(tg.id)
                    elif self.is_thunk_expr(v, tenv):
                        stmts.append('.letT %s' % self.te(v, penv, tenv))
                        tenv.append(tg.id)
                    else:
                        stmts.append('.letP %s' % self.pe(v, penv, tenv))
                        penv.append(tg.id)
                else:
                    raise Opaque('assignment target')
            else:
                raise Opaque('statement ' + type(st).__name__)
        if ret is None:
            raise Opaque('no return')
        return (m.name, nP, nT, stmts, ret)

    def is_thunk_expr(self, v, tenv):
        if isinstance(v, ast.Name):
            return v.id in tenv
        return isinstance(v, ast.Call) and isinstance(v.func, ast.Attribute) and isinstance(v.func.value, ast.Name) and v.func.value.id == 'self'

    def pe(self, e, penv, tenv):
        if isinstance(e, ast.Name):
            m = re.fullmatch(r'phi(\d+)', e.id)
            if m and e.id not in penv:
                return '(.mv %s)' % m.group(1)
            if e.id in penv:
                return '(.pvar %d)' % (len(penv) - 1 - penv[::-1].index(e.id))     # the latest binding of the name
            raise Opaque(f'unknown pattern name {e.id}')
        if isinstance(e, ast.Attribute) and e.attr == 'conc' and isinstance(e.value, ast.Name) and e.value.id in tenv:
            return '(.concOf %d)' % (len(tenv) - 1 - tenv[::-1].index(e.value.id))
        if isinstance(e, ast.Subscript) and isinstance(e.value, ast.Call) and isinstance(e.value.func, ast.Attribute) and \
                e.value.func.attr == 'assert_matches' and ast.unparse(e.value.func.value) == 'neg' and ast.unparse(e.slice) == '0':
            # neg.assert_matches(x)[0] used as an expression: bind it to an anonymous local first
            inner = self.pe(e.value.args[0], penv, tenv)
            self.cur_stmts.append('.matchNot .neg %s' % inner)
            penv.append(None)
            return '(.pvar %d)' % (len(penv) - 1)
        if isinstance(e, ast.Call) and isinstance(e.func, ast.Name):
            f = e.func.id
            if f == 'MetaVar' and len(e.args) == 1 and isinstance(e.args[0], ast.Constant):
                return '(.mv %d)' % e.args[0].value
            if f in PCTOR and PCTOR[f][1] == len(e.args) and not e.keywords:
                nm = PCTOR[f][0]
                if not e.args:
                    return '.' + nm
                return '(.%s %s)' % (nm, ' '.join(self.pe(a, penv, tenv) for a in e.args))
        raise Opaque('pattern expression ' + ast.unparse(e)[:50])

    def te(self, e, penv, tenv):
        if isinstance(e, ast.Name):
            if e.id in tenv:
                return '(.tvar %d)' % (len(tenv) - 1 - tenv[::-1].index(e.id))
            raise Opaque(f'unknown thunk name {e.id}')
        if not (isinstance(e, ast.Call) and isinstance(e.func, ast.Attribute) and isinstance(e.func.value, ast.Name) and e.func.value.id == 'self'):
            raise Opaque('thunk expression ' + ast.unparse(e)[:50])
        if e.keywords:
            raise Opaque('keyword arguments')
        f = e.func.attr
        if f == 'modus_ponens' and len(e.args) == 2:
            return '(.mp %s %s)' % (self.te(e.args[0], penv, tenv), self.te(e.args[1], penv, tenv))
        if f == 'dynamic_inst' and len(e.args) == 2:
            base, sub = ast.unparse(e.args[0]), e.args[1]
            if isinstance(sub, ast.Call) and ast.unparse(sub.func) == '_build_subst' and len(sub.args) == 1 and isinstance(sub.args[0], ast.List):
                ps = [self.pe(a, penv, tenv) for a in sub.args[0].elts]
                mm = re.fullmatch(r'self\.prop([123])\(\)', base)
                if mm and len(ps) == {'1': 2, '2': 3, '3': 1}[mm.group(1)]:
                    return '(.prop%s %s)' % (mm.group(1), ' '.join(ps))
                mm = re.fullmatch(r'self\.load_axiom_by_index\((\d+)\)', base)
                if mm:
                    return '(.axiomInst %s [%s])' % (mm.group(1), ', '.join(ps))
            raise Opaque('dynamic_inst of ' + ast.unparse(e)[:60])
        if f in self.methods:
            self.translate(f)
            if f not in self.index:
                raise Opaque(f'calls {f}, which is opaque ({self.opaque.get(f)})')
            callee = self.methods[f]
            if len(e.args) > len(callee.params):
                raise Opaque('too many arguments')
            ps, ts = [], []
            for i, (pn, kind, dv) in enumerate(callee.params):
                if i < len(e.args):
                    if kind == 'P':
                        ps.append(self.pe(e.args[i], penv, tenv))
                    else:
                        ts.append(self.te(e.args[i], penv, tenv))
                else:
                    if dv is None or kind != 'P':
                        raise Opaque(f'missing argument {pn} of {f}')
                    ps.append('(.mv %d)' % dv)
            return '(.call %d [%s] [%s])' % (self.index[f], ', '.join(ps), ', '.join(ts))
        raise Opaque(f'call of self.{f}')


# ---- docstring schemas -----------------------------------------------------------------------------------------

TOK = re.compile(r'\s*(<->|->|/\\|\\/|~|\(|\)|[A-Za-z][A-Za-z0-9_]*)')


def parse_formula(s):
    toks, pos = [], 0
    s = s.strip()
    while pos < len(s):
        m = TOK.match(s, pos)
        if not m:
            raise ValueError(f'cannot tokenize {s[pos:]!r}')
        toks.append(m.group(1)); pos = m.end()
    i = 0

    def peek():
        return toks[i] if i < len(toks) else None

    def eat(t=None):
        nonlocal i
        x = toks[i]
        if t is not None and x != t:
            raise ValueError(f'expected {t} got {x}')
        i += 1
        return x

    def equiv():
        a = imp()
        if peek() == '<->':
            eat(); b = imp()
            return ('equiv', a, b)
        return a

    def imp():
        a = disj()
        if peek() == '->':
            eat(); b = imp()
            return ('imp', a, b)
        return a

    def disj():
        a = conj()
        while peek() == '\\/':
            eat(); a = ('or', a, conj())
        return a

    def conj():
        a = unary()
        while peek() == '/\\':
            eat(); a = ('and', a, unary())
        return a

    def unary():
        if peek() == '~':
            eat(); return ('neg', unary())
        if peek() == '(':
            eat(); a = equiv(); eat(')'); return a
        x = eat()
        if x in ('bot',):
            return ('bot',)
        if x in ('top', 'T'):
            return ('top',)
        if not re.fullmatch(r'[a-z]', x):
            raise ValueError(f'not a schema variable: {x}')
        return ('var', x)
    r = equiv()
    if i != len(toks):
        raise ValueError('trailing tokens ' + ' '.join(toks[i:]))
    return r


def docstring_schema(doc):
    """-> (premise formulas, conclusion formula) as strings"""
    lines = [l.rstrip() for l in doc.replace('\\\\', '\\').splitlines()]
    lines = [l for l in lines if l.strip()]
    bar = [k for k, l in enumerate(lines) if re.fullmatch(r'\s*-{3,}\s*', l)]
    if bar:
        if len(bar) != 1 or bar[0] == 0 or bar[0] + 1 >= len(lines):
            raise ValueError('unexpected rule layout')
        prem = ' '.join(lines[:bar[0]])
        concl = ' '.join(lines[bar[0] + 1:])
        prems = [p for p in re.split(r'\s{2,}', prem.strip()) if p]
        return prems, concl.strip()
    if len(lines) != 1:
        raise ValueError('free text')
    line = re.split(r'\s{3,}or, alternatively', lines[0])[0]
    return [], line.strip()


def vars_of(f, acc):
    if f[0] == 'var':
        if f[1] not in acc:
            acc.append(f[1])
    else:
        for x in f[1:]:
            vars_of(x, acc)
    return acc


def to_pat(f, env):
    k = f[0]
    if k == 'var':
        return '(phi %d)' % env[f[1]]
    if k == 'bot':
        return 'Lem.botP'
    if k == 'top':
        return 'Lem.topP'
    if k == 'neg':
        return '(Lem.negP %s)' % to_pat(f[1], env)
    if k == 'imp':
        return '(.imp %s %s)' % (to_pat(f[1], env), to_pat(f[2], env))
    return '(Lem.%sP %s %s)' % (k, to_pat(f[1], env), to_pat(f[2], env))


def make_spec(m, idx):
    """-> (lean Spec text, None) or (None, reason)"""
    if not m.doc:
        return None, 'no docstring'
    try:
        prems, concl = docstring_schema(m.doc)
        pf = [parse_formula(p) for p in prems]
        cf = parse_formula(concl)
    except ValueError as e:
        return None, f'docstring is not a schema ({e})'
    pparams = [p for p, k, _ in m.params if k == 'P']
    tparams = [p for p, k, _ in m.params if k == 'T']
    if len(pf) != len(tparams):
        return None, f'{len(pf)} premises in the docstring, {len(tparams)} thunk parameters'
    letters = []
    for f in pf + [cf]:
        vars_of(f, letters)
    env = {}
    for i, p in enumerate(pparams):
        letter = PARAM_LETTER.get((m.name, p), PARAM_LETTER.get(('*', p), p))
        if letter not in letters:
            return None, f'parameter {p} does not occur in the documented schema'
        if letter in env:
            return None, f'two parameters for schema variable {letter}'
        env[letter] = i
    nxt = len(pparams)
    for l in letters:
        if l not in env:
            env[l] = nxt; nxt += 1
    txt = '{ name := "%s", idx := %d, params := [%s], premises := [%s], concl := %s }' % (
        m.name, idx, ', '.join('phi %d' % i for i in range(len(pparams))), ', '.join(to_pat(f, env) for f in pf), to_pat(cf, env))
    return txt, None


def gen_lemmas():
    problems = []
    methods = load_methods()
    tr = Translator(methods)
    for name in methods:
        tr.translate(name)
    specs, nospec = [], {}
    for name, idx in tr.index.items():
        txt, why = make_spec(methods[name], idx)
        if txt:
            specs.append(txt)
        else:
            nospec[name] = why
    lines = ['import Pi2.LemmaDefs',
             '/-! GENERATED by /verif/vlib/translemma.py from proofs/propositional.py and tautology.py (Python `ast`): the body of every',
             'schematic method as a `Lem.Def`, its documented schema as a `Lem.Spec` — do not edit. -/',
             'open Pat', 'namespace Gen',
             'def lemmaDefs : List Lem.Def := [']
    ents = []
    for (name, nP, nT, body, ret) in tr.defs:
        ents.append('  { name := "%s", nP := %d, nT := %d,\n    body := [%s],\n    ret := %s }' % (name, nP, nT, ', '.join(body), ret))
    lines.append(',\n'.join(ents))
    lines.append(']')
    lines.append('def lemmaSpecs : List Lem.Spec := [')
    lines.append(',\n'.join('  ' + s for s in specs))
    lines.append(']')
    lines.append('/-- methods that do not fit the straight-line language (decided by correspondence only) -/')
    lines.append('def opaqueMethods : List (String × String) := [%s]' % ', '.join('("%s", "%s")' % (k, v.replace('"', "'")) for k, v in sorted(tr.opaque.items())))
    lines.append('/-- translated methods without a machine-readable documented schema -/')
    lines.append('def undocumented : List (String × String) := [%s]' % ', '.join('("%s", "%s")' % (k, v.replace('"', "'")) for k, v in sorted(nospec.items())))
    lines.append('end Gen')
    from .translate import _write_if_changed, GEN
    _write_if_changed(os.path.join(GEN, 'Lemmas.lean'), '\n'.join(lines) + '\n')
    if len(tr.defs) < 40:
        problems.append(f'Lemmas: only {len(tr.defs)} methods translated')
    return problems, tr, nospec


if __name__ == '__main__':
    pr, tr, nospec = gen_lemmas()
    print(pr)
    print(len(tr.defs), 'translated;', len(tr.opaque), 'opaque;', len(nospec), 'without schema')
    for k, v in sorted(tr.opaque.items()):
        print('  opaque', k, '-', v)
    for k, v in sorted(nospec.items()):
        print('  noschema', k, '-', v)
