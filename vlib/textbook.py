"""Independent textbook definitions on *concrete* patterns (no metavariables, no pending substitutions):
free variables, polarity of set-variable occurrences, capture-naive substitution.  Oracle code."""


def concrete(p):
    k = p[0]
    if k in ('evar', 'svar', 'sym'):
        return True
    if k in ('imp', 'app'):
        return concrete(p[1]) and concrete(p[2])
    if k in ('ex', 'mu'):
        return concrete(p[2])
    return False


def fv_e(p):
    k = p[0]
    if k == 'evar':
        return {p[1]}
    if k in ('svar', 'sym'):
        return set()
    if k in ('imp', 'app'):
        return fv_e(p[1]) | fv_e(p[2])
    if k == 'ex':
        return fv_e(p[2]) - {p[1]}
    if k == 'mu':
        return fv_e(p[2])
    raise ValueError('not concrete')


def fv_s(p):
    k = p[0]
    if k == 'svar':
        return {p[1]}
    if k in ('evar', 'sym'):
        return set()
    if k in ('imp', 'app'):
        return fv_s(p[1]) | fv_s(p[2])
    if k == 'ex':
        return fv_s(p[2])
    if k == 'mu':
        return fv_s(p[2]) - {p[1]}
    raise ValueError('not concrete')


def occurrences(p, X, pol=True, out=None):
    """polarities (True = positive) of the free occurrences of set variable X"""
    if out is None:
        out = []
    k = p[0]
    if k == 'svar':
        if p[1] == X:
            out.append(pol)
    elif k == 'imp':
        occurrences(p[1], X, not pol, out); occurrences(p[2], X, pol, out)
    elif k == 'app':
        occurrences(p[1], X, pol, out); occurrences(p[2], X, pol, out)
    elif k == 'ex':
        occurrences(p[2], X, pol, out)
    elif k == 'mu':
        if p[1] != X:
            occurrences(p[2], X, pol, out)
    elif k in ('evar', 'sym'):
        pass
    else:
        raise ValueError('not concrete')
    return out


def subst_e(p, x, plug):
    k = p[0]
    if k == 'evar':
        return plug if p[1] == x else p
    if k in ('imp', 'app'):
        return (k, subst_e(p[1], x, plug), subst_e(p[2], x, plug))
    if k == 'ex':
        return p if p[1] == x else ('ex', p[1], subst_e(p[2], x, plug))
    if k == 'mu':
        return ('mu', p[1], subst_e(p[2], x, plug))
    return p


def subst_s(p, X, plug):
    k = p[0]
    if k == 'svar':
        return plug if p[1] == X else p
    if k in ('imp', 'app'):
        return (k, subst_s(p[1], X, plug), subst_s(p[2], X, plug))
    if k == 'ex':
        return ('ex', p[1], subst_s(p[2], X, plug))
    if k == 'mu':
        return p if p[1] == X else ('mu', p[1], subst_s(p[2], X, plug))
    return p


def captures_e(p, x, plug):
    """would substituting plug for x in p capture a free variable of plug?"""
    k = p[0]
    if k in ('imp', 'app'):
        return captures_e(p[1], x, plug) or captures_e(p[2], x, plug)
    if k == 'ex':
        if p[1] == x:
            return False
        return (x in fv_e(p[2]) and p[1] in fv_e(plug)) or captures_e(p[2], x, plug)
    if k == 'mu':
        return (x in fv_e(p[2]) and p[1] in fv_s(plug)) or captures_e(p[2], x, plug)
    return False


def captures_s(p, X, plug):
    k = p[0]
    if k in ('imp', 'app'):
        return captures_s(p[1], X, plug) or captures_s(p[2], X, plug)
    if k == 'mu':
        if p[1] == X:
            return False
        return (X in fv_s(p[2]) and p[1] in fv_s(plug)) or captures_s(p[2], X, plug)
    if k == 'ex':
        return (X in fv_s(p[2]) and p[1] in fv_e(plug)) or captures_s(p[2], X, plug)
    return False
