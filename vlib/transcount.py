"""Translator: `CountingInterpreter` (generation/src/proof_generation/counting_interpreter.py, Python `ast`) -> the Lean
functions of `Pi2/Gen/PyCount.lean` (namespace `Gen.PyCount`), statement by statement, regenerated on every run, with an
EXPLICIT model of iteration order.  `Pi2/CountDet.lean` proves that no set iteration order reaches the result.

Translated: the namedtuple `Stats`, `__init__` (-> the structure `Self` and `init`), the properties, `finalize` with its closure
`get_suitable` (lambda-lifted: `finalize_get_suitable`) and its `while` loop (`finalize_while1`), the recording methods
`evar` .. `instantiate_pattern`, `_collect_patterns`, `_compute_complexity_score`.  Target language: `Pi2/CountSupport.lean`.

Conventions
  * every function is written in `do` notation in `Option` (`none` = the Python code raises: `d[k]` on a missing key, `assert`,
    `xs.pop(0)` on an empty list, `RecursionError` = the `fuel` of a recursive method ran out).  A method that assigns to an
    attribute of `self` (or mutates one in place) takes `self : Self K` and returns the new `self` next to its value.
  * ITERATION ORDER.  A `dict` is an association list in insertion order, a `list` a `List`; iterating them is fixed.  A `set`
    is a listing that is only ever enumerated through `setIter orders tick s`: wherever the source iterates an expression whose
    static type is a set (`for x in s`, a comprehension over `s`, `list(s)`, `sorted(s, ..)`, `s.pop()`) the translator emits
    `let it<n> := setIter orders tick s` / `let tick := tick + 1` and iterates `it<n>`.  A function that (transitively) does so takes
    `(orders : Orders K) (tick : Nat)` and returns the new `tick`; `tick` is carried through every loop that contains such
    an iteration.  `a - b` with `a` a `dict.keys()` view or a set IS a set; `set(..)` is a set; `xs.sort(key=..)` is the STABLE
    sort `pySort` (ties keep the order of the input, so a sorted set-derived list still depends on the oracle).
  * `for x in xs: BODY` -> `xs.foldlM` over the variables BODY assigns to (those that exist before the loop; `self` first,
    `tick` last); a loop variable is not readable after the loop.  `while c: BODY` -> a separate function `<f>_while<k>`,
    recursive on a fuel argument; accepted only when `c` has a conjunct `v > 0` and BODY decrements `v` by one exactly once,
    unconditionally (then `v.toNat` is enough fuel).  `if` without `return` -> joined over the variables its branches assign;
    `if c: .. return` in tail position -> `if c then .. else REST`.
  * ALIASING.  The only mutable objects reachable from two places are the `used_patterns` dicts inside the `Stats` tuples stored
    in the one `dict[Pattern, Stats]` attribute (HOME).  A local `x = self.HOME[k]` (or the value variable of `self.HOME.items()`)
    is translated as a snapshot of the tuple (its `int` fields are immutable) PLUS the key it was read from (`x_key`): reading
    or writing `x.used_patterns` is a read / write of `self.HOME[x_key].used_patterns` at that moment ("live").  This is exact
    as long as the dict object stored under a key never changes identity, which the translator checks: `self.HOME[k] = v` is
    accepted only if `v` is `self.HOME[k]._replace(..)` without `used_patterns=`, or a fresh `Stats(.., used_patterns={})` under
    `if k not in self.HOME`.  (ASSUMPTION A1, discharged in `Pi2/CountDet.lean`: iterating `y.used_patterns.items()` while writing
    `x.used_patterns` is translated as iterating a snapshot — exact when `x_key != y_key`.)
  * `isinstance(p, Implies | App | Exists | Mu)`, `.left / .right / .subpattern` -> the class `PyPattern` (fields only under the
    matching test); `x = super().m(..)` in the method `m` -> the parameter `x` of the translated method (the `StatefulInterpreter`
    part of the state — stack, memory, claims — is `Gen.PyInterp`; this class only reads `memory`, in `finalize`).
Everything that is not recognised is reported as a problem and makes the generated file define `translated := false`."""
from __future__ import annotations

import ast
import os

from . import core

CLASS = 'CountingInterpreter'
RECORDING = ['evar', 'svar', 'symbol', 'metavar', 'implies', 'app', 'exists', 'mu', 'esubst', 'ssubst', 'prop1', 'prop2', 'prop3',
             'modus_ponens', 'instantiate', 'instantiate_pattern']
PROPERTIES = ['max_memory_slots', 'finalized', 'suggested_for_memoization']
EXPECTED = ['__init__'] + PROPERTIES + ['finalize'] + RECORDING + ['_collect_patterns', '_compute_complexity_score']
ORDER = ['_compute_complexity_score', '_collect_patterns'] + PROPERTIES + ['finalize'] + RECORDING

KEYWORDS = {'include', 'from', 'at', 'end', 'in', 'fun', 'match', 'do', 'then', 'else', 'have', 'show', 'open', 'variable',
            'omit', 'by', 'let', 'if', 'with', 'where', 'instance', 'class', 'structure', 'theorem', 'def', 'section',
            'namespace', 'import', 'export', 'prefix', 'infix', 'notation', 'macro', 'syntax', 'universe', 'mutual', 'local',
            'private', 'protected', 'partial', 'unsafe', 'axiom', 'example', 'abbrev', 'inductive', 'deriving', 'set_option',
            'attribute', 'return', 'for', 'unless', 'try', 'catch', 'finally', 'break', 'continue', 'nomatch', 'nofun', 'type',
            'Type', 'Prop', 'Sort', 'suffices', 'calc', 'using', 'extends', 'mut', 'this', 'exists', 'instantiate',
            'orders', 'tick', 'fuel', 'acc'}
PATTERN_CLASSES = {'Implies': ('isImplies', {'left', 'right'}), 'App': ('isApp', {'left', 'right'}),
                   'Exists': ('isExists', {'subpattern'}), 'Mu': ('isMu', {'subpattern'})}
PATTERN_ANNS = {'Pattern', 'EVar', 'SVar', 'Symbol', 'MetaVar', 'ESubst', 'SSubst', 'MetaVar | ESubst | SSubst', 'Implies', 'App',
                'Exists', 'Mu'}
POISON = 'POISON'


class TrErr(Exception):
    pass


def lname(n):
    return f'«{n}»' if n in KEYWORDS else n


def is_seq(t):
    return isinstance(t, tuple) and t[0] in ('list', 'set', 'keys')


def lean_ty(t):
    if t == 'K':
        return 'K'
    if t == 'int':
        return 'Int'
    if t == 'bool':
        return 'Bool'
    if t == 'unit':
        return 'Unit'
    if t == 'stats':
        return 'Stats K'
    if t == 'proved':
        return 'Proved K'
    if t == 'memitem':
        return 'MemItem K'
    if isinstance(t, tuple):
        if t[0] in ('list', 'keys'):
            return f'List {par(lean_ty(t[1]))}'
        if t[0] == 'set':
            return f'PySet {par(lean_ty(t[1]))}'
        if t[0] == 'dict':
            return f'PyDict {par(lean_ty(t[1]))} {par(lean_ty(t[2]))}'
        if t[0] == 'pair':
            return f'{par(lean_ty(t[1]))} × {par(lean_ty(t[2]))}'
        if t[0] == 'items':
            return f'List ({par(lean_ty(t[1]))} × {par(lean_ty(t[2]))})'
    raise TrErr(f'type {t}')


def par(s):
    s = s.strip()
    if not s:
        return s
    if s.isidentifier() or s.replace('.', '').replace('_', '').isalnum():
        return s
    if s[0] == '(' and _balanced_outer(s):
        return s
    if s[0] == '[' and s[-1] == ']' and s.count('[') == 1:
        return s
    if s[0] == '«' and s[-1] == '»' and s.count('«') == 1:
        return s
    return f'({s})'


def _balanced_outer(s):
    d = 0
    for i, ch in enumerate(s):
        if ch == '(':
            d += 1
        elif ch == ')':
            d -= 1
            if d == 0 and i != len(s) - 1:
                return False
    return d == 0 and s[-1] == ')'


def ann_ty(a):
    """type of an annotation (AST)"""
    if a is None:
        raise TrErr('missing annotation')
    s = ast.unparse(a)
    if s in PATTERN_ANNS:
        return 'K'
    if s == 'int':
        return 'int'
    if s == 'bool':
        return 'bool'
    if s == 'None':
        return 'unit'
    if s == 'Proved':
        return 'proved'
    if s in ('CountingInterpreter.Stats', 'Stats'):
        return 'stats'
    if isinstance(a, ast.Subscript):
        base = ast.unparse(a.value)
        if base in ('list', 'set', 'frozenset'):
            return ('set' if base != 'list' else 'list', ann_ty(a.slice))
        if base == 'dict' and isinstance(a.slice, ast.Tuple) and len(a.slice.elts) == 2:
            return ('dict', ann_ty(a.slice.elts[0]), ann_ty(a.slice.elts[1]))
    raise TrErr(f'annotation `{s}`')


class Flags:
    def __init__(self, ret='unit', params=()):
        self.mut = False
        self.orders = False
        self.fuel = False
        self.ret = ret
        self.params = list(params)      # [(lean name, type)] after self
        self.lean = None                # Lean name
        self.captures = []              # closures / lifted loops: [(name, type)]

    def key(self):
        return (self.mut, self.orders, self.fuel)


class Scope:
    """translation state of one function body (shared by nested blocks)"""
    def __init__(self, tr, fname, flags, lean_name):
        self.tr = tr
        self.fname = fname
        self.flags = flags
        self.lean_name = lean_name
        self.n = 0
        self.closures = {}      # python name -> Flags
        self.lifted = []        # text of lifted defs (emitted before the function)
        self.nwhile = 0
        self.reads = set()
        self.assign_count = {}

    def fresh(self, base):
        self.n += 1
        return f'{base}{self.n}'


class Env:
    def __init__(self, vars=None, alias=None, guards=None, notin=None):
        self.vars = dict(vars or {})        # name -> type (insertion order = binding order)
        self.alias = dict(alias or {})      # stats-typed local -> Lean name of the key it was read from
        self.guards = dict(guards or {})    # name -> set of pattern classes known by isinstance
        self.notin = set(notin or ())       # unparsed keys k known `not in self.HOME`

    def copy(self):
        return Env(self.vars, self.alias, {k: set(v) for k, v in self.guards.items()}, self.notin)

    def bind(self, name, ty):
        if name in self.vars:
            self.vars[name] = ty
        else:
            self.vars[name] = ty
        self.alias.pop(name, None)
        self.guards.pop(name, None)


class Out:
    def __init__(self):
        self.lines = []
        self.assigned = set()

    def emit(self, s, ind=0):
        for l in s.split('\n'):
            self.lines.append('  ' * ind + l)

    def extend(self, lines, ind=0):
        for l in lines:
            self.lines.append('  ' * ind + l)


def src1(node):
    """one-line rendering of a statement (header only for compound statements)"""
    if isinstance(node, ast.For):
        return f'for {ast.unparse(node.target)} in {ast.unparse(node.iter)}:'
    if isinstance(node, ast.While):
        return f'while {ast.unparse(node.test)}:'
    if isinstance(node, ast.If):
        return f'if {ast.unparse(node.test)}:'
    if isinstance(node, ast.FunctionDef):
        return f'def {node.name}({ast.unparse(node.args)}):'
    return ' '.join(ast.unparse(node).split())


def is_self_attr(e, attr=None):
    return (isinstance(e, ast.Attribute) and isinstance(e.value, ast.Name) and e.value.id == 'self'
            and (attr is None or e.attr == attr))


class FnTr:
    """translation of one function body"""

    def __init__(self, tr, scope):
        self.tr = tr
        self.scope = scope

    # ------------------------------------------------------------------------------------------ helpers
    @property
    def home(self):
        return self.tr.home

    def is_home(self, e):
        return self.home is not None and is_self_attr(e, self.home)

    def set_iteration(self, code, out, what, node):
        if out is None:
            raise TrErr(f'line {node.lineno}: a set is iterated inside a nested expression ({what})')
        self.scope.flags.orders = True
        it = self.scope.fresh('it')
        out.emit(f'-- SET ITERATION ({what}): the order is the oracle\'s choice number `tick`')
        out.emit(f'let {it} := setIter orders tick {par(code)}')
        out.emit('let tick := tick + 1')
        out.assigned.add('tick')
        self.tr.sites.append(f'{self.scope.fname}: {what}')
        return it

    def truthy(self, e, env, out):
        c, t = self.ex(e, env, out)
        if t == 'bool':
            return c
        if t == 'int':
            return f'decide ({c} ≠ 0)'
        if isinstance(t, tuple) and t[0] in ('list', 'set', 'dict', 'keys', 'items'):
            return f'!{par(c)}.isEmpty'
        raise TrErr(f'line {e.lineno}: truth value of a {t}')

    def nested(self, f):
        """translate with no room for pre-statements; returns code"""
        return f(None)

    def iterable(self, e, env, out, what):
        """-> (Lean list expression, element type, is_home_items)"""
        if isinstance(e, ast.Call) and isinstance(e.func, ast.Attribute) and e.func.attr in ('items', 'keys', 'values') \
                and not e.args and not e.keywords:
            c, t = self.ex(e.func.value, env, out)
            if not (isinstance(t, tuple) and t[0] == 'dict'):
                raise TrErr(f'line {e.lineno}: .{e.func.attr}() of a {t}')
            if e.func.attr == 'items':
                return f'dictItems {par(c)}', ('pair', t[1], t[2]), self.is_home(e.func.value)
            if e.func.attr == 'keys':
                return f'dictKeys {par(c)}', t[1], False
            return f'dictValues {par(c)}', t[2], False
        c, t = self.ex(e, env, out)
        if isinstance(t, tuple):
            if t[0] in ('list', 'keys'):
                return c, t[1], False
            if t[0] == 'dict':
                return f'dictKeys {par(c)}', t[1], False
            if t[0] == 'set':
                it = self.set_iteration(c, out, what, e)
                return it, t[1], False
        raise TrErr(f'line {e.lineno}: iteration over a {t}')

    def target_pat(self, tgt, elty, env, home_items):
        """binds the loop target in env; returns (Lean pattern, [extra let lines])"""
        extra = []
        if isinstance(tgt, ast.Name):
            env.bind(tgt.id, elty)
            return lname(tgt.id), extra
        if isinstance(tgt, ast.Tuple) and len(tgt.elts) == 2 and all(isinstance(x, ast.Name) for x in tgt.elts) \
                and isinstance(elty, tuple) and elty[0] == 'pair':
            a, b = tgt.elts
            env.bind(a.id, elty[1])
            env.bind(b.id, elty[2])
            if elty[2] == 'stats':
                if not home_items:
                    raise TrErr(f'line {tgt.lineno}: a Stats value that does not come from self.{self.home}')
                key = f'{b.id}_key'
                extra.append(f'let {key} := {lname(a.id)}')
                env.alias[b.id] = key
            return f'({lname(a.id)}, {lname(b.id)})', extra
        raise TrErr(f'line {tgt.lineno}: loop target `{ast.unparse(tgt)}`')

    # ------------------------------------------------------------------------------------------ expressions
    def ex(self, e, env, out):
        """-> (Lean term, type).  `out`: where pre-statements may be put (None = nowhere)"""
        if isinstance(e, ast.Name):
            if e.id not in env.vars:
                raise TrErr(f'line {e.lineno}: `{e.id}` is not (definitely) bound here')
            t = env.vars[e.id]
            if t == POISON:
                raise TrErr(f'line {e.lineno}: `{e.id}` is read after the loop that binds it')
            self.scope.reads.add(e.id)
            return lname(e.id), t
        if isinstance(e, ast.Constant):
            if isinstance(e.value, bool):
                return ('true' if e.value else 'false'), 'bool'
            if isinstance(e.value, int):
                return f'({e.value} : Int)', 'int'
            if e.value is None:
                return '()', 'unit'
            raise TrErr(f'line {e.lineno}: constant {e.value!r}')
        if isinstance(e, ast.Attribute):
            return self.ex_attr(e, env, out)
        if isinstance(e, ast.Subscript):
            c, t = self.ex(e.value, env, out)
            if isinstance(t, tuple) and t[0] == 'dict':
                k, kt = self.ex(e.slice, env, out)
                if kt != t[1]:
                    raise TrErr(f'line {e.lineno}: key of type {kt} in a dict keyed by {t[1]}')
                return f'(← dictGet {par(c)} {par(k)})', t[2]
            raise TrErr(f'line {e.lineno}: subscript of a {t}')
        if isinstance(e, ast.Call):
            return self.ex_call(e, env, out)
        if isinstance(e, ast.BinOp):
            a, ta = self.ex(e.left, env, out)
            b, tb = self.ex(e.right, env, out)
            if ta == 'int' and tb == 'int' and isinstance(e.op, (ast.Add, ast.Sub, ast.Mult)):
                op = {ast.Add: '+', ast.Sub: '-', ast.Mult: '*'}[type(e.op)]
                return f'({a} {op} {b})', 'int'
            if isinstance(ta, tuple) and isinstance(tb, tuple) and ta[0] == 'list' and tb[0] == 'list' and isinstance(e.op, ast.Add) \
                    and (ta[1] == tb[1] or None in (ta[1], tb[1])):
                return f'({a} ++ {b})', ('list', ta[1] if ta[1] is not None else tb[1])
            if isinstance(ta, tuple) and isinstance(tb, tuple) and tb[0] == 'set' and ta[1] == tb[1]:
                if isinstance(e.op, ast.Sub) and ta[0] in ('set', 'keys'):
                    return f'(setDiff {par(a)} {par(b)})', ('set', ta[1])
                if isinstance(e.op, ast.BitOr) and ta[0] == 'set':
                    return f'(setUnion {par(a)} {par(b)})', ('set', ta[1])
                if isinstance(e.op, ast.BitAnd) and ta[0] == 'set':
                    return f'(setInter {par(a)} {par(b)})', ('set', ta[1])
            raise TrErr(f'line {e.lineno}: `{ast.unparse(e)}` on {ta}, {tb}')
        if isinstance(e, ast.UnaryOp):
            if isinstance(e.op, ast.Not):
                return f'!{par(self.truthy(e.operand, env, out))}', 'bool'
            if isinstance(e.op, ast.USub):
                c, t = self.ex(e.operand, env, out)
                if t == 'int':
                    return f'(-{par(c)})', 'int'
            raise TrErr(f'line {e.lineno}: `{ast.unparse(e)}`')
        if isinstance(e, ast.BoolOp):
            codes = [self.truthy(e.values[0], env, out)] + [self.truthy(v, env, None) for v in e.values[1:]]
            isand = isinstance(e.op, ast.And)
            acc = codes[-1]
            for c in reversed(codes[:-1]):
                if '←' in acc:      # short circuit: the right operand may raise
                    acc = (f'(← (do if {c} then pure {par(acc)} else pure false))' if isand
                           else f'(← (do if {c} then pure true else pure {par(acc)}))')
                else:
                    acc = f'({c} {"&&" if isand else "||"} {acc})'
            return acc, 'bool'
        if isinstance(e, ast.Compare):
            return self.ex_compare(e, env, out)
        if isinstance(e, ast.IfExp):
            return self.ex_ifexp(e, env, out)
        if isinstance(e, (ast.ListComp, ast.SetComp, ast.GeneratorExp)):
            return self.ex_comp(e, env, out)
        if isinstance(e, ast.List) and not e.elts:
            return '[]', ('list', None)
        if isinstance(e, ast.Dict) and not e.keys:
            return '[]', ('dict', None, None)
        if isinstance(e, ast.List):
            cs = [self.ex(x, env, out) for x in e.elts]
            if len({t for _, t in cs}) == 1:
                return '[' + ', '.join(c for c, _ in cs) + ']', ('list', cs[0][1])
        raise TrErr(f'line {e.lineno}: expression `{ast.unparse(e)}`')

    def ex_attr(self, e, env, out):
        if is_self_attr(e):
            self.scope.reads.add('self')
            if e.attr in self.tr.self_fields:
                return f'self.{e.attr}', self.tr.self_fields[e.attr]
            if e.attr in self.tr.props:
                fl = self.tr.flags[e.attr]
                if fl.mut or fl.orders:
                    raise TrErr(f'line {e.lineno}: property `{e.attr}` with effects')
                return f'(← {fl.lean} self)', fl.ret
            raise TrErr(f'line {e.lineno}: attribute self.{e.attr}')
        c, t = self.ex(e.value, env, out)
        if t == 'stats' and e.attr in self.tr.stats_fields:
            ft = self.tr.stats_fields[e.attr]
            if ft in ('int', 'bool'):
                return f'{par(c)}.{e.attr}', ft
            # a mutable field: read it where it lives NOW
            if isinstance(e.value, ast.Name) and e.value.id in env.alias:
                self.scope.reads |= {'self', '@' + env.alias[e.value.id]}
                return f'(← dictGet self.{self.home} {env.alias[e.value.id]}).{e.attr}', ft
            if isinstance(e.value, ast.Subscript) and self.is_home(e.value.value):
                return f'{par(c)}.{e.attr}', ft
            raise TrErr(f'line {e.lineno}: `{ast.unparse(e)}`: a mutable field of a Stats value that is not tied to a key of self.{self.home}')
        if t == 'proved' and e.attr == 'conclusion':
            return f'{par(c)}.conclusion', 'K'
        if t == 'K' and isinstance(e.value, ast.Name):
            ok = [cl for cl, (_, fields) in PATTERN_CLASSES.items() if e.attr in fields]
            if ok and env.guards.get(e.value.id, set()) & set(ok):
                return f'(PyPattern.{e.attr} {c})', 'K'
            raise TrErr(f'line {e.lineno}: `{ast.unparse(e)}` outside an isinstance test that provides the field')
        raise TrErr(f'line {e.lineno}: attribute `{ast.unparse(e)}` of a {t}')

    def ex_compare(self, e, env, out):
        if len(e.ops) != 1:
            raise TrErr(f'line {e.lineno}: chained comparison')
        op, r = e.ops[0], e.comparators[0]
        a, ta = self.ex(e.left, env, out)
        b, tb = self.ex(r, env, out)
        if isinstance(op, (ast.In, ast.NotIn)):
            neg = '!' if isinstance(op, ast.NotIn) else ''
            if isinstance(tb, tuple) and tb[0] == 'dict' and tb[1] == ta:
                return f'{neg}(dictContains {par(b)} {par(a)})', 'bool'
            if isinstance(tb, tuple) and tb[0] == 'set' and tb[1] == ta:
                return f'{neg}(setContains {par(b)} {par(a)})', 'bool'
            if isinstance(tb, tuple) and tb[0] in ('list', 'keys') and tb[1] == ta and ta in ('K', 'int'):
                return f'{neg}(listContains {par(b)} {par(a)})', 'bool'
            raise TrErr(f'line {e.lineno}: `{ast.unparse(e)}` on {ta}, {tb}')
        sym = {ast.Gt: '>', ast.Lt: '<', ast.GtE: '≥', ast.LtE: '≤', ast.Eq: '=', ast.NotEq: '≠'}.get(type(op))
        if sym and ta == 'int' and tb == 'int':
            return f'decide ({a} {sym} {b})', 'bool'
        if sym in ('=', '≠') and ta == tb and ta in ('K', 'bool'):
            return f'decide ({a} {sym} {b})', 'bool'
        raise TrErr(f'line {e.lineno}: `{ast.unparse(e)}` on {ta}, {tb}')

    def ex_ifexp(self, e, env, out):
        t = e.test
        if isinstance(t, ast.Call) and isinstance(t.func, ast.Name) and t.func.id == 'isinstance' and len(t.args) == 2 \
                and isinstance(t.args[0], ast.Name) and ast.unparse(t.args[1]) == 'Proved' \
                and env.vars.get(t.args[0].id) == 'memitem':
            v = t.args[0].id
            e1, e2 = env.copy(), env.copy()
            e1.bind(v, 'proved')
            e2.bind(v, 'K')
            a, ta = self.ex(e.body, e1, None)
            b, tb = self.ex(e.orelse, e2, None)
            if ta != tb:
                raise TrErr(f'line {e.lineno}: branches of different types {ta}, {tb}')
            if '←' in a or '←' in b:
                raise TrErr(f'line {e.lineno}: raising branch of a conditional expression over Pattern | Proved')
            return f'(match {lname(v)} with | MemItem.proved {lname(v)} => {a} | MemItem.pattern {lname(v)} => {b})', ta
        c = self.truthy(t, env, out)
        a, ta = self.ex(e.body, env, None)
        b, tb = self.ex(e.orelse, env, None)
        if ta != tb:
            raise TrErr(f'line {e.lineno}: branches of different types {ta}, {tb}')
        if '←' in a or '←' in b:
            return f'(← (do if {c} then pure {par(a)} else pure {par(b)}))', ta
        return f'(if {c} then {a} else {b})', ta

    def captures(self, env, reads, carried, targets):
        """the variables of the enclosing function a lifted body reads: [(Lean name, Lean type)]"""
        caps = []
        if 'self' in reads and 'self' not in carried:
            caps.append(('self', 'Self K'))
        keys = set(env.alias.values())
        for n in env.vars:
            if n in ('self', 'tick') or n in carried or n in targets or env.vars[n] == POISON:
                continue
            if n in reads:
                caps.append((lname(n), lean_ty(env.vars[n])))
            if n in env.alias and '@' + env.alias[n] in reads:
                caps.append((env.alias[n], 'K'))
        return caps

    @staticmethod
    def cap_binders(caps, lines=()):
        txt = '\n'.join(l for l in lines if not l.strip().startswith('--'))
        pre = ''
        if 'orders' in txt.replace('(orders', ' orders').split():
            pre += ' (orders : Orders K)'
        if 'fuel' in txt.split():
            pre += ' (fuel : Nat)'
        return pre + ''.join(f' ({n} : {t})' for n, t in caps)

    @staticmethod
    def cap_args(caps, lines=()):
        txt = '\n'.join(l for l in lines if not l.strip().startswith('--'))
        pre = ''
        if 'orders' in txt.replace('(orders', ' orders').split():
            pre += ' orders'
        if 'fuel' in txt.split():
            pre += ' fuel'
        return pre + ''.join(f' {n}' for n, _ in caps)

    def ex_comp(self, e, env, out):
        if len(e.generators) != 1 or e.generators[0].is_async:
            raise TrErr(f'line {e.lineno}: comprehension with several generators')
        g = e.generators[0]
        kind = {ast.ListComp: 'list', ast.SetComp: 'set', ast.GeneratorExp: 'list'}[type(e)]
        itc, elty, home_items = self.iterable(g.iter, env, out, f'comprehension over `{ast.unparse(g.iter)}`')
        outer_reads = self.scope.reads
        self.scope.reads = set()
        try:
            env2 = env.copy()
            pat, extra = self.target_pat(g.target, elty, env2, home_items)
            conds = [self.truthy(c, env2, None) for c in g.ifs]
            elt, et = self.ex(e.elt, env2, None)
        finally:
            reads = self.scope.reads
            self.scope.reads = outer_reads | reads
        add = f'setAdd acc {par(elt)}' if kind == 'set' else f'acc ++ [{elt}]'
        ty = (kind, et)
        empty = f'(setEmpty : {lean_ty(ty)})' if kind == 'set' else f'([] : {lean_ty(ty)})'
        body = [f'pure ({add})']
        for c in reversed(conds):
            body = [f'if {c} then'] + ['  ' + l for l in body] + ['else pure acc']
        body = extra + body
        tnames = {n.id for n in ast.walk(g.target) if isinstance(n, ast.Name)}
        caps = self.captures(env, reads, set(), tnames)
        self.scope.ncomp = getattr(self.scope, 'ncomp', 0) + 1
        name = f'{self.scope.lean_name}_comp{self.scope.ncomp}'
        what = 'generator expression' if isinstance(e, ast.GeneratorExp) else f'{kind} comprehension'
        L = [f'/-- step of the {what} `{" ".join(ast.unparse(e).split())}` (line {e.lineno}) of `{self.scope.fname}`; `acc` = the elements collected so far -/',
             f'def {name}{self.cap_binders(caps, body)} : {par(lean_ty(ty))} → {par(lean_ty(elty))} → Option {par(lean_ty(ty))}',
             f'  | acc, {pat} => do'] + ['    ' + l for l in body]
        self.scope.lifted.append('\n'.join(L))
        return f'(← {par(itc)}.foldlM ({name}{self.cap_args(caps, body)}) {empty})', ty

    # ------------------------------------------------------------------------------------------ calls
    def call_fn(self, fl, argcodes, out, lineno, self_call=False):
        """call of a translated method / closure; returns the Lean term of its value (or None for a unit value)"""
        parts = [fl.lean]
        if fl.orders:
            self.scope.flags.orders = True
            parts += ['orders', 'tick']
        if fl.fuel or self_call:
            self.scope.flags.fuel = True
            parts.append('fuel')
        parts += [lname(n) for n, _ in fl.captures]
        for n, _ in fl.captures:
            self.scope.reads.add(n)
        parts.append('self')
        self.scope.reads.add('self')
        parts += [par(a) for a in argcodes]
        code = ' '.join(parts)
        if not fl.mut and not fl.orders:
            return f'(← {code})'
        if out is None:
            raise TrErr(f'line {lineno}: call of `{fl.lean}` (which has effects) inside a nested expression')
        comps = []
        r = None
        if fl.ret != 'unit':
            r = self.scope.fresh('r')
            comps.append(r)
        if fl.mut:
            comps.append('self')
            out.assigned.add('self')
            self.scope.flags.mut = True
        if fl.orders:
            comps.append('tick')
            out.assigned.add('tick')
        out.emit(f'let {tup(comps)} ← {code}')
        return r

    def ex_call(self, e, env, out):
        f = e.func
        kw = {k.arg: k.value for k in e.keywords}
        if isinstance(f, ast.Name):
            if f.id in self.scope.closures and not e.args and not kw:
                fl = self.scope.closures[f.id]
                r = self.call_fn(fl, [], out, e.lineno)
                return (r if r is not None else '()'), fl.ret
            if f.id == 'len' and len(e.args) == 1 and not kw:
                c, t = self.ex(e.args[0], env, out)
                if isinstance(t, tuple) and t[0] in ('list', 'set', 'dict', 'keys'):
                    return f'({par(c)}.length : Int)', 'int'
                raise TrErr(f'line {e.lineno}: len of a {t}')
            if f.id == 'isinstance' and len(e.args) == 2 and isinstance(e.args[0], ast.Name):
                v, cl = e.args[0].id, ast.unparse(e.args[1])
                c, t = self.ex(e.args[0], env, out)
                if t == 'K' and cl in PATTERN_CLASSES:
                    return f'(PyPattern.{PATTERN_CLASSES[cl][0]} {c})', 'bool'
                raise TrErr(f'line {e.lineno}: `{ast.unparse(e)}` for a {t}')
            if f.id == 'sum' and len(e.args) == 1 and not kw:
                c, t = self.ex(e.args[0], env, out)
                if t == ('list', 'int'):
                    return f'(pySum {par(c)})', 'int'
                raise TrErr(f'line {e.lineno}: sum of a {t}')
            if f.id in ('set', 'frozenset') and not kw:
                if not e.args:
                    return 'setEmpty', ('set', None)
                c, t = self.ex(e.args[0], env, out)
                if isinstance(t, tuple) and t[0] == 'set':
                    return c, t                       # a copy: the same elements (the listing is never observed)
                if isinstance(t, tuple) and t[0] in ('list', 'keys'):
                    return f'(setOfList {par(c)})', ('set', t[1])
                if isinstance(t, tuple) and t[0] == 'dict':
                    return f'(setOfList (dictKeys {par(c)}))', ('set', t[1])
                raise TrErr(f'line {e.lineno}: set of a {t}')
            if f.id == 'list' and len(e.args) == 1 and not kw:
                c, elty, _ = self.iterable(e.args[0], env, out, f'`{ast.unparse(e)}`')
                return c, ('list', elty)
            if f.id == 'sorted' and len(e.args) == 1:
                c, elty, _ = self.iterable(e.args[0], env, out, f'`{ast.unparse(e)}`')
                return self.sort_code(c, elty, kw, env, out, e), ('list', elty)
            raise TrErr(f'line {e.lineno}: call of `{f.id}`')
        if isinstance(f, ast.Attribute):
            # constructor of the namedtuple
            if ast.unparse(f) in (f'{CLASS}.{self.tr.stats_name}', self.tr.stats_name) and not e.args:
                if set(kw) != set(self.tr.stats_fields):
                    raise TrErr(f'line {e.lineno}: `{ast.unparse(e)}`: not exactly the fields of {self.tr.stats_name}')
                items = []
                for fn, ft in self.tr.stats_fields.items():
                    if isinstance(ft, tuple):
                        if not (isinstance(kw[fn], ast.Dict) and not kw[fn].keys):
                            raise TrErr(f'line {e.lineno}: field {fn} is not initialised with a fresh `{{}}`')
                        items.append(f'{fn} := []')
                    else:
                        c, t = self.ex(kw[fn], env, out)
                        if t != ft:
                            raise TrErr(f'line {e.lineno}: field {fn}: {t} instead of {ft}')
                        items.append(f'{fn} := {c}')
                return '({ ' + ', '.join(items) + ' } : Stats K)', 'stats!fresh'
            # self.method(..)
            if is_self_attr(f) and f.attr in self.tr.flags and f.attr not in self.tr.props and not kw:
                fl = self.tr.flags[f.attr]
                args = []
                if len(e.args) != len(fl.params):
                    raise TrErr(f'line {e.lineno}: `{ast.unparse(e)}`: {len(fl.params)} argument(s) expected')
                for a, (_, pt) in zip(e.args, fl.params):
                    c, t = self.ex(a, env, out)
                    if t != pt:
                        raise TrErr(f'line {e.lineno}: argument of type {t} for a parameter of type {pt}')
                    args.append(c)
                r = self.call_fn(fl, args, out, e.lineno, self_call=(f.attr == self.scope.fname))
                return (r if r is not None else '()'), fl.ret
            if f.attr == '_replace' and not e.args:
                c, t = self.ex(f.value, env, out)
                if t != 'stats':
                    raise TrErr(f'line {e.lineno}: _replace of a {t}')
                items = []
                for fn, v in kw.items():
                    ft = self.tr.stats_fields.get(fn)
                    if ft is None or isinstance(ft, tuple):
                        raise TrErr(f'line {e.lineno}: `_replace({fn}=..)`: replacing a mutable field breaks the aliasing model')
                    vc, vt = self.ex(v, env, out)
                    if vt != ft:
                        raise TrErr(f'line {e.lineno}: field {fn}: {vt} instead of {ft}')
                    items.append(f'{fn} := {vc}')
                return '{ ' + par(c) + ' with ' + ', '.join(items) + ' }', 'stats'
            if f.attr in ('keys', 'items', 'values') and not e.args and not kw:
                c, t = self.ex(f.value, env, out)
                if isinstance(t, tuple) and t[0] == 'dict':
                    if f.attr == 'keys':
                        return f'(dictKeys {par(c)})', ('keys', t[1])
                    if f.attr == 'values':
                        return f'(dictValues {par(c)})', ('list', t[2])
                    return f'(dictItems {par(c)})', ('items', t[1], t[2])
                raise TrErr(f'line {e.lineno}: .{f.attr}() of a {t}')
            if f.attr == 'get' and len(e.args) == 2 and not kw:
                c, t = self.ex(f.value, env, out)
                if isinstance(t, tuple) and t[0] == 'dict':
                    k, kt = self.ex(e.args[0], env, out)
                    d, dt = self.ex(e.args[1], env, out)
                    if kt == t[1] and dt == t[2]:
                        return f'(dictGetD {par(c)} {par(k)} {par(d)})', t[2]
        raise TrErr(f'line {e.lineno}: call `{ast.unparse(e)}`')

    def sort_code(self, listcode, elty, kw, env, out, node):
        """the Lean term of the stably sorted list"""
        extra = set(kw) - {'key', 'reverse'}
        if extra:
            raise TrErr(f'line {node.lineno}: sort keyword {sorted(extra)}')
        rev = 'false'
        if 'reverse' in kw:
            r = kw['reverse']
            if not (isinstance(r, ast.Constant) and isinstance(r.value, bool)):
                raise TrErr(f'line {node.lineno}: `reverse=` is not a literal')
            rev = 'true' if r.value else 'false'
        if out is None:
            raise TrErr(f'line {node.lineno}: sort inside a nested expression')
        keys = self.scope.fresh('keys')
        if 'key' not in kw:
            if elty != 'int':
                raise TrErr(f'line {node.lineno}: sorting {elty} without a key (patterns are not ordered)')
            out.emit(f'let {keys} := {par(listcode)}')
        else:
            lam = kw['key']
            if not (isinstance(lam, ast.Lambda) and len(lam.args.args) == 1 and not lam.args.defaults):
                raise TrErr(f'line {node.lineno}: sort key is not a one-argument lambda')
            env2 = env.copy()
            v = lam.args.args[0].arg
            env2.bind(v, elty)
            kc, kt = self.ex(lam.body, env2, None)
            if kt != 'int':
                raise TrErr(f'line {node.lineno}: sort key of type {kt} (only an int key is modelled)')
            out.emit(f'let {keys} ← {par(listcode)}.mapM (fun {lname(v)} => do pure {par(kc)})')
        return f'(pySort {rev} ({par(listcode)}.zip {keys}))'


def tup(names):
    if not names:
        return '()'
    if len(names) == 1:
        return names[0]
    return '(' + ', '.join(names) + ')'


def always_returns(stmts):
    if not stmts:
        return False
    s = stmts[-1]
    if isinstance(s, ast.Return):
        return True
    if isinstance(s, ast.If):
        return always_returns(s.body) and always_returns(s.orelse)
    return False


def contains_return(stmts):
    for s in stmts:
        for n in ast.walk(s):
            if isinstance(n, ast.Return):
                return True
    return False


class FnTrS(FnTr):
    """statements"""

    def carried(self, assigned, env_before):
        names = [n for n in env_before.vars if n in assigned and env_before.vars[n] != POISON and n not in ('self', 'tick')]
        for n in names:
            if env_before.vars[n] in ('stats',):
                raise TrErr(f'a Stats-valued variable `{n}` is carried through a loop / join')
        return (['self'] if 'self' in assigned else []) + [lname(n) for n in names] + (['tick'] if 'tick' in assigned else [])

    def ref_key(self, ref, env, out):
        """the key under which the Stats tuple denoted by `ref` lives in self.HOME"""
        if isinstance(ref, ast.Name) and ref.id in env.alias:
            self.ex(ref, env, out)
            self.scope.reads |= {'self', '@' + env.alias[ref.id]}
            return env.alias[ref.id]
        if isinstance(ref, ast.Subscript) and self.is_home(ref.value):
            k, kt = self.ex(ref.slice, env, out)
            return par(k)
        raise TrErr(f'line {ref.lineno}: `{ast.unparse(ref)}` is not a Stats tuple tied to a key of self.{self.home}')

    def mut_field(self, node):
        """node = REF.FIELD with FIELD a mutable (dict) field of Stats -> (REF, FIELD) or None"""
        if isinstance(node, ast.Attribute) and not is_self_attr(node) and isinstance(self.tr.stats_fields.get(node.attr), tuple):
            return node.value, node.attr
        return None

    def write_field(self, key, field, new, out):
        h = f'self.{self.home}'
        out.emit(f'let self := {{ self with {self.home} := dictSet {h} {key} {{ (← dictGet {h} {key}) with {field} := {new} }} }}')
        out.assigned.add('self')
        self.scope.flags.mut = True

    def set_self(self, field, code, out):
        out.emit(f'let self := {{ self with {field} := {code} }}')
        out.assigned.add('self')
        self.scope.flags.mut = True

    def bind_local(self, name, code, ty, env, out, monadic=False, annot=None):
        if name in ('self',):
            raise TrErr('assignment to self')
        old = env.vars.get(name)
        if isinstance(ty, tuple) and None in ty:
            if annot is not None:
                ty = annot
            elif old not in (None, POISON) and isinstance(old, tuple) and old[0] == ty[0]:
                ty = old
            elif ty[0] in ('list', 'set') and len(ty) == 2:
                ty = (ty[0], 'K')       # un-annotated empty list / set: of patterns (a later use at another type is a type error)
            else:
                raise TrErr(f'`{name}`: element type of an empty container is unknown')
        elif annot is not None and annot != ty and not (is_seq(annot) and is_seq(ty) and annot[1] == ty[1] and annot[0] == ty[0]):
            raise TrErr(f'`{name}`: annotated {annot}, value {ty}')
        if old not in (None, POISON) and old != ty:
            raise TrErr(f'`{name}` changes its type from {old} to {ty}')
        if ty == 'stats!fresh':
            raise TrErr(f'`{name}`: a fresh Stats tuple outside self.{self.home}')
        self.scope.assign_count[name] = self.scope.assign_count.get(name, 0) + 1
        env.bind(name, ty)
        out.assigned.add(name)
        if isinstance(ty, tuple) and (code in ('[]', 'setEmpty')):
            out.emit(f'let {lname(name)} : {lean_ty(ty)} := {code}')
        else:
            out.emit(f'let {lname(name)} {"←" if monadic else ":="} {code}')

    # ------------------------------------------------------------------------------------------ blocks
    def block(self, stmts, env, out, finish):
        """translates stmts into out.  finish: None in a non-tail block (the caller appends the value of the block),
        else the function that emits the fall-through value of the enclosing FUNCTION"""
        i = 0
        while i < len(stmts):
            s = stmts[i]
            rest = stmts[i + 1:]
            if isinstance(s, ast.Expr) and isinstance(s.value, ast.Constant) and isinstance(s.value.value, str):
                i += 1
                continue
            out.emit(f'-- {src1(s)}')
            if isinstance(s, ast.Return):
                if finish is None:
                    raise TrErr(f'line {s.lineno}: `return` inside a loop or a joined `if`')
                if rest:
                    raise TrErr(f'line {s.lineno}: statements after `return`')
                self.do_return(s, env, out)
                return
            if isinstance(s, ast.If) and contains_return([s]):
                if finish is None:
                    raise TrErr(f'line {s.lineno}: `return` inside a loop or a joined `if`')
                if not always_returns(s.body):
                    raise TrErr(f'line {s.lineno}: an `if` whose body returns on some paths only')
                c = self.truthy(s.test, env, out)
                out.emit(f'if {c} then')
                sub = Out()
                self.block(s.body, self.guarded(env, s.test, True), sub, finish)
                out.extend(sub.lines, 1)
                out.emit('else')
                sub2 = Out()
                if s.orelse:
                    sub2.emit('-- else:')
                self.block(list(s.orelse) + rest, self.guarded(env, s.test, False), sub2, finish)
                out.extend(sub2.lines, 1)
                out.assigned |= sub.assigned | sub2.assigned
                return
            self.stmt(s, env, out)
            i += 1
        if finish is not None:
            finish(out, env)

    def guarded(self, env, test, positive):
        env2 = env.copy()
        t = test
        if isinstance(t, ast.Call) and isinstance(t.func, ast.Name) and t.func.id == 'isinstance' and len(t.args) == 2 \
                and isinstance(t.args[0], ast.Name) and positive:
            cl = ast.unparse(t.args[1])
            if cl in PATTERN_CLASSES:
                env2.guards.setdefault(t.args[0].id, set()).add(cl)
        if isinstance(t, ast.Compare) and len(t.ops) == 1 and self.is_home(t.comparators[0]):
            if (isinstance(t.ops[0], ast.NotIn) and positive) or (isinstance(t.ops[0], ast.In) and not positive):
                env2.notin.add(ast.unparse(t.left))
        return env2

    def do_return(self, s, env, out):
        fl = self.scope.flags
        comps = []
        if s.value is not None and not (isinstance(s.value, ast.Constant) and s.value.value is None):
            c, t = self.ex(s.value, env, out)
            if t != fl.ret and not (is_seq(t) and is_seq(fl.ret) and t[0] == fl.ret[0] and t[1] in (None, fl.ret[1])):
                raise TrErr(f'line {s.lineno}: returns a {t}, declared {fl.ret}')
            comps.append(c)
        elif fl.ret != 'unit':
            raise TrErr(f'line {s.lineno}: returns None, declared {fl.ret}')
        self.emit_result(comps, out)

    def emit_result(self, comps, out):
        fl = self.scope.flags
        comps = list(comps)
        if fl.mut:
            comps.append('self')
        if fl.orders:
            comps.append('tick')
        out.emit(f'pure {tup(comps)}')

    # ------------------------------------------------------------------------------------------ statements
    def stmt(self, s, env, out):
        if isinstance(s, ast.Pass):
            return
        if isinstance(s, ast.Assert):
            c = self.truthy(s.test, env, out)
            out.emit(f'pyAssert {par(c)}')
            return
        if isinstance(s, ast.AnnAssign) and s.value is not None and isinstance(s.target, ast.Name):
            return self.assign(s.target, s.value, env, out, ann_ty(s.annotation))
        if isinstance(s, ast.Assign) and len(s.targets) == 1:
            return self.assign(s.targets[0], s.value, env, out, None)
        if isinstance(s, ast.AugAssign):
            return self.augassign(s, env, out)
        if isinstance(s, ast.Expr) and isinstance(s.value, ast.Call):
            return self.call_stmt(s.value, env, out)
        if isinstance(s, ast.For) and not s.orelse:
            return self.for_stmt(s, env, out)
        if isinstance(s, ast.While) and not s.orelse:
            return self.while_stmt(s, env, out)
        if isinstance(s, ast.If):
            return self.if_join(s, env, out)
        if isinstance(s, ast.FunctionDef):
            return self.closure(s, env, out)
        raise TrErr(f'line {s.lineno}: statement `{src1(s)}`')

    def assign(self, tgt, value, env, out, annot):
        if isinstance(tgt, ast.Name):
            # x = xs.pop(0)
            if isinstance(value, ast.Call) and isinstance(value.func, ast.Attribute) and value.func.attr == 'pop' \
                    and isinstance(value.func.value, ast.Name) and not value.keywords:
                xs = value.func.value.id
                c, t = self.ex(value.func.value, env, out)
                if isinstance(t, tuple) and t[0] == 'list' and len(value.args) == 1 and isinstance(value.args[0], ast.Constant) \
                        and value.args[0].value == 0:
                    env.bind(tgt.id, t[1])
                    out.assigned |= {tgt.id, xs}
                    out.emit(f'let ({lname(tgt.id)}, {lname(xs)}) ← listPop0 {c}')
                    return
                if isinstance(t, tuple) and t[0] == 'set' and not value.args:
                    self.scope.flags.orders = True
                    self.tr.sites.append(f'{self.scope.fname}: `{ast.unparse(value)}`')
                    env.bind(tgt.id, t[1])
                    out.assigned |= {tgt.id, xs, 'tick'}
                    out.emit('-- SET ITERATION (pop): the element is the first one in the oracle\'s order')
                    out.emit(f'let ({lname(tgt.id)}, {lname(xs)}) ← setPop orders tick {c}')
                    out.emit('let tick := tick + 1')
                    return
                raise TrErr(f'line {value.lineno}: `{ast.unparse(value)}`')
            # x = self.HOME[k]: snapshot + the key it lives under
            if isinstance(value, ast.Subscript) and self.is_home(value.value):
                k, kt = self.ex(value.slice, env, out)
                key = f'{tgt.id}_key'
                out.emit(f'let {key} := {k}')
                self.bind_local(tgt.id, f'dictGet self.{self.home} {key}', 'stats', env, out, monadic=True)
                env.alias[tgt.id] = key
                self.scope.reads.add('self')
                return
            c, t = self.ex(value, env, out)
            if t == 'stats':
                raise TrErr(f'line {value.lineno}: `{tgt.id}` = a Stats value that is not `self.{self.home}[key]`')
            self.bind_local(tgt.id, c, t, env, out, annot=annot)
            return
        if is_self_attr(tgt):
            if tgt.attr not in self.tr.self_fields:
                raise TrErr(f'line {tgt.lineno}: assignment to the unknown attribute self.{tgt.attr}')
            c, t = self.ex(value, env, out)
            ft = self.tr.self_fields[tgt.attr]
            if t != ft and not (isinstance(t, tuple) and isinstance(ft, tuple) and t[0] == ft[0] and None in t):
                raise TrErr(f'line {tgt.lineno}: self.{tgt.attr}: {t} instead of {ft}')
            if tgt.attr == self.home:
                raise TrErr(f'line {tgt.lineno}: self.{self.home} is replaced as a whole')
            return self.set_self(tgt.attr, c, out)
        if isinstance(tgt, ast.Subscript):
            d = tgt.value
            # self.HOME[k] = v : the discipline that keeps the aliasing model exact
            if self.is_home(d):
                k, kt = self.ex(tgt.slice, env, out)
                c, t = self.ex(value, env, out)
                if t == 'stats!fresh':
                    if ast.unparse(tgt.slice) not in env.notin:
                        raise TrErr(f'line {tgt.lineno}: a fresh Stats tuple is stored under a key that may exist (aliasing model)')
                elif t == 'stats':
                    v = value
                    okr = (isinstance(v, ast.Call) and isinstance(v.func, ast.Attribute) and v.func.attr == '_replace'
                           and isinstance(v.func.value, ast.Subscript) and self.is_home(v.func.value.value)
                           and ast.dump(v.func.value.slice) == ast.dump(tgt.slice))
                    if not okr:
                        raise TrErr(f'line {tgt.lineno}: self.{self.home}[k] is assigned something else than self.{self.home}[k]._replace(..)')
                else:
                    raise TrErr(f'line {tgt.lineno}: self.{self.home}[k] = a {t}')
                return self.set_self(self.home, f'dictSet self.{self.home} {par(k)} {par(c)}', out)
            if is_self_attr(d) and isinstance(self.tr.self_fields.get(d.attr), tuple) and self.tr.self_fields[d.attr][0] == 'dict':
                ft = self.tr.self_fields[d.attr]
                k, kt = self.ex(tgt.slice, env, out)
                c, t = self.ex(value, env, out)
                if (kt, t) != (ft[1], ft[2]):
                    raise TrErr(f'line {tgt.lineno}: self.{d.attr}[{kt}] = {t}')
                return self.set_self(d.attr, f'dictSet self.{d.attr} {par(k)} {par(c)}', out)
            mf = self.mut_field(d)
            if mf:
                key = self.ref_key(mf[0], env, out)
                ft = self.tr.stats_fields[mf[1]]
                k, kt = self.ex(tgt.slice, env, out)
                c, t = self.ex(value, env, out)
                if (kt, t) != (ft[1], ft[2]):
                    raise TrErr(f'line {tgt.lineno}: {mf[1]}[{kt}] = {t}')
                return self.write_field(key, mf[1], f'dictSet (← dictGet self.{self.home} {key}).{mf[1]} {par(k)} {par(c)}', out)
            if isinstance(d, ast.Name):
                dc, dt = self.ex(d, env, out)
                if isinstance(dt, tuple) and dt[0] == 'dict':
                    k, kt = self.ex(tgt.slice, env, out)
                    c, t = self.ex(value, env, out)
                    if (kt, t) != (dt[1], dt[2]):
                        raise TrErr(f'line {tgt.lineno}: {d.id}[{kt}] = {t}')
                    return self.bind_local(d.id, f'dictSet {dc} {par(k)} {par(c)}', dt, env, out)
        raise TrErr(f'line {tgt.lineno}: assignment to `{ast.unparse(tgt)}`')

    def augassign(self, s, env, out):
        op = {ast.Add: '+', ast.Sub: '-', ast.Mult: '*'}.get(type(s.op))
        tgt = s.target
        if op is None:
            raise TrErr(f'line {s.lineno}: `{src1(s)}`')
        if isinstance(tgt, ast.Name):
            a, ta = self.ex(tgt, env, out)
            b, tb = self.ex(s.value, env, out)
            if ta == 'int' and tb == 'int':
                return self.bind_local(tgt.id, f'{a} {op} {par(b)}', 'int', env, out)
            raise TrErr(f'line {s.lineno}: `{src1(s)}` on {ta}, {tb}')
        if is_self_attr(tgt) and self.tr.self_fields.get(tgt.attr) == 'int':
            b, tb = self.ex(s.value, env, out)
            if tb != 'int':
                raise TrErr(f'line {s.lineno}: `{src1(s)}` with a {tb}')
            return self.set_self(tgt.attr, f'self.{tgt.attr} {op} {par(b)}', out)
        if isinstance(tgt, ast.Subscript):
            mf = self.mut_field(tgt.value)
            if mf:
                key = self.ref_key(mf[0], env, out)
                ft = self.tr.stats_fields[mf[1]]
                k, kt = self.ex(tgt.slice, env, out)
                b, tb = self.ex(s.value, env, out)
                if (kt, tb, ft[2]) != (ft[1], 'int', 'int'):
                    raise TrErr(f'line {s.lineno}: `{src1(s)}`: {mf[1]}[{kt}] {op}= {tb}')
                up = self.scope.fresh('up')
                out.emit(f'let {up} := (← dictGet self.{self.home} {key}).{mf[1]}')
                return self.write_field(key, mf[1], f'dictSet {up} {par(k)} ((← dictGet {up} {par(k)}) {op} {par(b)})', out)
            if isinstance(tgt.value, ast.Name):
                dc, dt = self.ex(tgt.value, env, out)
                if isinstance(dt, tuple) and dt[0] == 'dict' and dt[2] == 'int':
                    k, kt = self.ex(tgt.slice, env, out)
                    b, tb = self.ex(s.value, env, out)
                    if (kt, tb) == (dt[1], 'int'):
                        return self.bind_local(tgt.value.id, f'dictSet {dc} {par(k)} ((← dictGet {dc} {par(k)}) {op} {par(b)})',
                                               dt, env, out)
        raise TrErr(f'line {s.lineno}: `{src1(s)}`')

    def call_stmt(self, e, env, out):
        f = e.func
        if isinstance(f, ast.Attribute) and not e.keywords or (isinstance(f, ast.Attribute) and f.attr == 'sort'):
            obj = f.value
            # mutation of a local container
            if isinstance(obj, ast.Name) and obj.id in env.vars and obj.id != 'self':
                c, t = self.ex(obj, env, out)
                if isinstance(t, tuple) and t[0] == 'list' and f.attr == 'append' and len(e.args) == 1:
                    a, ta = self.ex(e.args[0], env, out)
                    if ta != t[1]:
                        raise TrErr(f'line {e.lineno}: appends a {ta} to a list of {t[1]}')
                    return self.bind_local(obj.id, f'{c} ++ [{a}]', t, env, out)
                if isinstance(t, tuple) and t[0] == 'set' and f.attr == 'add' and len(e.args) == 1:
                    a, ta = self.ex(e.args[0], env, out)
                    if t[1] is None:
                        t = ('set', ta)
                        env.vars[obj.id] = t
                    if ta != t[1]:
                        raise TrErr(f'line {e.lineno}: adds a {ta} to a set of {t[1]}')
                    return self.bind_local(obj.id, f'setAdd {c} {par(a)}', t, env, out)
                if isinstance(t, tuple) and t[0] == 'dict' and f.attr == 'setdefault' and len(e.args) == 2:
                    k, kt = self.ex(e.args[0], env, out)
                    v, vt = self.ex(e.args[1], env, out)
                    if (kt, vt) != (t[1], t[2]):
                        raise TrErr(f'line {e.lineno}: setdefault({kt}, {vt}) on {t}')
                    return self.bind_local(obj.id, f'dictSetDefault {c} {par(k)} {par(v)}', t, env, out)
                if isinstance(t, tuple) and t[0] == 'list' and f.attr == 'sort' and not e.args:
                    kw = {k.arg: k.value for k in e.keywords}
                    code = self.sort_code(c, t[1], kw, env, out, e)
                    return self.bind_local(obj.id, code, t, env, out)
                if isinstance(t, tuple) and t[0] == 'list' and f.attr == 'pop' and len(e.args) == 1 \
                        and isinstance(e.args[0], ast.Constant) and e.args[0].value == 0:
                    out.assigned.add(obj.id)
                    out.emit(f'let (_, {c}) ← listPop0 {c}')
                    return
                raise TrErr(f'line {e.lineno}: `{ast.unparse(e)}` on a {t}')
            # mutation of a container attribute of self
            if is_self_attr(obj) and obj.attr in self.tr.self_fields:
                ft = self.tr.self_fields[obj.attr]
                if isinstance(ft, tuple) and ft[0] == 'set' and f.attr == 'add' and len(e.args) == 1:
                    a, ta = self.ex(e.args[0], env, out)
                    if ta != ft[1]:
                        raise TrErr(f'line {e.lineno}: adds a {ta} to a set of {ft[1]}')
                    return self.set_self(obj.attr, f'setAdd self.{obj.attr} {par(a)}', out)
                raise TrErr(f'line {e.lineno}: `{ast.unparse(e)}`')
            # in-place mutation of a mutable field of a Stats tuple
            mf = self.mut_field(obj)
            if mf and f.attr == 'setdefault' and len(e.args) == 2:
                key = self.ref_key(mf[0], env, out)
                ft = self.tr.stats_fields[mf[1]]
                k, kt = self.ex(e.args[0], env, out)
                v, vt = self.ex(e.args[1], env, out)
                if (kt, vt) != (ft[1], ft[2]):
                    raise TrErr(f'line {e.lineno}: setdefault({kt}, {vt}) on {ft}')
                return self.write_field(key, mf[1], f'dictSetDefault (← dictGet self.{self.home} {key}).{mf[1]} {par(k)} {par(v)}', out)
        # a call for its effects
        c, t = self.ex_call(e, env, out)
        if '←' in c:
            out.emit(f'let _ := {c}')
        return

    def for_stmt(self, s, env, out):
        itc, elty, home_items = self.iterable(s.iter, env, out, f'`{src1(s)}`')
        self.scope.nfor = getattr(self.scope, 'nfor', 0) + 1
        name = f'{self.scope.lean_name}_for{self.scope.nfor}'
        outer_reads = self.scope.reads
        self.scope.reads = set()
        try:
            env2 = env.copy()
            pat, extra = self.target_pat(s.target, elty, env2, home_items)
            sub = Out()
            for x in extra:
                sub.emit(x)
            self.block(s.body, env2, sub, None)
        finally:
            reads = self.scope.reads
            self.scope.reads = outer_reads | reads
        tnames = [n.id for n in ast.walk(s.target) if isinstance(n, ast.Name)]
        car = self.carried(sub.assigned - set(tnames), env)
        carset = set(self.unl(car))
        recursive = any(isinstance(n, ast.Call) and is_self_attr(n.func, self.scope.fname) for x in s.body for n in ast.walk(x))
        cpat = tup(car) if car else '(_ : Unit)'
        if recursive:
            # the body calls the enclosing method: it stays in place (the recursion is structural on `fuel`)
            out.emit(f'let {tup(car) if car else "_"} ← {par(itc)}.foldlM (fun {cpat} {pat} => do')
            out.extend(sub.lines, 2)
            out.emit(f'pure {tup(car)}) {tup(car)}', 2)
        else:
            caps = self.captures(env, reads, carset, set(tnames))
            types = ['Self K' if n == 'self' else 'Nat' if n == 'tick' else lean_ty(env.vars[n]) for n in self.unl(car)]
            sty = ' × '.join(par(t) for t in types) if types else 'Unit'
            L = [f'/-- body of the loop `{src1(s)}` (line {s.lineno}) of `{self.scope.fname}`; the loop state is {tup(car)} -/',
                 f'def {name}{self.cap_binders(caps, sub.lines)} : {par(sty)} → {par(lean_ty(elty))} → Option {par(sty)}',
                 f'  | {tup(car)}, {pat} => do'] + ['    ' + l for l in sub.lines] + [f'    pure {tup(car)}']
            self.scope.lifted.append('\n'.join(L))
            out.emit(f'let {tup(car) if car else "_"} ← {par(itc)}.foldlM ({name}{self.cap_args(caps, sub.lines)}) {tup(car)}')
        out.assigned |= carset
        for n in tnames:
            env.vars[n] = POISON
            env.alias.pop(n, None)
        for n in carset:
            env.alias.pop(n, None)

    @staticmethod
    def unl(names):
        return [n.strip('«»') for n in names]

    def if_join(self, s, env, out):
        c = self.truthy(s.test, env, out)
        e1, e2 = self.guarded(env, s.test, True), self.guarded(env, s.test, False)
        o1, o2 = Out(), Out()
        self.block(s.body, e1, o1, None)
        if s.orelse:
            if not (len(s.orelse) == 1 and isinstance(s.orelse[0], ast.If)):
                o2.emit('-- else:')
            self.block(s.orelse, e2, o2, None)
        car = self.carried(o1.assigned | o2.assigned, env)
        out.emit(f'let {tup(car) if car else "_"} ← (if {c} then do')
        out.extend(o1.lines, 2)
        out.emit(f'pure {tup(car)}', 2)
        out.emit('else do', 1)
        out.extend(o2.lines, 2)
        out.emit(f'pure {tup(car)})', 2)
        out.assigned |= set(self.unl(car))
        for n in self.unl(car):
            env.alias.pop(n, None)
        # a variable first bound in BOTH branches with the same type is bound afterwards
        for n in o1.assigned & o2.assigned:
            if n not in env.vars and n not in ('self', 'tick') and e1.vars.get(n) == e2.vars.get(n) and e1.vars.get(n) not in (None, POISON):
                raise TrErr(f'line {s.lineno}: `{n}` is first bound in both branches of an `if` (not supported)')

    def closure(self, s, env, out):
        a = s.args
        if a.args or a.vararg or a.kwarg or a.kwonlyargs or s.decorator_list:
            raise TrErr(f'line {s.lineno}: local function `{s.name}` with parameters')
        fl = Flags(ret=ann_ty(s.returns))
        fl.lean = f'{self.scope.lean_name}_{s.name}'
        nsites = len(self.tr.sites)
        for _pass in range(4):      # an effect discovered late in the body changes what the earlier `return`s return
            before = fl.key()
            del self.tr.sites[nsites:]
            sc = Scope(self.tr, f'{self.scope.fname}.{s.name}', fl, fl.lean)
            sc.closures = dict(self.scope.closures)
            sub_tr = FnTrS(self.tr, sc)
            env2 = env.copy()
            sub = Out()
            sub_tr.block(s.body, env2, sub, lambda o, e: sub_tr.emit_result([] if fl.ret == 'unit' else ['()'], o))
            if fl.key() == before:
                break
        if fl.mut:
            raise TrErr(f'line {s.lineno}: the local function `{s.name}` assigns to self')
        caps = [n for n in env.vars if n in sc.reads and n not in ('self', 'tick') and env.vars[n] != POISON]
        for n in caps:
            if env.vars[n] == 'stats':
                raise TrErr(f'line {s.lineno}: `{s.name}` captures the Stats variable `{n}`')
        fl.captures = [(n, env.vars[n]) for n in caps]
        fl.fuel = sc.flags.fuel
        self.scope.captured = getattr(self.scope, 'captured', set()) | set(caps)
        self.scope.lifted += sc.lifted
        self.scope.lifted.append(self.tr.fn_text(fl, sub.lines, f'the local function `{s.name}` of `{self.scope.fname}` (line {s.lineno}), '
                                                 f'lambda-lifted: its free variables are parameters'))
        self.scope.closures[s.name] = fl
        out.emit(f'-- (lifted: `{fl.lean}`)')

    def while_stmt(self, s, env, out):
        # the decreasing counter
        conj = s.test.values if isinstance(s.test, ast.BoolOp) and isinstance(s.test.op, ast.And) else [s.test]
        counter = None
        for c in conj:
            if isinstance(c, ast.Compare) and len(c.ops) == 1 and isinstance(c.ops[0], ast.Gt) and isinstance(c.left, ast.Name) \
                    and isinstance(c.comparators[0], ast.Constant) and c.comparators[0].value == 0 \
                    and env.vars.get(c.left.id) == 'int':
                v = c.left.id
                dec = [x for x in s.body if isinstance(x, ast.AugAssign) and isinstance(x.target, ast.Name) and x.target.id == v]
                allw = [n for x in s.body for n in ast.walk(x)
                        if isinstance(n, ast.Name) and n.id == v and isinstance(n.ctx, ast.Store)]
                if len(dec) == 1 and len(allw) == 1 and isinstance(dec[0].op, ast.Sub) and isinstance(dec[0].value, ast.Constant) \
                        and dec[0].value.value == 1 and dec[0].value.value is not True:
                    counter = v
                    break
        if counter is None:
            raise TrErr(f'line {s.lineno}: `while` loop without a recognised decreasing counter (`v > 0` in the condition, one `v -= 1` in the body)')
        for n in ast.walk(s):
            if isinstance(n, (ast.Break, ast.Continue)):
                raise TrErr(f'line {n.lineno}: break / continue')
        self.scope.nwhile += 1
        fl = Flags()
        fl.lean = f'{self.scope.lean_name}_while{self.scope.nwhile}'
        saved_reads = self.scope.reads
        self.scope.reads = set()
        env2 = env.copy()
        sub = Out()
        cond = self.truthy(s.test, env2, sub)
        if sub.lines:
            raise TrErr(f'line {s.lineno}: loop condition with effects')
        self.block(s.body, env2, sub, None)
        reads = self.scope.reads
        self.scope.reads = saved_reads | reads
        car = self.carried(sub.assigned, env)
        carset = set(self.unl(car))
        caps = [n for n in env.vars if n in reads and n not in carset and n not in ('self', 'tick') and env.vars[n] != POISON]
        if 'self' in reads and 'self' not in carset:
            raise TrErr(f'line {s.lineno}: a `while` loop that reads self without assigning to it (not supported)')
        types = []
        for n in self.unl(car):
            types.append('Self K' if n == 'self' else 'Nat' if n == 'tick' else lean_ty(env.vars[n]))
        ty = ' × '.join(par(t) for t in types)
        params = ''.join(f' ({lname(n)} : {lean_ty(env.vars[n])})' for n in caps)
        orders = ' (orders : Orders K)' if 'tick' in carset or self.scope.flags.orders else ''
        capargs = ''.join(f' {lname(n)}' for n in caps)
        oarg = ' orders' if orders else ''
        L = []
        L.append(f'/-- one round of the `while` loop of `{self.scope.fname}` (line {s.lineno}): the loop state is {tup(car)} -/')
        L.append(f'def {fl.lean}_body{orders}{params} : {ty} → Option ({ty})')
        L.append(f'  | {tup(car)} => do')
        L += ['    ' + l for l in sub.lines]
        L.append(f'    pure {tup(car)}')
        L.append(f'/-- the `while` loop of `{self.scope.fname}` (line {s.lineno}): `{src1(s)}`.')
        L.append(f'Recursive on `fuel`; the caller passes `{counter}.toNat`, which suffices because every round decrements `{counter}`. -/')
        L.append(f'def {fl.lean}{orders}{params} : Nat → {ty} → Option ({ty})')
        L.append(f'  | 0, {tup(car)} => do')
        L.append(f'    if {cond} then none else pure {tup(car)}')
        L.append(f'  | fuel + 1, {tup(car)} => do')
        L.append(f'    if {cond} then')
        L.append(f'      let {tup(car)} ← {fl.lean}_body{oarg}{capargs} {tup(car)}')
        L.append(f'      {fl.lean}{oarg}{capargs} fuel {tup(car)}')
        L.append(f'    else pure {tup(car)}')
        self.scope.lifted.append('\n'.join(L))
        self.scope.captured = getattr(self.scope, 'captured', set()) | set(caps)
        out.emit(f'let {tup(car)} ← {fl.lean}{" orders" if orders else ""}{capargs} {lname(counter)}.toNat {tup(car)}')
        out.assigned |= carset
        for n in carset:
            env.alias.pop(n, None)


class Translator:
    def __init__(self, src, relpath):
        self.src = src
        self.relpath = relpath
        self.problems = []
        self.sites = []
        self.flags = {}
        self.props = set()
        self.self_fields = {}       # attribute -> type
        self.self_init = {}         # attribute -> Lean initial value
        self.stats_name = 'Stats'
        self.stats_fields = {}
        self.home = None
        self.methods = {}

    def problem(self, msg):
        if msg not in self.problems:
            self.problems.append(msg)

    # ------------------------------------------------------------------------------------------ class level
    def analyse(self):
        tree = ast.parse(self.src)
        cls = [n for n in tree.body if isinstance(n, ast.ClassDef) and n.name == CLASS]
        if len(cls) != 1:
            raise TrErr(f'class {CLASS} not found')
        cls = cls[0]
        if [ast.unparse(b) for b in cls.bases] != ['StatefulInterpreter']:
            self.problem(f'{CLASS}: bases {[ast.unparse(b) for b in cls.bases]} instead of StatefulInterpreter')
        for n in tree.body:
            if isinstance(n, (ast.FunctionDef, ast.ClassDef)) and n is not cls:
                self.problem(f'line {n.lineno}: module-level definition `{n.name}` is not translated')
        for n in cls.body:
            if isinstance(n, ast.FunctionDef):
                if n.name in self.methods:
                    self.problem(f'line {n.lineno}: `{n.name}` defined twice')
                self.methods[n.name] = n
                decs = [ast.unparse(d) for d in n.decorator_list]
                if decs == ['property']:
                    self.props.add(n.name)
                elif decs:
                    self.problem(f'line {n.lineno}: decorator {decs} of `{n.name}`')
            elif isinstance(n, ast.Assign) and len(n.targets) == 1 and isinstance(n.targets[0], ast.Name) \
                    and isinstance(n.value, ast.Call) and ast.unparse(n.value.func) == 'namedtuple':
                a = n.value.args
                if len(a) == 2 and isinstance(a[1], ast.List) and all(isinstance(x, ast.Constant) for x in a[1].elts):
                    self.stats_name = n.targets[0].id
                    self.stats_fields = {x.value: None for x in a[1].elts}
                else:
                    self.problem(f'line {n.lineno}: namedtuple declaration `{src1(n)}`')
            elif isinstance(n, ast.Expr) and isinstance(n.value, ast.Constant) and isinstance(n.value.value, str):
                pass
            else:
                self.problem(f'line {n.lineno}: class-level statement `{src1(n)}` is not translated')
        for m in EXPECTED:
            if m not in self.methods:
                self.problem(f'method `{m}` is missing')
        for m in self.methods:
            if m not in EXPECTED:
                self.problem(f'line {self.methods[m].lineno}: method `{m}` is not one of the expected methods (it is translated if possible)')
        for p in self.props:
            if p not in PROPERTIES:
                self.problem(f'property `{p}` is not expected')
        # field types of the namedtuple: from its constructor calls
        for n in ast.walk(cls):
            if isinstance(n, ast.Call) and ast.unparse(n.func) in (f'{CLASS}.{self.stats_name}', self.stats_name):
                for k in n.keywords:
                    if k.arg in self.stats_fields:
                        if isinstance(k.value, ast.Constant) and isinstance(k.value.value, int) and not isinstance(k.value.value, bool):
                            t = 'int'
                        elif isinstance(k.value, ast.Dict) and not k.value.keys:
                            t = ('dict', 'K', 'int')
                        else:
                            t = None
                        if t is None or self.stats_fields[k.arg] not in (None, t):
                            self.problem(f'line {n.lineno}: type of the field `{k.arg}` of {self.stats_name}')
                        else:
                            self.stats_fields[k.arg] = t
        for f, t in self.stats_fields.items():
            if t is None:
                self.problem(f'{self.stats_name}.{f}: no constructor call determines its type')
                self.stats_fields[f] = 'int'
        self.analyse_init()

    def analyse_init(self):
        m = self.methods.get('__init__')
        self.self_fields['memory'] = ('list', 'memitem')
        self.self_init['memory'] = '[]'
        if m is None:
            return
        body = list(m.body)
        if body and src1(body[0]) == 'super().__init__(phase=phase, claims=claims)':
            body = body[1:]
        else:
            self.problem('__init__: does not start with super().__init__(phase=phase, claims=claims)')
        for s in body:
            try:
                if isinstance(s, ast.AnnAssign) and is_self_attr(s.target) and s.value is not None:
                    t = ann_ty(s.annotation)
                    v = s.value
                elif isinstance(s, ast.Assign) and len(s.targets) == 1 and is_self_attr(s.targets[0]):
                    v = s.value
                    if isinstance(v, ast.Constant) and isinstance(v.value, bool):
                        t = 'bool'
                    elif isinstance(v, ast.Constant) and isinstance(v.value, int):
                        t = 'int'
                    else:
                        raise TrErr(f'line {s.lineno}: `{src1(s)}`: type unknown')
                    s = ast.AnnAssign(target=s.targets[0], value=v, annotation=None, simple=0, lineno=s.lineno)
                else:
                    raise TrErr(f'line {s.lineno}: `{src1(s)}` in __init__')
                name = s.target.attr
                if isinstance(v, ast.Constant) and isinstance(v.value, bool) and t == 'bool':
                    init = 'true' if v.value else 'false'
                elif isinstance(v, ast.Constant) and isinstance(v.value, int) and t == 'int':
                    init = str(v.value)
                elif isinstance(v, ast.Dict) and not v.keys and isinstance(t, tuple) and t[0] == 'dict':
                    init = '[]'
                elif isinstance(v, ast.Call) and ast.unparse(v) == 'set()' and isinstance(t, tuple) and t[0] == 'set':
                    init = 'setEmpty'
                elif isinstance(v, ast.List) and not v.elts and isinstance(t, tuple) and t[0] == 'list':
                    init = '[]'
                else:
                    raise TrErr(f'line {s.lineno}: `{src1(s)}`: initial value')
                if name in self.self_fields:
                    raise TrErr(f'line {s.lineno}: self.{name} initialised twice')
                self.self_fields[name] = t
                self.self_init[name] = init
            except TrErr as ex:
                self.problem(f'__init__: {ex}')
        homes = [f for f, t in self.self_fields.items() if t == ('dict', 'K', 'stats')]
        if len(homes) == 1:
            self.home = homes[0]
        else:
            self.problem(f'__init__: exactly one attribute of type dict[Pattern, Stats] expected, found {homes}')

    # ------------------------------------------------------------------------------------------ functions
    def fn_text(self, fl, body_lines, doc, recursive=False):
        binders = ''
        if fl.orders:
            binders += ' (orders : Orders K) (tick : Nat)'
        if recursive:
            sig = ['Nat', 'Self K'] + [lean_ty(t) for _, t in fl.params]
        else:
            if fl.fuel:
                binders += ' (fuel : Nat)'
            binders += ''.join(f' ({lname(n)} : {lean_ty(t)})' for n, t in fl.captures)
            binders += ' (self : Self K)'
            binders += ''.join(f' ({lname(n)} : {lean_ty(t)})' for n, t in fl.params)
        comps = ([lean_ty(fl.ret)] if fl.ret != 'unit' else []) + (['Self K'] if fl.mut else []) + (['Nat'] if fl.orders else [])
        rty = ' × '.join(par(c) for c in comps) if comps else 'Unit'
        L = [f'/-- {doc} -/']
        if recursive:
            L.append(f'def {fl.lean}{binders} : {" → ".join(sig)} → Option ({rty})')
            L.append('  | 0, ' + ', '.join(['_'] * (len(sig) - 1)) + ' => none')
            L.append('  | fuel + 1, ' + ', '.join(['self'] + [lname(n) for n, _ in fl.params]) + ' => do')
            L += ['    ' + l for l in body_lines]
        else:
            L.append(f'def {fl.lean}{binders} : Option ({rty}) := do')
            L += ['  ' + l for l in body_lines]
        return '\n'.join(L)

    def translate_method(self, name):
        m = self.methods[name]
        fl = self.flags[name]
        sc = Scope(self, name, fl, fl.lean)
        ft = FnTrS(self, sc)
        env = Env({'self': 'SELF'})
        a = m.args
        if a.vararg or a.kwarg or a.kwonlyargs or not a.args or a.args[0].arg != 'self':
            raise TrErr(f'line {m.lineno}: signature of `{name}`')
        out = Out()
        body = list(m.body)
        sup = None
        if name in RECORDING:
            # x = super().name(<the parameters>) : x is supplied by the caller
            s0 = body[0] if body else None
            want = f'super().{name}({", ".join(p.arg for p in a.args[1:])})'
            if not (isinstance(s0, ast.Assign) and len(s0.targets) == 1 and isinstance(s0.targets[0], ast.Name)
                    and ast.unparse(s0.value) == want):
                raise TrErr(f'line {m.lineno}: `{name}` does not start with `x = {want}`')
            sup = s0.targets[0].id
            fl.params = [(sup, ann_ty(m.returns))]
            env.bind(sup, ann_ty(m.returns))
            out.emit(f'-- {src1(s0)}        [= the parameter `{sup}`: the value the StatefulInterpreter method returns]')
            body = body[1:]
        else:
            fl.params = [(p.arg, ann_ty(p.annotation)) for p in a.args[1:]]
            if a.defaults:
                raise TrErr(f'line {m.lineno}: default values in the signature of `{name}`')
            for n, t in fl.params:
                env.bind(n, t)
        env.vars['tick'] = 'nat'
        before = sc.flags.key()
        ft.block(body, env, out, lambda o, e: ft.emit_result([] if fl.ret == 'unit' else self._noreturn(name), o))
        for n in getattr(sc, 'captured', set()):
            if sc.assign_count.get(n, 0) > 1:
                raise TrErr(f'`{name}`: the variable `{n}` captured by a local function / loop function is assigned more than once')
        recursive = self.is_recursive(m, name)
        if recursive:
            fl.fuel = True
        doc = f'`{name}` (counting_interpreter.py line {m.lineno})'
        if sup:
            doc += f'; `{sup}` = the value of `super().{name}(..)`'
        if name in self.props:
            doc += ' (a property)'
        return '\n'.join(sc.lifted + [self.fn_text(fl, out.lines, doc, recursive)])

    @staticmethod
    def _noreturn(name):
        raise TrErr(f'`{name}` can fall off its end although it declares a return value')

    @staticmethod
    def is_recursive(m, name):
        for n in ast.walk(m):
            if isinstance(n, ast.Call) and is_self_attr(n.func, name):
                return True
        return False

    def translate_all(self):
        names = [n for n in ORDER if n in self.methods] + [n for n in self.methods if n not in ORDER and n != '__init__']
        for n in names:
            m = self.methods[n]
            try:
                ret = ann_ty(m.returns)
            except TrErr as ex:
                self.problem(f'{n}: {ex}')
                ret = 'unit'
            fl = Flags(ret=ret)
            fl.lean = lname(n)
            try:
                fl.params = [(p.arg, ann_ty(p.annotation)) for p in m.args.args[1:]] if n not in RECORDING else [('ret', ret)]
            except TrErr:
                fl.params = []
            self.flags[n] = fl
        texts = {}
        for _round in range(6):
            before = {n: self.flags[n].key() for n in names}
            self.sites = []
            texts = {}
            errs = []
            for n in names:
                try:
                    texts[n] = self.translate_method(n)
                except TrErr as ex:
                    errs.append(f'{n}: {ex}')
                    texts[n] = f'-- `{n}` (line {self.methods[n].lineno}): NOT TRANSLATED: {ex}'
                except (KeyError, AttributeError, IndexError, TypeError, ValueError) as ex:
                    errs.append(f'{n}: translator error {type(ex).__name__}: {ex}')
                    texts[n] = f'-- `{n}` (line {self.methods[n].lineno}): NOT TRANSLATED (translator error)'
            if {n: self.flags[n].key() for n in names} == before:
                break
        else:
            errs.append('the effect flags of the methods do not stabilise')
        for e in errs:
            self.problem(e)
        return [texts[n] for n in names]

    # ------------------------------------------------------------------------------------------ the file
    def file_text(self):
        try:
            self.analyse()
            fns = self.translate_all()
        except TrErr as ex:
            self.problem(str(ex))
            fns = []
        except SyntaxError as ex:
            self.problem(f'syntax error: {ex}')
            fns = []
        ok = not self.problems
        L = ['import Pi2.CountSupport',
             f'/-! GENERATED by /verif/vlib/transcount.py from `{CLASS}` ({self.relpath}): `{self.stats_name}`, `__init__`,',
             'the properties, `finalize` (with its closure `get_suitable` and its `while` loop), the recording methods `evar` .. `instantiate_pattern`,',
             '`_collect_patterns`, `_compute_complexity_score`, statement by statement — do not edit.',
             '`Pi2/CountDet.lean` proves that the result does not depend on `orders`.',
             '`none` = the Python code raises; a `dict` is an association list in insertion order; a `set` is a listing that is enumerated ONLY through',
             '`setIter orders tick s` (the oracle `orders` is a parameter of every function that iterates a set; conventions: `vlib/transcount.py`,',
             '`Pi2/CountSupport.lean`). -/',
             'set_option linter.unusedVariables false',
             'namespace Gen.PyCount',
             'open CountSup',
             '']
        L.append(f'/-- `{self.stats_name} = namedtuple({self.stats_name!r}, {list(self.stats_fields)!r})`; a `dict` field is a mutable object shared by every')
        L.append('copy of the tuple (`_replace` keeps it): it is read and written where it lives, see ALIASING in `vlib/transcount.py` -/')
        L.append('structure Stats (K : Type) where')
        for f, t in self.stats_fields.items():
            L.append(f'  {f} : {lean_ty(t)}')
        L.append('')
        L.append(f'/-- the attributes `{CLASS}.__init__` creates, and `memory` of `StatefulInterpreter` (read by `finalize`) -/')
        L.append('structure Self (K : Type) where')
        for f, t in self.self_fields.items():
            try:
                L.append(f'  {f} : {lean_ty(t)}')
            except TrErr as ex:
                self.problem(f'__init__: self.{f}: {ex}')
                ok = False
        L.append('')
        L.append('variable {K : Type} [DecidableEq K] [PyPattern K]')
        L.append('')
        L.append('/-- `__init__` (after `super().__init__`, which sets `memory = []`) -/')
        L.append('def init : Self K :=')
        L.append('  { ' + ', '.join(f'{f} := {v}' for f, v in self.self_init.items()) + ' }')
        L.append('')
        for t in fns:
            L.append(t)
            L.append('')
        L.append('/-- the places where the source iterates a set (each takes its order from the oracle) -/')
        L.append('def setIterationSites : List String := [' + ', '.join(lean_str(s) for s in self.sites) + ']')
        L.append('')
        if self.problems:
            L.append('/- PROBLEMS')
            for p in self.problems:
                L.append('   ' + p.replace('-/', '- /'))
            L.append('-/')
        L.append(f'def translated : Bool := {"true" if not self.problems else "false"}')
        L.append('end Gen.PyCount')
        return '\n'.join(L) + '\n'


def lean_str(s):
    return '"' + s.replace('\\', '\\\\').replace('"', '\\"').replace('\n', ' ') + '"'


def gen_py_count(src_path=None, out_path=None):
    """regenerate lean/Pi2/Gen/PyCount.lean; returns the list of problems"""
    from . import translate
    rel = 'generation/src/proof_generation/counting_interpreter.py'
    src_path = src_path or os.path.join(core.PYSRC, 'proof_generation', 'counting_interpreter.py')
    out_path = out_path or os.path.join(translate.GEN, 'PyCount.lean')
    tr = Translator(open(src_path, encoding='utf-8').read(), rel)
    text = tr.file_text()
    translate._write_if_changed(out_path, text)
    return [f'PyCount: {p}' for p in tr.problems]


if __name__ == '__main__':
    import sys
    print(gen_py_count(*sys.argv[1:3]))
