"""Translator: the Metamath parser callbacks, the lark grammar's rules and the `Encoder`
(generation/src/proof_generation/metamath/parser.py, ast.py, utils/printer.py, utils/visitor.py; Python `ast` + a small reader
of the lark grammar text) -> `Pi2/Gen/MMAst.lean` (namespace `Gen.MMAst`), regenerated on every run.
`Pi2/MM/AstTie.lean` proves the generated functions equal to the hand-written token-level model `Pi2/MM/Ast.lean`.

What is generated, in this order
  A. the AST classes of ast.py: the dataclasses `Metavariable` / `Application` are checked to BE `MM.MTerm.mv` / `MM.MTerm.app`
     (field names and order; `hash_cache` has `compare=False` and is dropped); every subclass of `Statement` becomes a constructor of
     the inductive `Stmt` (fields through the bases, in dataclass order), `Database` a structure; `isinstance` tests (`is<Class>`,
     subclasses included) and field accessors.  `FloatingStatement.__post_init__` is only CHECKED (its assert holds for the
     2-tuple `(Application(..), Metavariable(..))`, the only argument a translated constructor call may have).
  B. every method of `ASTTransformer`, statement by statement (target language: `Pi2/MMAstSupport.lean`):
     `self.metavariables` is threaded (a method that assigns to it returns the new `self`), a `for` loop is a function of its
     own (`break` returns; a loop variable read after the loop is an `Option`: `UnboundLocalError`), a `while` loop a function
     on `fuel`; methods that call each other recursively share the fuel.
  C. the grammar: keyword terminals (anonymous literals), the ignored characters, the `TOKEN` class, and for every rule a
     function `g_<rule>` "tokens -> (result of the callback, self, remaining tokens)": the items of each alternative in their
     ORDER, anonymous literals filtered out of the children (lark's default), `x+` / `x*` by one token of lookahead against
     FIRST(x), the alternative chosen by its keyword prefix (the translator checks that the prefixes exclude each other and
     that the item behind a starred item is a literal outside FIRST of it), then the callback named by `-> alias` (or the
     rule's own name) on the children.  `parse_database` = `g_database` on the whole input.
  D. every `postvisit_*` of `Encoder` as the list of the `Printer` calls it makes (`self.write(s)`; `indent` / `deindent` around the
     body of a `with self.indentation():`), `Visitor.visit` as the dispatch `<Class>.visit -> proxy_visit_<name> -> postvisit_<name>`
     read off the `visit` methods of ast.py; `Visitor.__getattr__` (previsit: nothing, visit_children_of: `[]` because `Encoder`
     derives from `Visitor`, not `MetamathVisitor`) and `Printer` are compared with the text this translator was written against
     (any other text is a problem); `Printer` is the hand-written model `MMAstSup.Printer` of that text (Pi2/MMAstSupport.lean),
     whose output vlib/props/c17.py compares with the real `Encoder.encode_string` character by character.

ASSUMED of lark (library code, outside): (1) the basic lexer, on a text in which every `$` starts one of the keyword literals
or a comment, delivers the maximal runs of non-ignored characters outside comments, a run being a keyword terminal iff it is
one of `keywords` (on other texts it differs from splitting at whitespace: `ab$c` is `ab`, `$c`); (2) the LALR(1) parser accepts
exactly the token lists the (unambiguous) grammar derives and builds that derivation; (3) `Transformer.transform` calls the
callbacks bottom-up, left to right, each with the list of its children's results, anonymous literal tokens filtered out.
PROVED about `Printer` (Pi2/MM/AstText.lean; the class as repaired by 5aefd01: `is_line_buffer_empty` counts only the characters
the lexer skips as blank): the text is lexed to the same tokens as the concatenation of the written strings when every line that a
written string ENDS with a newline (and the very last line) has no trailing character that Python's `str.isspace` accepts but the
grammar does not ignore (`flush` still `rstrip`s the last string of a line) — which the `Encoder` guarantees for every parsed
database: it ends lines only by writing `'\\n'` itself.  With the OLD test (`len(s) != 0 and not s.isspace()`) a label like
`'\\xa0'` at the start of a line was taken for indentation and dropped (`AstText.old_printer_dropped_blank_label`).

Everything that is not recognised is reported as a problem and makes the generated file define `translated := false`."""
from __future__ import annotations

import ast
import os
import re

from . import core

KEYWORDS = {'include', 'from', 'at', 'end', 'in', 'fun', 'match', 'do', 'then', 'else', 'have', 'show', 'open', 'variable',
            'omit', 'by', 'let', 'if', 'with', 'where', 'instance', 'class', 'structure', 'theorem', 'def', 'section',
            'namespace', 'import', 'export', 'prefix', 'infix', 'notation', 'macro', 'syntax', 'universe', 'mutual', 'local',
            'private', 'protected', 'partial', 'unsafe', 'axiom', 'example', 'abbrev', 'inductive', 'deriving', 'set_option',
            'attribute', 'return', 'for', 'unless', 'try', 'catch', 'finally', 'break', 'continue', 'nomatch', 'nofun', 'type',
            'Type', 'Prop', 'Sort', 'suffices', 'calc', 'using', 'extends', 'mut', 'this', 'fuel', 'it_', 'written'}


class TrErr(Exception):
    pass


def lname(n):
    return f'«{n}»' if n in KEYWORDS else n


def lean_str(s):
    out = []
    for c in s:
        if c == '"':
            out.append('\\"')
        elif c == '\\':
            out.append('\\\\')
        elif c == '\n':
            out.append('\\n')
        elif c == '\t':
            out.append('\\t')
        elif c == '\r':
            out.append('\\r')
        elif ord(c) < 32 or ord(c) == 127:
            out.append('\\x%02x' % ord(c))
        else:
            out.append(c)
    return '"' + ''.join(out) + '"'


def lean_char(c):
    if c == "'":
        return "'\\''"
    if c == '\\':
        return "'\\\\'"
    if c == '\n':
        return "'\\n'"
    if c == '\t':
        return "'\\t'"
    if c == '\r':
        return "'\\r'"
    if ord(c) < 32 or ord(c) == 127:
        return "'\\x%02x'" % ord(c)
    return f"'{c}'"


def atom(s):
    s = s.strip()
    if not s:
        return s
    if s[0] == '(' and _closes(s, '(', ')'):
        return s
    if s[0] == '[' and _closes(s, '[', ']'):
        return s
    if s[0] == '"' and s.count('"') - s.count('\\"') == 2 and s[-1] == '"':
        return s
    if all(c.isalnum() or c in "_.«»?" for c in s):
        return s
    return f'({s})'


def _closes(s, o, c):
    d, i, n = 0, 0, len(s)
    instr = False
    while i < n:
        ch = s[i]
        if instr:
            if ch == '\\':
                i += 2
                continue
            if ch == '"':
                instr = False
        elif ch == '"':
            instr = True
        elif ch == o:
            d += 1
        elif ch == c:
            d -= 1
            if d == 0:
                return i == n - 1
        i += 1
    return False


def strip_doc(body):
    if body and isinstance(body[0], ast.Expr) and isinstance(body[0].value, ast.Constant) and isinstance(body[0].value.value, str):
        return body[1:]
    return body


def dump_fn(fn):
    """the text a function is compared by: its body without the docstring, unparsed"""
    return '\n'.join(ast.unparse(s) for s in strip_doc(fn.body))


# ================================================================================================ types
# 'str' 'nat' 'int' 'bool' 'term' 'stmt' 'db' 'arg' 'unit' ; ('list', T) ; ('tuple', [T..]) ; ('opt', T)

def lean_ty(t):
    if t in ('str', 'tok'):
        return 'String'
    if t == 'nat':
        return 'Nat'
    if t == 'int':
        return 'Int'
    if t == 'bool':
        return 'Bool'
    if t == 'term':
        return 'MTerm'
    if t == 'stmt':
        return 'Stmt'
    if t == 'db':
        return 'Database'
    if t == 'arg':
        return 'Arg'
    if t == 'unit':
        return 'Unit'
    if isinstance(t, tuple) and t[0] == 'list':
        if t[1] is None:
            raise TrErr('element type of an empty list is unknown')
        return f'List {atom(lean_ty(t[1]))}'
    if isinstance(t, tuple) and t[0] == 'opt':
        return f'Option {atom(lean_ty(t[1]))}'
    if isinstance(t, tuple) and t[0] == 'tuple':
        return ' × '.join(atom(lean_ty(x)) for x in t[1])
    raise TrErr(f'type {t}')


def is_list(t):
    return isinstance(t, tuple) and t[0] == 'list'


def compatible(a, b):
    if a == b:
        return True
    if is_list(a) and is_list(b):
        return a[1] is None or b[1] is None or compatible(a[1], b[1])
    return False


# ================================================================================================ A. the classes of ast.py

class Classes:
    def __init__(self, mod, problems):
        self.problems = problems
        self.cls = {c.name: c for c in mod.body if isinstance(c, ast.ClassDef)}
        self.order = [c.name for c in mod.body if isinstance(c, ast.ClassDef)]
        self.alias = {}
        for s in mod.body:
            if isinstance(s, ast.Assign) and len(s.targets) == 1 and isinstance(s.targets[0], ast.Name):
                self.alias[s.targets[0].id] = ast.unparse(s.value)
        self.stmt_classes = [n for n in self.order if n != 'Statement' and 'Statement' in self.ancestors(n)]
        self.fields_cache = {}

    def bases(self, n):
        out = []
        for b in self.cls[n].bases:
            if isinstance(b, ast.Subscript):
                b = b.value
            if isinstance(b, ast.Name):
                out.append(b.id)
        return out

    def ancestors(self, n):
        out, todo = [], list(self.bases(n)) if n in self.cls else []
        while todo:
            b = todo.pop(0)
            if b not in out:
                out.append(b)
                if b in self.cls:
                    todo += self.bases(b)
        return out

    def mro(self, n):
        # single inheritance among the AST classes (checked)
        out = [n]
        while True:
            bs = [b for b in self.bases(out[-1]) if b in self.cls]
            if not bs:
                return out
            if len(bs) > 1:
                raise TrErr(f'class {out[-1]} has several bases among the AST classes')
            out.append(bs[0])

    def ann_type(self, a):
        u = ast.unparse(a) if not (isinstance(a, ast.Constant) and isinstance(a.value, str)) else a.value
        u = self.alias.get(u, u)
        table = {'str': 'str', 'tuple[str, ...]': ('list', 'str'), 'tuple[Metavariable, ...]': ('list', 'term'),
                 'tuple[Term, ...]': ('list', 'term'), 'tuple[Statement, ...]': ('list', 'stmt'), 'str | None': ('opt', 'str'),
                 'int | None': ('opt', 'int')}
        if u not in table:
            raise TrErr(f'field annotation `{u}`')
        return table[u]

    def fields(self, n):
        """[(name, type, default-or-None, init, compare)] through the bases, base first"""
        if n in self.fields_cache:
            return self.fields_cache[n]
        out = []
        for c in reversed(self.mro(n)):
            for s in self.cls[c].body:
                if isinstance(s, ast.AnnAssign) and isinstance(s.target, ast.Name):
                    init, compare, default = True, True, None
                    v = s.value
                    if isinstance(v, ast.Call) and isinstance(v.func, ast.Name) and v.func.id == 'field':
                        for k in v.keywords:
                            if k.arg == 'init':
                                init = bool(ast.literal_eval(k.value))
                            elif k.arg == 'compare':
                                compare = bool(ast.literal_eval(k.value))
                            elif k.arg == 'default':
                                default = k.value
                            else:
                                raise TrErr(f'field option {k.arg} of {c}.{s.target.id}')
                    elif v is not None:
                        default = v
                    out = [f for f in out if f[0] != s.target.id]
                    out.append((s.target.id, self.ann_type(s.annotation), default, init, compare))
        self.fields_cache[n] = out
        return out

    def ctor_fields(self, n):
        """the constructor's parameters that take part in `==`: (name, type, default)"""
        fs = self.fields(n)
        for f in fs:
            if f[3] and not f[4] and f[2] is None:
                raise TrErr(f'{n}.{f[0]}: a constructor parameter without default that is not compared')
        return [(f[0], f[1], f[2]) for f in fs if f[3] and f[4]]

    def method(self, n, name):
        for c in self.mro(n):
            for s in self.cls[c].body:
                if isinstance(s, ast.FunctionDef) and s.name == name:
                    return c, s
        return None, None

    def visit_name(self, n):
        """`<n>.visit` -> the `<name>` of `visitor.proxy_visit_<name>(self)`"""
        c, fn = self.method(n, 'visit')
        if fn is None:
            raise TrErr(f'class {n} has no visit method')
        body = strip_doc(fn.body)
        ok = (len(fn.args.args) == 2 and len(body) == 1 and isinstance(body[0], ast.Return) and isinstance(body[0].value, ast.Call)
              and isinstance(body[0].value.func, ast.Attribute) and isinstance(body[0].value.func.value, ast.Name)
              and body[0].value.func.value.id == fn.args.args[1].arg and body[0].value.func.attr.startswith('proxy_visit_')
              and len(body[0].value.args) == 1 and isinstance(body[0].value.args[0], ast.Name) and body[0].value.args[0].id == 'self'
              and not body[0].value.keywords)
        if not ok:
            raise TrErr(f'{c}.visit is not `return visitor.proxy_visit_<name>(self)`: {ast.unparse(body[0]) if body else ""}')
        return body[0].value.func.attr[len('proxy_visit_'):]

    def subclasses(self, n):
        return [c for c in self.stmt_classes if c == n or n in self.ancestors(c)]


POST_INIT = ("assert len(self.terms) == 2 and isinstance(self.terms[0], Application) and isinstance(self.terms[1], Metavariable)\n"
             "self.typecode = self.terms[0].symbol\nself.metavariable = self.terms[1].name")


def gen_classes(C, out, problems):
    """-> {class: [(field, type, default)]} for the statement classes"""
    ctor = {}
    # terms
    try:
        mv = C.ctor_fields('Metavariable')
        ap = C.ctor_fields('Application')
        if [(f[0], f[1]) for f in mv] != [('name', 'str')]:
            raise TrErr(f'the fields of Metavariable are {mv}, not (name: str) = MM.MTerm.mv')
        if [(f[0], f[1]) for f in ap] != [('symbol', 'str'), ('subterms', ('list', 'term'))]:
            raise TrErr(f'the fields of Application are {ap}, not (symbol: str, subterms: tuple[Term, ...]) = MM.MTerm.app')
        if ap[0][2] is not None or ap[1][2] is None or ast.unparse(ap[1][2]) != '()':
            raise TrErr('defaults of Application(symbol, subterms=())')
        if C.bases('Metavariable') != ['Term'] or C.bases('Application') != ['Term']:
            raise TrErr('Metavariable / Application are not direct subclasses of Term')
        others = [c for c in C.order if 'Term' in C.ancestors(c) and c not in ('Metavariable', 'Application')]
        if others:
            raise TrErr(f'further subclasses of Term: {others}')
    except TrErr as ex:
        problems.append(f'ast.py: {ex}')
    out.append('/-! ## A. the AST (ast.py)')
    out.append('`Metavariable(name)` = `MM.MTerm.mv name`, `Application(symbol, subterms=())` = `MM.MTerm.app symbol subterms` (checked by the')
    out.append('translator: names, order and defaults of the dataclass fields; `hash_cache` is `compare=False`). -/')
    out.append('/-- the subclasses of `Statement` (ast.py), one constructor each, fields through the base classes in dataclass order -/')
    out.append('inductive Stmt where')
    for n in C.stmt_classes:
        try:
            fs = C.ctor_fields(n)
            ctor[n] = fs
            out.append(f'  | {n} ' + ' '.join(f'({lname(f[0])} : {lean_ty(f[1])})' for f in fs) + f'   -- line {C.cls[n].lineno}')
        except TrErr as ex:
            problems.append(f'ast.py: class {n}: {ex}')
    out.append('deriving Repr, Inhabited')
    try:
        fs = C.ctor_fields('Database')
        if [(f[0], f[1]) for f in fs] != [('statements', ('list', 'stmt'))]:
            raise TrErr(f'fields {fs}')
        if 'Statement' in C.ancestors('Database'):
            raise TrErr('Database is a Statement')
        ctor['Database'] = fs
    except TrErr as ex:
        problems.append(f'ast.py: class Database: {ex}')
    out.append(f'/-- the dataclass `Database` (ast.py line {C.cls["Database"].lineno}) -/')
    out.append('structure Database where')
    out.append('  statements : List Stmt')
    out.append('deriving Repr, Inhabited')
    # __post_init__ of FloatingStatement
    try:
        for n in C.stmt_classes + ['Database']:
            c, fn = C.method(n, '__post_init__')
            if fn is None:
                continue
            if n != 'FloatingStatement' or dump_fn(fn) != POST_INIT:
                raise TrErr(f'{c}.__post_init__ is not the text this translator knows')
        if C.method('FloatingStatement', '__post_init__')[1] is None:
            problems.append('ast.py: FloatingStatement has no __post_init__ any more (the translator documents one)')
        derived = [f[0] for f in C.fields('FloatingStatement') if not f[3]]
        if derived != ['typecode', 'metavariable']:
            raise TrErr(f'derived fields of FloatingStatement: {derived}')
        out.append('-- `FloatingStatement.__post_init__`: `assert len(self.terms) == 2 and isinstance(self.terms[0], Application) and')
        out.append('-- isinstance(self.terms[1], Metavariable)`, then the derived fields `typecode`, `metavariable` (functions of `terms`, not stored):')
        out.append('-- a constructor call is only translated with the literal argument `(Application(..), Metavariable(..))`, for which the assert holds')
    except TrErr as ex:
        problems.append(f'ast.py: {ex}')
    # isinstance
    out.append('/-! `isinstance(s, <Class>)`: the class itself or a subclass -/')
    for n in C.stmt_classes:
        subs = C.subclasses(n)
        out.append(f'def is{n} : Stmt → Bool | ' + ' | '.join(f'.{s} ..' for s in subs) + ' => true' + (' | _ => false' if len(subs) < len(C.stmt_classes) else ''))
    # accessors
    out.append('/-! field accessors (a junk default on a statement of a class without the field; the translator only emits an accessor on a')
    out.append('parameter whose classes all have the field) -/')
    names = []
    for n in C.stmt_classes:
        for f in ctor.get(n, []):
            if f[0] not in names:
                names.append(f[0])
    acc = {}
    for f in names:
        have = [(n, [x for x in ctor[n] if x[0] == f][0]) for n in C.stmt_classes if n in ctor and any(x[0] == f for x in ctor[n])]
        tys = {repr(x[1][1]) for x in have}
        if len(tys) != 1:
            problems.append(f'ast.py: the field {f} has different types in different classes')
            continue
        t = have[0][1][1]
        acc[f] = ({n for n, _ in have}, t)
        default = {'str': '""'}.get(t, 'none' if isinstance(t, tuple) and t[0] == 'opt' else '[]')
        arms = []
        for n, _ in have:
            pats = ' '.join(lname(x[0]) if x[0] == f else '_' for x in ctor[n])
            arms.append(f'.{n} {pats} => {lname(f)}')
        out.append(f'def Stmt.{lname(f)} : Stmt → {lean_ty(t)} | ' + ' | '.join(arms) + (f' | _ => {default}' if len(have) < len(C.stmt_classes) else ''))
    return ctor, acc


# ================================================================================================ C. the grammar

class Grammar:
    """the lark grammar text: terminals, %ignore, rules"""

    def __init__(self, text):
        self.terminals = {}     # NAME -> regex text
        self.ignore = []        # terminal names or /regex/
        self.rules = {}         # name -> [(items, alias)]; item = ('lit', s) | ('term', NAME) | ('rule', name), each with a suffix '' '+' '*'
        self.order = []
        self.lines = {}
        cur = None
        for ln, raw in enumerate(text.split('\n'), 1):
            line = raw
            if '//' in line and not re.search(r'/[^/]*//', line.split('//')[0] + '//') :
                line = line[:line.index('//')]
            if line.strip().startswith('//'):
                continue
            if not line.strip():
                continue
            m = re.match(r'\s*%ignore\s+(.*?)\s*$', line)
            if m:
                self.ignore.append(m.group(1))
                cur = None
                continue
            if line.strip().startswith('%'):
                raise TrErr(f'grammar directive `{line.strip()}`')
            m = re.match(r'\s*([A-Z_][A-Z_0-9]*)\s*(?:\.\d+)?\s*:\s*(.*?)\s*$', line)
            if m:
                self.terminals[m.group(1)] = m.group(2)
                cur = None
                continue
            m = re.match(r'\s*([?!_]?[a-z_][a-z_0-9]*)\s*:\s*(.*)$', line)
            if m:
                cur = m.group(1)
                if cur[0] in '?!_':
                    raise TrErr(f'rule `{cur}` with a lark modifier (inlined / keeps all tokens)')
                if cur in self.rules:
                    raise TrErr(f'rule {cur} defined twice')
                self.rules[cur] = []
                self.order.append(cur)
                self.lines[cur] = ln
                self._alts(cur, m.group(2), first=True)
                continue
            m = re.match(r'\s*\|(.*)$', line)
            if m and cur:
                self._alts(cur, '|' + m.group(1), first=False)
                continue
            raise TrErr(f'grammar line {ln}: `{raw.strip()}`')

    def _alts(self, rule, text, first):
        toks = re.findall(r'"(?:[^"\\]|\\.)*"|->|[A-Za-z_][A-Za-z_0-9]*|[|+*?()\[\]~]|/(?:[^/\\]|\\.)*/\w*|\S', text)
        alts, cur, alias = [], [], None
        started = first
        i = 0
        while i < len(toks):
            t = toks[i]
            if t == '|':
                if started:
                    alts.append((cur, alias))
                cur, alias, started = [], None, True
            elif t == '->':
                alias = toks[i + 1]
                i += 1
            elif t in '+*':
                if not cur:
                    raise TrErr(f'rule {rule}: `{t}` without an item')
                cur[-1] = cur[-1][:2] + (t,)
            elif t[0] == '"':
                cur.append(('lit', ast.literal_eval(t), ''))
            elif re.fullmatch(r'[A-Z_][A-Z_0-9]*', t):
                cur.append(('term', t, ''))
            elif re.fullmatch(r'[a-z_][a-z_0-9]*', t):
                cur.append(('rule', t, ''))
            else:
                raise TrErr(f'rule {rule}: item `{t}`')
            i += 1
        if started:
            alts.append((cur, alias))
        self.rules[rule] += alts


def char_class(rx, negated):
    """`[chars]+` / `[^chars]+` -> the characters"""
    m = re.fullmatch(r'/\[(\^?)((?:[^\]\\]|\\.)*)\]\+/', rx)
    if not m or (m.group(1) == '^') != negated:
        raise TrErr(f'the regular expression {rx} is not of the form /[{"^" if negated else ""}...]+/')
    out, s, i = [], m.group(2), 0
    esc = {'n': '\n', 't': '\t', 'f': '\f', 'r': '\r', '$': '$', '\\': '\\', ']': ']', '[': '[', '^': '^', '-': '-'}
    while i < len(s):
        if s[i] == '\\':
            if s[i + 1] not in esc:
                raise TrErr(f'escape \\{s[i + 1]} in {rx}')
            out.append(esc[s[i + 1]])
            i += 2
        elif s[i] == '-' and 0 < i < len(s) - 1:
            raise TrErr(f'character range in {rx}')
        else:
            out.append(s[i])
            i += 1
    return out


COMMENT_RX = r'/\$\(((.|\n)(?<!\$\)))*\$\)/'



# ================================================================================================ B. the methods of ASTTransformer

def assigned_names(stmts):
    """names (re)bound or mutated in place (`x.append`, `self.a = ..` counts as `self`), in order of first occurrence"""
    out = []

    def add(n):
        if n is not None and n not in out:
            out.append(n)

    def target(t):
        if isinstance(t, ast.Name):
            add(t.id)
        elif isinstance(t, (ast.Tuple, ast.List)):
            for x in t.elts:
                target(x)
        elif isinstance(t, ast.Starred):
            target(t.value)
        elif isinstance(t, ast.Attribute) and isinstance(t.value, ast.Name):
            add(t.value.id)
        else:
            raise TrErr('assignment target ' + ast.unparse(t))

    def visit(n):
        if isinstance(n, ast.Assign):
            for t in n.targets:
                target(t)
        elif isinstance(n, (ast.AugAssign, ast.AnnAssign)):
            target(n.target)
        elif isinstance(n, ast.For):
            target(n.target)
        elif isinstance(n, ast.Call) and isinstance(n.func, ast.Attribute) and n.func.attr in ('append', 'extend') \
                and isinstance(n.func.value, ast.Name):
            add(n.func.value.id)
        for c in ast.iter_child_nodes(n):
            visit(c)

    for s in stmts:
        visit(s)
    return out


def loads(nodes):
    out = []
    for n in nodes:
        for x in ast.walk(n):
            if isinstance(x, ast.Name) and isinstance(x.ctx, ast.Load) and x.id not in out:
                out.append(x.id)
    return out


def terminal(stmts):
    if not stmts:
        return False
    s = stmts[-1]
    if isinstance(s, (ast.Return, ast.Raise, ast.Continue, ast.Break)):
        return True
    if isinstance(s, ast.If):
        return bool(s.orelse) and terminal(s.body) and terminal(s.orelse)
    return False


class Pending:
    """`x = []`: the element type is known only at the first `x.append(..)`"""

    def __init__(self, ind, name):
        self.ind, self.name, self.type = ind, name, None

    def text(self):
        if self.type is None:
            raise TrErr(f'the element type of the empty list {self.name} is never determined')
        return f'{self.ind}let {lname(self.name)} : {lean_ty(self.type)} := []'


class MethodInfo:
    def __init__(self, fn):
        self.fn = fn
        self.name = fn.name
        self.params = None    # [(name, type)] without self
        self.ret = None
        self.mutates = False  # assigns to self.<attr>
        self.fuel = False     # in a recursive group
        self.calls = []       # methods of self it calls
        self.lines = None     # the translated body
        self.aux = []         # loop functions that do not take part in the recursion
        self.group_aux = []   # loop functions on the fuel


SELF_FIELDS = {'metavariables': ('list', 'str')}
INIT_TEXT = ('self, metavariables: Iterable[str]=()', 'super().__init__()\nself.metavariables = list(metavariables)')


class Parser:
    """the translation of class ASTTransformer"""

    def __init__(self, cls, ctor, problems):
        self.cls = cls
        self.ctor = ctor
        self.problems = problems
        self.methods = {}
        for s in cls.body:
            if isinstance(s, ast.FunctionDef) and s.name != '__init__':
                self.methods[s.name] = MethodInfo(s)
            elif isinstance(s, ast.FunctionDef):
                if (ast.unparse(s.args), dump_fn(s)) != INIT_TEXT:
                    problems.append('parser.py: ASTTransformer.__init__ is not `super().__init__(); self.metavariables = list(metavariables)` with the default `()`')
            elif not (isinstance(s, ast.Expr) and isinstance(s.value, ast.Constant)):
                problems.append(f'parser.py: line {s.lineno}: a member of ASTTransformer that is not a method: {ast.unparse(s)[:60]}')
        if [ast.unparse(b) for b in cls.bases] != ['Transformer[Token, BaseAST]']:
            problems.append(f'parser.py: the bases of ASTTransformer are {[ast.unparse(b) for b in cls.bases]}, not lark.Transformer')
        for m in self.methods.values():
            if m.fn.decorator_list:
                problems.append(f'parser.py: ASTTransformer.{m.name} has decorators')
            for x in ast.walk(m.fn):
                if isinstance(x, ast.Call) and isinstance(x.func, ast.Attribute) and isinstance(x.func.value, ast.Name) \
                        and x.func.value.id == 'self' and x.func.attr in self.methods and x.func.attr not in m.calls:
                    m.calls.append(x.func.attr)
                if isinstance(x, (ast.Assign, ast.AugAssign, ast.AnnAssign)):
                    for t in (x.targets if isinstance(x, ast.Assign) else [x.target]):
                        if isinstance(t, ast.Attribute) and isinstance(t.value, ast.Name) and t.value.id == 'self':
                            m.mutates = True

        def reach(a, seen):
            for b in self.methods[a].calls:
                if b not in seen:
                    seen.add(b)
                    reach(b, seen)
            return seen
        self.reach = {n: reach(n, set()) for n in self.methods}
        for m in self.methods.values():
            m.fuel = m.name in self.reach[m.name]
        for m in self.methods.values():
            if not m.mutates and any(self.methods[c].mutates for c in self.reach[m.name]):
                problems.append(f'parser.py: {m.name} calls a method that assigns to self.<attr>')

    def ann(self, a, what):
        if a is None:
            raise TrErr(f'missing annotation of {what}')
        u = ast.unparse(a) if not (isinstance(a, ast.Constant) and isinstance(a.value, str)) else a.value
        table = {'list[str]': ('list', 'str'), 'Terms': ('list', 'term'), 'tuple[Term, list[str]]': ('tuple', ['term', ('list', 'str')]),
                 'str': 'str', 'Term': 'term'}
        if u not in table:
            raise TrErr(f'annotation `{u}` of {what}')
        return table[u]

    def signature(self, m):
        """of a method called by another method: the annotations are used (and checked by Lean's type checker)"""
        if m.params is None:
            m.params = [(a.arg, self.ann(a.annotation, f'{m.name}({a.arg})')) for a in m.fn.args.args[1:]]
        if m.ret is None:
            m.ret = self.ann(m.fn.returns, f'the result of {m.name}')
        return m.params, m.ret

    def group(self, name):
        return [n for n in self.methods if n == name or (name in self.reach[n] and n in self.reach[name])]


class Fn:
    """one method body, statement by statement, into `do` notation"""

    def __init__(self, P, info):
        self.P = P
        self.info = info
        self.fn = info.fn
        self.env = {}          # name -> (kind, type); kind 'def' | 'maybe'
        self.pre = []
        self.tcount = 0
        self.nfor = 0
        self.nwhile = 0
        self.loop = None
        self.pending = {}
        self.int_vars = {x.target.id for x in ast.walk(self.fn) if isinstance(x, ast.AugAssign) and isinstance(x.op, ast.Sub)
                         and isinstance(x.target, ast.Name)}
        for (n, t) in info.params:
            self.env[n] = ('def', t)

    def temp(self):
        self.tcount += 1
        return f't{self.tcount}'

    def bind(self, n, t):
        if n == 'self' or (n[:1] == 't' and n[1:].isdigit()) or n.endswith('?') or n in ('fuel', 'it_'):
            raise TrErr(f'the Python name {n} clashes with a name the translation introduces')
        self.env[n] = ('def', t)

    def read(self, n):
        if n not in self.env:
            raise TrErr(f'unknown name {n}')
        k, t = self.env[n]
        if k == 'maybe':
            self.pre.append(f'let {lname(n)} ← {n}?   -- UnboundLocalError if the loop body never ran')
            self.env[n] = ('def', t)
        return lname(n), t

    # ------------------------------------------------------------------ expressions
    def expr(self, e):
        if isinstance(e, ast.Constant):
            v = e.value
            if isinstance(v, bool):
                return ('true' if v else 'false'), 'bool'
            if isinstance(v, int) and v >= 0:
                return str(v), 'nat'
            if isinstance(v, str):
                return lean_str(v), 'str'
            raise TrErr('constant ' + ast.unparse(e))
        if isinstance(e, ast.Name):
            return self.read(e.id)
        if isinstance(e, ast.Attribute):
            if isinstance(e.value, ast.Name) and e.value.id == 'self':
                if e.attr not in SELF_FIELDS:
                    raise TrErr(f'attribute self.{e.attr}')
                return f'self.{lname(e.attr)}', SELF_FIELDS[e.attr]
            o, t = self.expr(e.value)
            if t == 'tok' and e.attr == 'value':
                return o, 'str'      # lark `Token.value`: the token's text (a lexed token is represented by its text)
            raise TrErr(f'attribute `{ast.unparse(e)}` of a value of type {t}')
        if isinstance(e, ast.Subscript):
            return self.subscript(e)
        if isinstance(e, ast.BinOp):
            a, ta = self.expr(e.left)
            b, tb = self.expr(e.right)
            if isinstance(e.op, ast.Add) and ta == tb and ta in ('nat', 'int'):
                return f'({atom(a)} + {atom(b)})', ta
            if isinstance(e.op, ast.Add) and is_list(ta) and compatible(ta, tb):
                return f'({atom(a)} ++ {atom(b)})', ta
            raise TrErr(f'operation {ast.unparse(e)} on {ta}, {tb}')
        if isinstance(e, ast.Tuple):
            xs = [self.expr(x) for x in e.elts]
            return '(' + ', '.join(x for x, _ in xs) + ')', ('tuple', [t for _, t in xs])
        if isinstance(e, ast.List) and not e.elts:
            return '[]', ('list', None)
        if isinstance(e, ast.Call):
            return self.call(e)
        if isinstance(e, (ast.Compare, ast.BoolOp)) or (isinstance(e, ast.UnaryOp) and isinstance(e.op, ast.Not)):
            return self.cond(e), 'bool'
        raise TrErr('expression ' + ast.unparse(e)[:80])

    @staticmethod
    def nat_lit(e):
        return isinstance(e, ast.Constant) and isinstance(e.value, int) and not isinstance(e.value, bool) and e.value >= 0

    def subscript(self, e):
        v, tv = self.expr(e.value)
        if not is_list(tv):
            raise TrErr(f'subscript of {ast.unparse(e.value)} : {tv}')
        sl = e.slice
        if isinstance(sl, ast.Slice):
            if sl.step is not None:
                raise TrErr('slice with a step ' + ast.unparse(e))
            if sl.lower is not None and sl.upper is None:
                lo, tlo = self.expr(sl.lower)
                if tlo != 'nat':
                    raise TrErr(f'slice bound {ast.unparse(sl.lower)} : {tlo}')
                return f'pySliceFrom {atom(v)} {atom(lo)}', tv
            if sl.lower is not None and sl.upper is not None:
                lo, tlo = self.expr(sl.lower)
                hi, thi = self.expr(sl.upper)
                if tlo != 'nat' or thi != 'nat':
                    raise TrErr(f'slice bounds of {ast.unparse(e)} : {tlo}, {thi}')
                return f'pySlice {atom(v)} {atom(lo)} {atom(hi)}', tv
            if sl.lower is None and isinstance(sl.upper, ast.UnaryOp) and isinstance(sl.upper.op, ast.USub) and self.nat_lit(sl.upper.operand) \
                    and sl.upper.operand.value > 0:
                return f'pyDropLast {atom(v)} {sl.upper.operand.value}', tv
            raise TrErr('slice ' + ast.unparse(e))
        if self.nat_lit(sl):
            t = self.temp()
            self.pre.append(f'let {t} ← pyIdx {atom(v)} {sl.value}   -- IndexError')
            return t, tv[1]
        if isinstance(sl, ast.UnaryOp) and isinstance(sl.op, ast.USub) and self.nat_lit(sl.operand) and sl.operand.value == 1:
            t = self.temp()
            self.pre.append(f'let {t} ← pyLast {atom(v)}   -- IndexError')
            return t, tv[1]
        raise TrErr('subscript ' + ast.unparse(e))

    def want_str(self, x, t, what):
        """a value used where a `str` is needed"""
        if t == 'str':
            return x
        if t == 'arg':
            tmp = self.temp()
            self.pre.append(f'let {tmp} ← Arg.asStr {atom(x)}   -- a `str` is needed (`none`: a list — outside the typing of the translation)')
            return tmp
        raise TrErr(f'{what} : {t} where a str is needed')

    def want_strs(self, x, t, what):
        if t == ('list', 'str'):
            return x
        if t == ('list', 'arg'):
            tmp = self.temp()
            self.pre.append(f'let {tmp} ← Arg.strs {atom(x)}   -- a `list[str]` is needed (`none`: an element is a list — outside the typing of the translation)')
            return tmp
        raise TrErr(f'{what} : {t} where a list[str] is needed')

    def construct(self, e):
        n = e.func.id
        if e.keywords or any(isinstance(a, ast.Starred) for a in e.args):
            raise TrErr('constructor call ' + ast.unparse(e)[:80])
        if n == 'Metavariable':
            if len(e.args) != 1:
                raise TrErr('Metavariable(..) with ' + str(len(e.args)) + ' arguments')
            x, t = self.expr(e.args[0])
            return f'(MTerm.mv {atom(self.want_str(x, t, ast.unparse(e.args[0])))})', 'term'
        if n == 'Application':
            if len(e.args) not in (1, 2):
                raise TrErr('Application(..) with ' + str(len(e.args)) + ' arguments')
            x, t = self.expr(e.args[0])
            x = self.want_str(x, t, ast.unparse(e.args[0]))
            if len(e.args) == 2:
                y, ty = self.expr(e.args[1])
                if not compatible(ty, ('list', 'term')):
                    raise TrErr(f'subterms {ast.unparse(e.args[1])} : {ty}')
            else:
                y = '[]'      # the default `subterms=()`
            return f'(MTerm.app {atom(x)} {atom(y)})', 'term'
        fs = self.P.ctor.get(n)
        if fs is None:
            raise TrErr(f'constructor {n}')
        if len(e.args) > len(fs) or any(f[2] is None for f in fs[len(e.args):]):
            raise TrErr(f'{n}(..) with {len(e.args)} arguments')
        args = []
        for a, f in zip(e.args, fs):
            if n == 'FloatingStatement' and f[0] == 'terms':
                ok = (isinstance(a, ast.Tuple) and len(a.elts) == 2 and all(isinstance(x, ast.Call) and isinstance(x.func, ast.Name) for x in a.elts)
                      and [x.func.id for x in a.elts] == ['Application', 'Metavariable'])
                if not ok:
                    raise TrErr('FloatingStatement(label, terms): terms is not the literal (Application(..), Metavariable(..)) that __post_init__ asserts')
                xs = [self.expr(x)[0] for x in a.elts]
                args.append('[' + ', '.join(xs) + ']')
                continue
            x, t = self.expr(a)
            ft = f[1]
            if ft == 'str':
                x = self.want_str(x, t, ast.unparse(a))
            elif ft == ('opt', 'str'):
                if t != 'str':
                    raise TrErr(f'{ast.unparse(a)} : {t} for the field {f[0]}')
                x = f'(some {atom(x)})'
            elif ft == ('list', 'str'):
                x = self.want_strs(x, t, ast.unparse(a))
            elif not compatible(t, ft):
                raise TrErr(f'{ast.unparse(a)} : {t} for the field {f[0]} : {ft}')
            args.append(atom(x))
        for f in fs[len(e.args):]:
            d = ast.unparse(f[2])
            if d == 'None':
                args.append('none')
            elif d == '()':
                args.append('[]')
            else:
                raise TrErr(f'default {d} of {n}.{f[0]}')
        if n == 'Database':
            return f'(Database.mk {" ".join(args)})', 'db'
        return f'(Stmt.{n} {" ".join(args)})', 'stmt'

    def call(self, e):
        f = e.func
        if isinstance(f, ast.Name):
            n, a = f.id, e.args
            if n in ('Metavariable', 'Application', 'Database') or n in self.P.ctor:
                return self.construct(e)
            if e.keywords:
                raise TrErr('keyword arguments ' + ast.unparse(e)[:80])
            if n == 'len' and len(a) == 1:
                x, t = self.expr(a[0])
                if not is_list(t):
                    raise TrErr(f'len of {t}')
                return f'{atom(x)}.length', 'nat'
            if n in ('tuple', 'list') and len(a) == 1:
                if isinstance(a[0], ast.Call) and isinstance(a[0].func, ast.Name) and a[0].func.id == 'map' and len(a[0].args) == 2 \
                        and isinstance(a[0].args[0], ast.Name) and a[0].args[0].id == 'Metavariable':
                    x, t = self.expr(a[0].args[1])
                    x = self.want_strs(x, t, ast.unparse(a[0].args[1]))
                    return f'({atom(x)}.map MTerm.mv)', ('list', 'term')
                x, t = self.expr(a[0])
                if is_list(t):
                    return x, t
                if t == 'arg' and n == 'list':
                    return f'(Arg.toList {atom(x)})', ('list', 'str')
                raise TrErr(f'{n}({ast.unparse(a[0])}) of {t}')
            if n == 'enumerate' and len(a) == 1:
                x, t = self.expr(a[0])
                if not is_list(t):
                    raise TrErr(f'enumerate of {t}')
                return f'(pyEnumerate {atom(x)})', ('list', ('tuple', ['nat', t[1]]))
            if n == 'isinstance' and len(a) == 2 and isinstance(a[1], ast.Name):
                x, t = self.expr(a[0])
                if (a[1].id, t) in (('str', 'str'), ('Database', 'db')):
                    return 'true', 'bool'       # holds by typing
                raise TrErr(f'isinstance({ast.unparse(a[0])} : {t}, {a[1].id})')
            raise TrErr('call ' + ast.unparse(e)[:80])
        if isinstance(f, ast.Attribute):
            if isinstance(f.value, ast.Name) and f.value.id == 'self' and f.attr in self.P.methods:
                if e.keywords:
                    raise TrErr('keyword arguments ' + ast.unparse(e)[:80])
                m = self.P.methods[f.attr]
                if m.mutates:
                    raise TrErr(f'call of {f.attr}, which assigns to self.<attr>')
                params, ret = self.P.signature(m)
                if len(e.args) != len(params):
                    raise TrErr(f'call of {f.attr} with {len(e.args)} arguments')
                args = []
                for x, (pn, pt) in zip(e.args, params):
                    v, t = self.expr(x)
                    if pt == ('list', 'str'):
                        v = self.want_strs(v, t, ast.unparse(x))
                    elif not compatible(t, pt):
                        raise TrErr(f'argument {ast.unparse(x)} : {t} of {f.attr} (expected {pt})')
                    args.append(atom(v))
                fuel = ''
                if m.fuel:
                    if self.info.fuel and m.name in self.P.group(self.info.name):
                        fuel = ' fuel'
                    elif params and params[0][1] == ('list', 'str'):
                        fuel = f' (termFuel {args[0]})'
                    else:
                        raise TrErr(f'no fuel for the call of {f.attr}')
                tmp = self.temp()
                self.pre.append(f'let {tmp} ← {m.name} self{fuel} {" ".join(args)}')
                return tmp, ret
            if isinstance(f.value, ast.Constant) and isinstance(f.value.value, str) and f.attr == 'join' and len(e.args) == 1 and not e.keywords:
                x, t = self.expr(e.args[0])
                if t != ('list', 'str'):
                    raise TrErr(f'join of {ast.unparse(e.args[0])} : {t}')
                return f'(pyJoin {lean_str(f.value.value)} {atom(x)})', 'str'
        raise TrErr('call ' + ast.unparse(e)[:80])

    def cond(self, e):
        if isinstance(e, ast.BoolOp):
            n0 = len(self.pre)
            parts = [atom(self.cond(v)) for v in e.values]
            if len(self.pre) != n0:
                raise TrErr('an operation that can raise inside and/or: ' + ast.unparse(e)[:80])
            return '(' + (' && ' if isinstance(e.op, ast.And) else ' || ').join(parts) + ')'
        if isinstance(e, ast.UnaryOp) and isinstance(e.op, ast.Not):
            return f'!{atom(self.cond(e.operand))}'
        if isinstance(e, ast.Compare) and len(e.ops) == 1:
            op = e.ops[0]
            a, ta = self.expr(e.left)
            b, tb = self.expr(e.comparators[0])
            if isinstance(op, (ast.In, ast.NotIn)):
                if not is_list(tb):
                    raise TrErr(f'membership in {ast.unparse(e.comparators[0])} : {tb}')
                if tb[1] == 'str':
                    a = self.want_str(a, ta, ast.unparse(e.left))
                elif ta != tb[1]:
                    raise TrErr(f'membership of {ta} in {tb}')
                r = f'({atom(b)}.contains {atom(a)})'
                return r if isinstance(op, ast.In) else f'!{r}'
            if ta == 'nat' and tb == 'int':
                ta = 'int'
            if tb == 'nat' and ta == 'int':
                tb = 'int'
            if ta != tb or ta not in ('str', 'nat', 'int'):
                raise TrErr(f'comparison {ast.unparse(e)} of {ta} and {tb}')
            ops = {ast.Eq: '==', ast.NotEq: '!='}
            if type(op) in ops:
                return f'({atom(a)} {ops[type(op)]} {atom(b)})'
            rel = {ast.Gt: '>', ast.GtE: '≥', ast.Lt: '<', ast.LtE: '≤'}
            if type(op) in rel and ta in ('nat', 'int'):
                return f'(decide ({atom(a)} {rel[type(op)]} {atom(b)}))'
            raise TrErr('comparison ' + ast.unparse(e))
        x, t = self.expr(e)
        if t == 'bool':
            return x
        if t == 'nat':
            return f'({atom(x)} != 0)'       # truth value of an int
        if is_list(t):
            return f'!{atom(x)}.isEmpty'
        raise TrErr(f'truth value of {ast.unparse(e)} : {t}')

    # ------------------------------------------------------------------ statements
    def flush(self, lines, ind):
        for p in self.pre:
            lines.append(ind + p)
        self.pre = []

    @staticmethod
    def tup(parts):
        if not parts:
            return '()'
        return parts[0] if len(parts) == 1 else '(' + ', '.join(parts) + ')'

    def stmts(self, body, lines, ind, tail):
        """`tail(lines, ind)`: what follows the last statement when it does not leave by itself"""
        body = strip_doc(body)
        for k, s in enumerate(body):
            rest = body[k + 1:]
            src = ast.unparse(s).split('\n')[0]
            lines.append(f'{ind}-- {src}')
            if isinstance(s, ast.Return):
                if s.value is None:
                    raise TrErr('return without a value')
                x, t = self.expr(s.value)
                self.flush(lines, ind)
                if self.info.ret is None:
                    self.info.ret = t
                elif not compatible(self.info.ret, t):
                    raise TrErr(f'return value {ast.unparse(s.value)} : {t}, expected {self.info.ret}')
                lines.append(f'{ind}pure ' + (f'({x}, self)' if self.info.mutates else atom(x)))
                if rest:
                    raise TrErr('statements after return')
                return
            if isinstance(s, ast.Break):
                if self.loop is None:
                    raise TrErr('break outside a for loop')
                self.loop['break'](lines, ind)
                return
            if isinstance(s, ast.Continue):
                if self.loop is None:
                    raise TrErr('continue outside a for loop')
                self.loop['continue'](lines, ind)
                return
            if isinstance(s, ast.Assert):
                c = self.cond(s.test)
                self.flush(lines, ind)
                lines.append(f'{ind}pyAssert {atom(c)}')
                continue
            if isinstance(s, ast.Expr):
                self.expr_stmt(s.value, lines, ind)
                continue
            if isinstance(s, ast.Assign):
                if len(s.targets) != 1:
                    raise TrErr('chained assignment')
                self.assign(s.targets[0], s.value, lines, ind)
                continue
            if isinstance(s, ast.AugAssign):
                self.augassign(s, lines, ind)
                continue
            if isinstance(s, ast.If):
                if self.if_stmt(s, rest, lines, ind, tail):
                    return
                continue
            if isinstance(s, ast.For):
                self.for_stmt(s, rest, lines, ind)
                continue
            if isinstance(s, ast.While):
                self.while_stmt(s, rest, lines, ind)
                continue
            raise TrErr('statement ' + src[:80])
        tail(lines, ind)

    def expr_stmt(self, e, lines, ind):
        if isinstance(e, ast.Call) and isinstance(e.func, ast.Attribute) and e.func.attr == 'append' and isinstance(e.func.value, ast.Name) \
                and len(e.args) == 1 and not e.keywords:
            n = e.func.value.id
            x, t = self.expr(e.args[0])
            _, tl = self.read(n)
            if not is_list(tl) or not (tl[1] is None or tl[1] == t):
                raise TrErr(f'{n}.append({ast.unparse(e.args[0])}) : {tl}, {t}')
            self.flush(lines, ind)
            self.env[n] = ('def', ('list', t))
            if n in self.pending and self.pending[n].type is None:
                self.pending[n].type = ('list', t)
            lines.append(f'{ind}let {lname(n)} := {lname(n)} ++ [{x}]')
            return
        raise TrErr('expression statement ' + ast.unparse(e)[:80])

    def assign(self, target, value, lines, ind):
        if isinstance(target, ast.Name):
            x, t = self.expr(value)
            if target.id in self.int_vars and t == 'nat':
                t = 'int'
            self.flush(lines, ind)
            self.bind(target.id, t)
            if is_list(t) and t[1] is None:
                p = Pending(ind, target.id)
                self.pending[target.id] = p
                lines.append(p)
                return
            ann = f' : {lean_ty(t)}' if t == 'int' else ''
            lines.append(f'{ind}let {lname(target.id)}{ann} := {x}')
            return
        if isinstance(target, (ast.Tuple, ast.List)):
            x, t = self.expr(value)
            names = []
            star = None
            for k, el in enumerate(target.elts):
                if isinstance(el, ast.Starred):
                    if star is not None or not isinstance(el.value, ast.Name):
                        raise TrErr('unpacking ' + ast.unparse(target))
                    star = k
                    names.append(el.value.id)
                elif isinstance(el, ast.Name):
                    names.append(el.id)
                else:
                    raise TrErr('unpacking ' + ast.unparse(target))
            self.flush(lines, ind)
            if isinstance(t, tuple) and t[0] == 'tuple' and star is None and len(t[1]) == len(names):
                for n, ty in zip(names, t[1]):
                    self.bind(n, ty)
                lines.append(f'{ind}let ({", ".join(lname(n) for n in names)}) := {x}')
                return
            if is_list(t) and star == 1 and len(names) == 2:
                self.bind(names[0], t[1])
                self.bind(names[1], t)
                lines.append(f'{ind}let ({lname(names[0])}, {lname(names[1])}) ← pyHeadRest {atom(x)}   -- ValueError')
                return
            if is_list(t) and star is None and len(names) == 3:
                for n in names:
                    self.bind(n, t[1])
                lines.append(f'{ind}let ({", ".join(lname(n) for n in names)}) ← pyUnpack3 {atom(x)}   -- ValueError')
                return
            raise TrErr(f'unpacking {ast.unparse(target)} of {t}')
        raise TrErr('assignment target ' + ast.unparse(target))

    def augassign(self, s, lines, ind):
        t = s.target
        if isinstance(t, ast.Attribute) and isinstance(t.value, ast.Name) and t.value.id == 'self' and isinstance(s.op, ast.Add):
            if t.attr not in SELF_FIELDS or not is_list(SELF_FIELDS[t.attr]):
                raise TrErr('augmented assignment ' + ast.unparse(s))
            if self.loop is not None:
                raise TrErr('assignment to self.<attr> inside a loop')
            x, tx = self.expr(s.value)
            x = self.want_strs(x, tx, ast.unparse(s.value))
            self.flush(lines, ind)
            lines.append(f'{ind}let self := {{ self with {lname(t.attr)} := self.{lname(t.attr)} ++ {atom(x)} }}')
            return
        if isinstance(t, ast.Name) and isinstance(s.op, (ast.Add, ast.Sub)):
            v, tv = self.read(t.id)
            x, tx = self.expr(s.value)
            if tv == 'int' and tx == 'nat':
                tx = 'int'
            if tv != tx or tv not in ('nat', 'int') or (isinstance(s.op, ast.Sub) and tv != 'int'):
                raise TrErr(f'{ast.unparse(s)} on {tv}, {tx}')
            self.flush(lines, ind)
            lines.append(f'{ind}let {v} := {v} {"+" if isinstance(s.op, ast.Add) else "-"} {atom(x)}')
            return
        raise TrErr('augmented assignment ' + ast.unparse(s))

    def if_stmt(self, s, rest, lines, ind, tail):
        """-> True when the `if` (with the rest of the block inside it) ends the block"""
        c = self.cond(s.test)
        self.flush(lines, ind)
        if terminal(s.body):
            # `if c: <leaves>` [else: X]; REST   ->   if c then .. else (X; REST)
            lines.append(f'{ind}if {c} then do')
            saved = dict(self.env)
            self.stmts(s.body, lines, ind + '  ', tail)
            self.env = dict(saved)
            lines.append(f'{ind}else do')
            if s.orelse and terminal(s.orelse) and rest:
                raise TrErr('statements after an if whose branches all leave')
            self.stmts(list(s.orelse) + list(rest), lines, ind + '  ', tail)
            return True
        if s.orelse and terminal(s.orelse):
            raise TrErr('an if whose else-branch leaves but whose then-branch does not')
        # join over the variables the branches assign
        names = [n for n in assigned_names([s]) if n in self.env]
        new = [n for n in assigned_names([s]) if n not in self.env]
        if any(n in loads(rest) for n in new):
            raise TrErr(f'{new} are first assigned inside an if and read after it')
        if not names or 'self' in assigned_names([s]):
            raise TrErr('an if that joins: no local variable is assigned / self.<attr> is')
        st = self.tup([lname(n) for n in names])
        lines.append(f'{ind}let {st} ← (')

        def join_tail(ls, i):
            ls.append(f'{i}pure {st}')

        def branch(node, cnd, i):
            lines.append(f'{i}if {cnd} then do')
            saved = dict(self.env)
            self.stmts(node.body, lines, i + '  ', join_tail)
            self.env = dict(saved)
            if len(node.orelse) == 1 and isinstance(node.orelse[0], ast.If):
                nxt = node.orelse[0]
                lines.append(f'{i}-- elif {ast.unparse(nxt.test)}:')
                c2 = self.cond(nxt.test)
                if self.pre:
                    raise TrErr('an operation that can raise in an elif condition')
                lines.append(f'{i}else')
                branch(nxt, c2, i + '  ')
            else:
                lines.append(f'{i}else do')
                saved = dict(self.env)
                self.stmts(node.orelse, lines, i + '  ', join_tail)
                self.env = dict(saved)
        branch(s, c, ind + '  ')
        lines.append(f'{ind}  )')
        return False

    def for_stmt(self, s, rest, lines, ind):
        if s.orelse:
            raise TrErr('for .. else')
        it, tit = self.expr(s.iter)
        if not is_list(tit) or tit[1] is None:
            raise TrErr(f'for over {ast.unparse(s.iter)} : {tit}')
        self.flush(lines, ind)
        et = tit[1]
        if isinstance(s.target, ast.Name):
            targets, pat = [(s.target.id, et)], lname(s.target.id)
        elif isinstance(s.target, ast.Tuple) and all(isinstance(x, ast.Name) for x in s.target.elts) and isinstance(et, tuple) \
                and et[0] == 'tuple' and len(et[1]) == len(s.target.elts):
            targets = [(x.id, t) for x, t in zip(s.target.elts, et[1])]
            pat = '(' + ', '.join(lname(n) for n, _ in targets) + ')'
        else:
            raise TrErr('loop target ' + ast.unparse(s.target))
        self.nfor += 1
        fname = f'{self.info.name}_for{self.nfor}'
        after = loads(rest)
        tn = [n for n, _ in targets]
        for n in tn:
            if n in self.env:
                raise TrErr(f'the loop variable {n} exists before the loop')
        maybe = [(n, t) for n, t in targets if n in after]
        asg = assigned_names(s.body)
        if 'self' in asg:
            raise TrErr('assignment to self.<attr> inside a loop')
        if any(n in tn for n in asg):
            raise TrErr('the loop body assigns to the loop variable')
        carried = [n for n in asg if n in self.env]
        body_loads = loads(s.body)
        uses_self = 'self' in body_loads
        free = (['self'] if uses_self else []) + [n for n in body_loads if n in self.env and n not in carried and n not in tn]
        if any(isinstance(x, ast.Call) and isinstance(x.func, ast.Attribute) and isinstance(x.func.value, ast.Name) and x.func.value.id == 'self'
               for b in s.body for x in ast.walk(b)):
            raise TrErr('a method call inside a for loop (the loop function would take part in the recursion)')
        mnames = [n for n, _ in maybe]
        outer_env, outer_loop = dict(self.env), self.loop
        ctypes = {n: self.env[n][1] for n in carried}
        for n, t in targets:
            self.env[n] = ('def', t)
        fixed = ''.join(' ' + lname(n) for n in free)

        def go_on(ls, i):
            ls.append(f'{i}{fname}{fixed} ' + ' '.join(['it_'] + [f'(some {lname(n)})' for n in mnames] + [lname(n) for n in carried]))

        def brk(ls, i):
            ls.append(f'{i}pure ' + self.tup([f'(some {lname(n)})' for n in mnames] + [lname(n) for n in carried]))
        self.loop = {'break': brk, 'continue': go_on}
        body = []
        self.stmts(s.body, body, '    ', go_on)
        self.loop = outer_loop
        for n in carried:
            if self.env[n][1] != ctypes[n]:
                raise TrErr(f'{n} changes its type in the loop')
        self.env = outer_env
        st_ty = [f'Option {atom(lean_ty(t))}' for _, t in maybe] + [lean_ty(ctypes[n]) for n in carried]
        ret_ty = ' × '.join(atom(x) for x in st_ty) if st_ty else 'Unit'
        sig = ' → '.join([f'List {atom(lean_ty(et))}'] + [atom(x) for x in st_ty] + [f'Option ({ret_ty})'])
        fixed_decl = ''.join(f' ({lname(n)} : {"ASTTransformer" if n == "self" else lean_ty(self.env[n][1])})' for n in free)
        st_pats = [f'{n}?' for n in mnames] + [lname(n) for n in carried]
        hdr = [f'/-- the `for` loop at line {s.lineno} of `{self.info.name}` (loop {self.nfor}): `{ast.unparse(s).splitlines()[0]}` -/',
               f'def {fname}{fixed_decl} : {sig}',
               '  | ' + ', '.join(['[]'] + st_pats) + ' => pure ' + self.tup(st_pats),
               '  | ' + ', '.join([f'{pat} :: it_'] + st_pats) + ' => do']
        self.info.aux.append(hdr + body)
        call = f'{fname}{fixed} ' + ' '.join([atom(it)] + ['none' for _ in maybe] + [lname(n) for n in carried])
        if st_pats:
            lines.append(f'{ind}let {self.tup(st_pats)} ← {call}')
        else:
            lines.append(f'{ind}{call}')
        for n, t in maybe:
            self.env[n] = ('maybe', t)

    def while_stmt(self, s, rest, lines, ind):
        if s.orelse:
            raise TrErr('while .. else')
        if not self.info.fuel:
            raise TrErr('a while loop in a method outside a recursive group (no fuel)')
        if self.loop is not None:
            raise TrErr('a while loop inside a for loop')
        if any(isinstance(x, (ast.Break, ast.Continue, ast.Return)) for b in s.body for x in ast.walk(b)):
            raise TrErr('break / continue / return in a while loop')
        self.nwhile += 1
        fname = f'{self.info.name}_while{self.nwhile}'
        asg = assigned_names(s.body)
        if 'self' in asg:
            raise TrErr('assignment to self.<attr> inside a loop')
        carried = [n for n in asg if n in self.env]
        new = [n for n in asg if n not in self.env]
        if any(n in loads(rest) for n in new):
            raise TrErr(f'{new} first assigned in a while loop and read after it')
        free = [n for n in loads(s.body) + loads([s.test]) if n in self.env and n not in carried and n != 'self']
        free = list(dict.fromkeys(free))
        fixed = ''.join(' ' + lname(n) for n in free)
        outer_env = dict(self.env)
        body = []
        c = self.cond(s.test)
        if self.pre:
            raise TrErr('an operation that can raise in a while condition')
        body.append(f'    if {c} then do')

        def again(ls, i):
            ls.append(f'{i}{fname} self{fixed} fuel ' + ' '.join(lname(n) for n in carried))
        self.stmts(s.body, body, '      ', again)
        body.append('    else do')
        body.append('      pure ' + self.tup([lname(n) for n in carried]))
        ctypes = {n: self.env[n][1] for n in carried}
        for n in carried:
            outer_env[n] = self.env[n]
        self.env = outer_env
        st_ty = [lean_ty(ctypes[n]) for n in carried]
        sig = ' → '.join(['Nat'] + [atom(x) for x in st_ty] + ['Option (' + ' × '.join(atom(x) for x in st_ty) + ')'])
        fixed_decl = ''.join(f' ({lname(n)} : {lean_ty(self.env[n][1])})' for n in free)
        hdr = [f'/-- the `while` loop at line {s.lineno} of `{self.info.name}` (loop {self.nwhile}): `{ast.unparse(s).splitlines()[0]}`; `none` also when the fuel runs out -/',
               f'def {fname} (self : ASTTransformer){fixed_decl} : {sig}',
               '  | 0' + ', _' * len(carried) + ' => none',
               '  | fuel + 1, ' + ', '.join(lname(n) for n in carried) + ' => do']
        self.info.group_aux.append(hdr + body)
        lines.append(f'{ind}let {self.tup([lname(n) for n in carried])} ← {fname} self{fixed} fuel ' + ' '.join(lname(n) for n in carried))


def translate_method(P, info):
    f = Fn(P, info)
    lines = []

    def fall_off(ls, i):
        raise TrErr('the method can end without a return')
    f.stmts(info.fn.body, lines, '    ' if info.fuel else '  ', fall_off)
    info.lines = [l.text() if isinstance(l, Pending) else l for l in lines]
    for grp in (info.aux, info.group_aux):
        for a in grp:
            a[:] = [l.text() if isinstance(l, Pending) else l for l in a]


def method_header(info):
    ps = info.params
    ret = lean_ty(info.ret)
    if info.mutates:
        ret = f'{atom(ret)} × ASTTransformer'
    doc = f'/-- `ASTTransformer.{info.name}` (parser.py line {info.fn.lineno})' + \
          ('; also returns `self`, whose `metavariables` it assigns' if info.mutates else '') + \
          ('; `none` also when the fuel runs out' if info.fuel else '') + ' -/'
    if info.fuel:
        sig = ' → '.join(['Nat'] + [atom(lean_ty(t)) for _, t in ps] + [f'Option ({ret})'])
        return [doc, f'def {info.name} (self : ASTTransformer) : {sig}',
                '  | 0' + ', _' * len(ps) + ' => none',
                '  | fuel + 1, ' + ', '.join(lname(n) for n, _ in ps) + ' => do']
    return [doc, f'def {info.name} (self : ASTTransformer) ' + ' '.join(f'({lname(n)} : {lean_ty(t)})' for n, t in ps) + f' : Option ({ret}) := do']


# ================================================================================================ C. grammar rules -> functions

class GrammarGen:
    def __init__(self, G, P, start, problems):
        self.G, self.P, self.start, self.problems = G, P, start, problems
        self.ret = {}          # rule -> type of the callback's result
        self.fuel = {}         # rule -> needs fuel
        self.cb_args = {}      # callback -> type of args

    def single_token_rule(self, r):
        alts = self.G.rules.get(r, [])
        return len(alts) == 1 and len(alts[0][0]) == 1 and alts[0][0][0][0] == 'term' and alts[0][0][0][2] == ''

    def first(self, r, seen=()):
        """FIRST(rule): (literals, contains TOKEN)"""
        if r in seen:
            return [], False
        lits, tok = [], False
        for items, _ in self.G.rules[r]:
            for it in items:
                if it[0] == 'lit':
                    if it[1] not in lits:
                        lits.append(it[1])
                elif it[0] == 'term':
                    tok = True
                else:
                    l2, t2 = self.first(it[1], seen + (r,))
                    lits += [x for x in l2 if x not in lits]
                    tok = tok or t2
                if it[2] != '*' and not (it[0] == 'rule' and self.nullable(it[1])):
                    break
        return lits, tok

    def nullable(self, r):
        return any(all(it[2] == '*' for it in items) for items, _ in self.G.rules[r])

    def order(self):
        """rules in dependency order; a rule may refer to itself (needs fuel), not to a later one cyclically"""
        done, out = set(), []

        def visit(r, stack):
            if r in done:
                return
            if r in stack:
                return
            for items, _ in self.G.rules[r]:
                for it in items:
                    if it[0] == 'rule':
                        if it[1] not in self.G.rules:
                            raise TrErr(f'rule {r} refers to the unknown rule {it[1]}')
                        if it[1] != r:
                            if it[1] in stack:
                                raise TrErr(f'mutual recursion between the rules {r} and {it[1]}')
                            visit(it[1], stack + [r])
            done.add(r)
            out.append(r)
        for r in self.G.order:
            visit(r, [])
        return out

    def child_type(self, r, it):
        if it[0] == 'term':
            t = 'tok'
        elif it[1] in self.ret:
            t = self.ret[it[1]]
        else:
            return None
        return ('list', t) if it[2] else t

    def prepare(self):
        """argument types of the callbacks (the children of each alternative), result types of the rules"""
        for r in self.order():
            self.fuel[r] = any(it[0] == 'rule' and (it[1] == r or self.fuel.get(it[1], False)) for items, _ in self.G.rules[r] for it in items)
            deferred = []
            rets = []
            for k, (items, alias) in enumerate(self.G.rules[r]):
                cb = alias or r
                if any(it[0] == 'rule' and it[1] == r for it in items):
                    deferred.append((k, items, cb))
                    continue
                rets.append(self.translate_cb(r, k, items, cb))
            rs = {repr(x) for x in rets if x is not None}
            if len(rs) > 1:
                raise TrErr(f'the alternatives of rule {r} have results of different types: {sorted(rs)}')
            self.ret[r] = next((x for x in rets if x is not None), None)
            for k, items, cb in deferred:
                if self.ret[r] is None:
                    raise TrErr(f'rule {r}: the type of a recursive alternative cannot be determined')
                t = self.translate_cb(r, k, items, cb)
                if t is not None and repr(t) != repr(self.ret[r]):
                    raise TrErr(f'rule {r}: alternative {k + 1} has a result of type {t}')

    def args_type(self, r, items):
        """-> (type of `args`, how to build it from the children c1.. : list of (index, kind))"""
        kids = []
        n = 0
        for it in items:
            if it[0] == 'lit':
                if it[2]:
                    raise TrErr(f'rule {r}: a repeated literal')
                continue
            n += 1
            t = self.child_type(r, it)
            if t is None:
                raise TrErr(f'rule {r}: the type of the child {it[1]} is unknown')
            kids.append((n, t, bool(it[2])))
        elts = [(t[1] if rep else t) for _, t, rep in kids]
        uniq = []
        for e in elts:
            if e not in uniq:
                uniq.append(e)
        if len(uniq) <= 1:
            et = uniq[0] if uniq else None
            parts = [(f'c{i}' if rep else f'[c{i}]') for i, t, rep in kids]
            return ('list', et), (' ++ '.join(parts) if parts else '[]')
        if all(e in ('str', ('list', 'str')) for e in uniq):
            parts = []
            for i, t, rep in kids:
                e = t[1] if rep else t
                if e == 'str':
                    parts.append(f'c{i}.map Arg.str' if rep else f'[Arg.str c{i}]')
                else:
                    if rep:
                        raise TrErr(f'rule {r}: a repeated child of type list')
                    parts.append(f'[Arg.list c{i}]')
            return ('list', 'arg'), ' ++ '.join(parts)
        raise TrErr(f'rule {r}: children of the types {uniq}')

    def translate_cb(self, r, k, items, cb):
        """translate the callback of an alternative (once); -> its result type"""
        at, build = self.args_type(r, items)
        if cb not in self.P.methods:
            raise TrErr(f'rule {r}, alternative {k + 1}: ASTTransformer has no callback `{cb}` (lark would build a Tree)')
        m = self.P.methods[cb]
        if m.fuel:
            raise TrErr(f'the callback {cb} is recursive')
        if len(m.fn.args.args) != 2:
            raise TrErr(f'the callback {cb} does not take exactly (self, args)')
        if cb in self.cb_args:
            if repr(self.cb_args[cb]) != repr(at):
                raise TrErr(f'the callback {cb} is used with children of different types')
            return m.ret
        if at[1] is None:
            raise TrErr(f'rule {r}: an alternative without children')
        self.cb_args[cb] = at
        m.params = [(m.fn.args.args[1].arg, at)]
        try:
            translate_method(self.P, m)
        except TrErr as ex:
            self.problems.append(f'parser.py: {cb}: {ex}')
            m.lines = None
        return m.ret

    def emit_alt(self, r, k, items, alias, out, ind, recursive):
        cb = alias or r
        m = self.P.methods.get(cb)
        _, build = self.args_type(r, items)
        n = 0
        for j, it in enumerate(items):
            if it[0] == 'lit':
                out.append(f'{ind}let ts ← gLit {lean_str(it[1])} ts')
                continue
            n += 1
            if it[0] == 'term':
                if it[1] != 'TOKEN':
                    raise TrErr(f'rule {r}: terminal {it[1]}')
                p = 'gTOKEN keywords'
                if it[2]:
                    raise TrErr(f'rule {r}: a repeated terminal')
                out.append(f'{ind}let (c{n}, ts) ← gTOKEN keywords ts')
                continue
            sub = it[1]
            p = f'g_{sub}' + (' fuel' if self.fuel[sub] else '')
            if it[2]:
                nxt = items[j + 1] if j + 1 < len(items) else None
                lits, tok = self.first(sub)
                if nxt is not None:
                    if nxt[0] != 'lit' or nxt[1] in lits:
                        raise TrErr(f'rule {r}: the item behind `{sub}{it[2]}` is not a literal outside FIRST({sub})')
                else:
                    self.check_follow(r, lits)
                comb = 'gPlus' if it[2] == '+' else 'gStar'
                out.append(f'{ind}let (c{n}, self, ts) ← {comb} first_{sub} ({p}) self ts'.replace(f'({p})', p if ' ' not in p else f'({p})'))
            else:
                out.append(f'{ind}let (c{n}, self, ts) ← {p} self ts')
        if m is None or m.lines is None:
            raise TrErr(f'rule {r}: the callback {cb} is not translated')
        if m.mutates:
            out.append(f'{ind}let (r, self) ← {cb} self ({build})')
        else:
            out.append(f'{ind}let r ← {cb} self ({build})')
        out.append(f'{ind}pure (r, self, ts)')

    def check_follow(self, r, lits):
        """a starred item ends rule r: everywhere r is used, a literal outside `lits` must follow (or r is the start rule)"""
        used = False
        for r2, alts in self.G.rules.items():
            for items, _ in alts:
                for j, it in enumerate(items):
                    if it[0] == 'rule' and it[1] == r:
                        used = True
                        nxt = items[j + 1] if j + 1 < len(items) else None
                        if it[2] or nxt is None or nxt[0] != 'lit' or nxt[1] in lits:
                            raise TrErr(f'rule {r} ends with a repetition and is not followed by a literal in rule {r2}')
        if not used and r != self.start:
            raise TrErr(f'rule {r} is not used')

    def selector(self, r, items):
        """the keyword prefix an alternative is chosen by: [(position, 'lit', s) | (position, 'TOKEN')] up to the first literal"""
        sel = []
        for pos, it in enumerate(items):
            if it[0] == 'lit':
                sel.append((pos, 'lit', it[1]))
                return sel
            if it[2] or not (it[0] == 'term' or self.single_token_rule(it[1])):
                raise TrErr(f'rule {r}: an alternative whose prefix before its first literal is not a sequence of single tokens')
            sel.append((pos, 'TOKEN'))
        raise TrErr(f'rule {r}: an alternative without a literal (among several alternatives)')

    def emit(self, final_out):
        G = self.G
        self.failed = set()
        for r in self.order():
            out = []
            try:
                for items, _ in G.rules[r]:
                    for it in items:
                        if it[0] == 'rule' and it[1] in self.failed:
                            raise TrErr(f'rule {r} uses the rule {it[1]}, which is not translated')
                if any(it[0] == 'rule' and it[1] == r and it[2] for alts2 in G.rules.values() for items, _ in alts2 for it in items):
                    if self.nullable(r):
                        raise TrErr(f'the repeated rule {r} can derive the empty sequence')
                    lits, tok = self.first(r)
                    parts = [f't == {lean_str(l)}' for l in lits] + (['!keywords.contains t'] if tok else [])
                    out.append(f'/-- FIRST({r}): the tokens an `{r}` can start with (`{r}*` / `{r}+` go on while the next token is one of them) -/')
                    out.append(f'def first_{r} (t : String) : Bool := ' + ' || '.join(parts))
                alts = G.rules[r]
                ret = f'{atom(lean_ty(self.ret[r]))} × ASTTransformer × List String'
                text = ' | '.join(' '.join((lean_str(i[1]) if i[0] == 'lit' else i[1]) + i[2] for i in items) + (f' -> {a}' if a else '') for items, a in alts)
                out.append(f'/-- rule `{r}: {text}` (grammar line {G.lines[r]}): the tokens of one `{r}` ↦ the result of its callback on the children'
                           + ('; `none` also when the fuel runs out' if self.fuel[r] else '') + ' -/')
                recursive = any(it[0] == 'rule' and it[1] == r for items, _ in alts for it in items)
                if recursive:
                    out.append(f'def g_{r} : Nat → ASTTransformer → List String → Option ({ret})')
                    out.append('  | 0, _, _ => none')
                    out.append('  | fuel + 1, self, ts =>')
                    ind = '    '
                elif self.fuel[r]:
                    out.append(f'def g_{r} (fuel : Nat) (self : ASTTransformer) (ts : List String) : Option ({ret}) :=')
                    ind = '  '
                else:
                    out.append(f'def g_{r} (self : ASTTransformer) (ts : List String) : Option ({ret}) :=')
                    ind = '  '
                if len(alts) == 1:
                    items, alias = alts[0]
                    out.append(f'{ind}-- {r}: ' + ' '.join((lean_str(i[1]) if i[0] == 'lit' else i[1]) + i[2] for i in items) + (f' -> {alias}' if alias else ''))
                    out.append(f'{ind}do')
                    self.emit_alt(r, 0, items, alias, out, ind + '  ', recursive)
                else:
                    sels = [self.selector(r, items) for items, _ in alts]
                    for a in range(len(sels)):
                        for b in range(a + 1, len(sels)):
                            da, db = {x[0]: x[1:] for x in sels[a]}, {x[0]: x[1:] for x in sels[b]}
                            if not any(p in db and da[p] != db[p] for p in da):
                                raise TrErr(f'rule {r}: the alternatives {a + 1} and {b + 1} are not told apart by their keyword prefixes')
                    for k, (items, alias) in enumerate(alts):
                        cond = ' && '.join((f'gPeekLit ts {x[0]} {lean_str(x[2])}' if x[1] == 'lit' else f'gPeekTOKEN keywords ts {x[0]}') for x in sels[k])
                        out.append(f'{ind}-- {"| " if k else ""}' + ' '.join((lean_str(i[1]) if i[0] == 'lit' else i[1]) + i[2] for i in items) + (f' -> {alias}' if alias else ''))
                        out.append(f'{ind}{"else " if k else ""}if {cond} then do')
                        self.emit_alt(r, k, items, alias, out, ind + '  ', recursive)
                    out.append(f'{ind}else none   -- no alternative starts like this: a syntax error')
                final_out.extend(out)
            except TrErr as ex:
                self.failed.add(r)
                self.problems.append(f'grammar: {ex}')
                final_out.append(f'-- rule {r}: NOT TRANSLATED: {ex}')


# ================================================================================================ D. the Encoder

VISITOR_TEXT = [
    ('previsit_default', 'self, x: TreeT', 'return'),
    ('visit_children_of_default', 'self, x: TreeT', 'return []'),
    ('postvisit_default', 'self, x: TreeT, *args: ChildrenResultT[ResultT]', 'return x'),
    ('visit', 'self, x: TreeT', 'return x.visit(self)'),
    ('__getattr__', 'self, name: str',
     "if name.startswith('previsit_'):\n    return self.previsit_default\nelif name.startswith('visit_children_of_'):\n    return self.visit_children_of_default\n"
     "elif name.startswith('postvisit_'):\n    return self.postvisit_default\nelif name.startswith('proxy_visit_'):\n    name = name[12:]\n\n"
     "    def f(node: TreeT) -> ResultT:\n        getattr(self, 'previsit_' + name)(node)\n        children = getattr(self, 'visit_children_of_' + name)(node)\n"
     "        return getattr(self, 'postvisit_' + name)(node, *children)\n    return f\nelse:\n    raise AttributeError(name)"),
]
PRINTER_TEXT = [
    ('__init__', "self, output: TextIO, tab: str='  '",
     "super().__init__()\nself.output = output\nself.tab = tab\nself.current_indentation = ''\nself.line_buffer: list[str] = []"),
    ('indent', 'self', 'self.current_indentation += self.tab'),
    ('deindent', 'self', "assert len(self.current_indentation) >= len(self.tab), 'cannot de-indent further'\n"
                         "self.current_indentation = self.current_indentation[:-len(self.tab)]"),
    ('indentation', 'self', 'self.indent()\nyield\nself.deindent()'),
    ('flush', 'self', 'for i, s in enumerate(self.line_buffer):\n    if i == len(self.line_buffer) - 1:\n        s = s.rstrip()\n    self.output.write(s)\nself.line_buffer = []'),
    ('is_line_buffer_empty', 'self', "for s in self.line_buffer:\n    if s.strip(' \\t\\x0c\\r') != '' and (len(self.tab) == 0 or s != len(s) // len(self.tab) * self.tab):\n"
                                     '        return False\nreturn True'),
    ('write', 'self, msg: str', "for i, line in enumerate(msg.split('\\n')):\n    if i != 0:\n        self.flush()\n        self.output.write('\\n')\n"
                                "    if self.is_line_buffer_empty():\n        self.line_buffer = [self.current_indentation]\n    self.line_buffer.append(line)"),
]
ENCODER_GLUE = {
    'encode': ('output: TextIO, ast: BaseAST, *args: Any, **kwargs: Any', ['staticmethod'],
               'encoder = Encoder(output, *args, **kwargs)\nencoder.visit(ast)\nencoder.flush()'),
    'encode_string': ('ast: BaseAST, *args: Any, **kwargs: Any', ['staticmethod'],
                      'stream = StringIO()\nEncoder.encode(stream, ast, *args, **kwargs)\nreturn stream.getvalue()'),
}


def check_class_text(mod, cname, expected, fname, problems, exact=True):
    cls = [c for c in mod.body if isinstance(c, ast.ClassDef) and c.name == cname]
    if len(cls) != 1:
        problems.append(f'{fname}: class {cname} not found')
        return
    have = {}
    for s in cls[0].body:
        if isinstance(s, ast.FunctionDef):
            have[s.name] = (ast.unparse(s.args), dump_fn(s), [ast.unparse(d) for d in s.decorator_list])
        elif not (isinstance(s, ast.Expr) and isinstance(s.value, ast.Constant)):
            problems.append(f'{fname}: line {s.lineno}: a member of {cname} that is not a method')
    for n, a, b in expected:
        if n not in have:
            problems.append(f'{fname}: {cname}.{n} is missing')
        elif have[n][:2] != (a, b):
            problems.append(f'{fname}: {cname}.{n} is not the text this translator (and what it assumes of {cname}) was written against')
    for n in have:
        if n not in [e[0] for e in expected]:
            problems.append(f'{fname}: {cname}.{n}: a method this translator does not know')
    ctx = [d for d in have.get('indentation', ('', '', []))[2]]
    if cname == 'Printer' and ctx != ['contextmanager']:
        problems.append(f'{fname}: Printer.indentation is not a @contextmanager')


class Enc:
    """the translation of class Encoder: a method = the list of the strings it writes"""

    def __init__(self, C, ctor, acc, cls, problems):
        self.C, self.ctor, self.acc, self.cls, self.problems = C, ctor, acc, cls, problems
        self.methods = {s.name: s for s in cls.body if isinstance(s, ast.FunctionDef)}
        self.aux_plain = []      # loop functions that do not reach visit_Stmt
        self.aux_term = []       # loop functions in the recursion of visit_Term
        self.aux_stmt = []       # loop functions in the recursion of visit_Stmt
        self.helpers = {}        # value-returning methods: name -> (params, type)

    # ---- dispatch
    def dispatch(self, n):
        """class -> (method name or None, FunctionDef)"""
        name = 'postvisit_' + self.C.visit_name(n)
        return name, self.methods.get(name)

    # ---- expressions
    def expr(self, e, U):
        if isinstance(e, ast.Constant) and isinstance(e.value, str):
            return lean_str(e.value), 'str'
        if isinstance(e, ast.Constant) and isinstance(e.value, int) and not isinstance(e.value, bool) and e.value >= 0:
            return str(e.value), 'nat'
        key = ast.unparse(e)
        if key in U['narrow']:
            return U['narrow'][key]
        if isinstance(e, ast.Name):
            if e.id not in U['env']:
                raise TrErr(f'unknown name {e.id}')
            U['used'].add(U['env'][e.id][0])
            return U['env'][e.id]
        if isinstance(e, ast.Attribute):
            if isinstance(e.value, ast.Name) and e.value.id == 'self':
                if e.attr in ('omit_proof',):
                    return 'self.omit_proof', 'bool'
                if e.attr == 'tab':
                    return 'self.tab', 'str'
                raise TrErr(f'attribute self.{e.attr}')
            if isinstance(e.value, ast.Name) and e.value.id in U['fields']:
                # the parameter of a method whose node is destructured: its fields are variables
                fs = U['fields'][e.value.id]
                if e.attr not in fs:
                    raise TrErr(f'{e.value.id}.{e.attr}: no such field')
                U['used'].add(fs[e.attr][0])
                return fs[e.attr]
            o, t = self.expr(e.value, U)
            if t == 'db' and e.attr == 'statements':
                return f'{atom(o)}.statements', ('list', 'stmt')
            if t == 'stmt':
                classes = U['classes'].get(o)
                if classes is None or e.attr not in self.acc or not set(classes) <= self.acc[e.attr][0]:
                    raise TrErr(f'attribute `{ast.unparse(e)}`: not every class of the node has the field')
                return f'{atom(o)}.{lname(e.attr)}', self.acc[e.attr][1]
            raise TrErr(f'attribute `{ast.unparse(e)}` of a value of type {t}')
        if isinstance(e, ast.BinOp) and isinstance(e.op, ast.Add):
            a, ta = self.expr(e.left, U)
            b, tb = self.expr(e.right, U)
            if ta == tb == 'nat':
                return f'({atom(a)} + {atom(b)})', 'nat'
            raise TrErr(f'operation {ast.unparse(e)}')
        if isinstance(e, ast.Subscript) and isinstance(e.slice, ast.Slice) and e.slice.step is None:
            v, tv = self.expr(e.value, U)
            lo, hi = e.slice.lower, e.slice.upper
            if tv == 'str' and lo is None and ast.unparse(hi) == '-1':
                return f'(strDropLast1 {atom(v)})', 'str'
            if tv == 'str' and hi is None and ast.unparse(lo) == '-1':
                return f'(strLast1 {atom(v)})', 'str'
            raise TrErr('slice ' + ast.unparse(e))
        if isinstance(e, ast.Call):
            f = e.func
            if e.keywords:
                raise TrErr('keyword arguments ' + ast.unparse(e))
            if isinstance(f, ast.Name) and f.id == 'len' and len(e.args) == 1:
                x, t = self.expr(e.args[0], U)
                if not is_list(t):
                    raise TrErr(f'len of {t}')
                return f'{atom(x)}.length', 'nat'
            if isinstance(f, ast.Name) and f.id == 'isinstance' and len(e.args) == 2 and isinstance(e.args[1], ast.Name):
                x, t = self.expr(e.args[0], U)
                c = e.args[1].id
                if t == 'stmt' and c in self.C.stmt_classes:
                    return f'(is{c} {atom(x)})', 'bool'
                if t == 'term' and c == 'Term':
                    return 'true', 'bool'
                raise TrErr(f'isinstance({ast.unparse(e.args[0])} : {t}, {c})')
            if isinstance(f, ast.Attribute) and isinstance(f.value, ast.Name) and f.value.id == 'self' and f.attr in self.helpers:
                ps, rt = self.helpers[f.attr]
                if len(e.args) != len(ps):
                    raise TrErr('call ' + ast.unparse(e))
                args = []
                for a, pt in zip(e.args, ps):
                    x, t = self.expr(a, U)
                    if t != pt:
                        raise TrErr(f'argument {ast.unparse(a)} : {t}')
                    args.append(atom(x))
                return f'({f.attr} self {" ".join(args)})', rt
            if isinstance(f, ast.Attribute) and f.attr == 'isspace' and not e.args:
                x, t = self.expr(f.value, U)
                if t != 'str':
                    raise TrErr('isspace of ' + t)
                return f'(pyStrIsSpace {atom(x)})', 'bool'
            raise TrErr('call ' + ast.unparse(e)[:80])
        if isinstance(e, ast.UnaryOp) and isinstance(e.op, ast.Not):
            return f'!{atom(self.cond(e.operand, U))}', 'bool'
        if isinstance(e, ast.Compare) and len(e.ops) == 1 and isinstance(e.ops[0], (ast.Eq, ast.NotEq)):
            a, ta = self.expr(e.left, U)
            b, tb = self.expr(e.comparators[0], U)
            if ta != tb or ta not in ('nat', 'str'):
                raise TrErr(f'comparison {ast.unparse(e)} of {ta}, {tb}')
            return f'({atom(a)} {"==" if isinstance(e.ops[0], ast.Eq) else "!="} {atom(b)})', 'bool'
        raise TrErr('expression ' + ast.unparse(e)[:80])

    def cond(self, e, U):
        x, t = self.expr(e, U)
        if t == 'bool':
            return x
        if t == 'str':
            return f'(strTruthy {atom(x)})'
        raise TrErr(f'truth value of {ast.unparse(e)} : {t}')

    # ---- statements -> an expression of type `List PCall`, as lines
    def seq(self, body, U, ind):
        items = []        # each: list of lines (comment lines, then the expression)
        self.collect(strip_doc(body), U, ind, items)
        if not items:
            return [f'{ind}[]']
        out = []
        for k, it in enumerate(items):
            if k + 1 < len(items):
                it = it[:-1] + [it[-1] + ' ++']
            out += it
        return out

    def collect(self, body, U, ind, items):
        for s in body:
            src = ast.unparse(s).split('\n')[0]
            com = f'{ind}-- {src}'
            if isinstance(s, ast.Expr) and isinstance(s.value, ast.Call) and isinstance(s.value.func, ast.Attribute) \
                    and isinstance(s.value.func.value, ast.Name) and s.value.func.value.id == 'self' and not s.value.keywords:
                m, args = s.value.func.attr, s.value.args
                if m == 'write' and len(args) == 1:
                    x, t = self.expr(args[0], U)
                    if t != 'str':
                        raise TrErr(f'write({ast.unparse(args[0])}) of {t}')
                    items.append([com, f'{ind}[.write {atom(x)}]'])
                    continue
                if m == 'visit' and len(args) == 1:
                    x, t = self.expr(args[0], U)
                    if t == 'term':
                        U['rec_term'] = True
                        items.append([com, f'{ind}visit_Term self {atom(x)}'])
                    elif t == 'stmt':
                        U['rec_stmt'] = True
                        items.append([com, f'{ind}visit_Stmt self {atom(x)}'])
                    else:
                        raise TrErr(f'visit({ast.unparse(args[0])}) of {t}')
                    continue
                raise TrErr('statement ' + src[:80])
            if isinstance(s, ast.Assert):
                c = self.cond(s.test, U)
                if c != 'true':
                    raise TrErr('an assert that does not hold by typing: ' + src[:80])
                items.append([com + '   (holds by typing; nothing is written)', f'{ind}[]'])
                continue
            if isinstance(s, ast.With):
                ok = (len(s.items) == 1 and s.items[0].optional_vars is None and ast.unparse(s.items[0].context_expr) == 'self.indentation()')
                if not ok:
                    raise TrErr('with ' + src[:80])
                items.append([com + '   (indent .. deindent: `Printer.indentation` is a @contextmanager)', f'{ind}[.indent]'])
                self.collect(s.body, U, ind, items)
                items.append([f'{ind}-- (end of the with block)', f'{ind}[.deindent]'])
                continue
            if isinstance(s, ast.If):
                items.append(self.if_stmt(s, U, ind, com))
                continue
            if isinstance(s, ast.For):
                items.append(self.for_stmt(s, U, ind, com))
                continue
            raise TrErr('statement ' + src[:80])

    def if_stmt(self, s, U, ind, com):
        t = s.test
        if isinstance(t, ast.Compare) and len(t.ops) == 1 and isinstance(t.ops[0], (ast.IsNot, ast.Is)) \
                and isinstance(t.comparators[0], ast.Constant) and t.comparators[0].value is None:
            x, tx = self.expr(t.left, U)
            if not (isinstance(tx, tuple) and tx[0] == 'opt'):
                raise TrErr(f'{ast.unparse(t)}: {tx}')
            var = re.sub(r'\W', '_', ast.unparse(t.left))
            key = ast.unparse(t.left)
            some_body, none_body = (s.body, s.orelse) if isinstance(t.ops[0], ast.IsNot) else (s.orelse, s.body)
            out = [com, f'{ind}(match {x} with']
            out.append(f'{ind}| some {var} =>' + ('' if isinstance(t.ops[0], ast.IsNot) else '   -- else:'))
            saved = dict(U['narrow'])
            U['narrow'][key] = (var, tx[1])
            out += self.seq(some_body, U, ind + '  ')
            U['narrow'] = saved
            out.append(f'{ind}| none =>' + ('   -- else:' if isinstance(t.ops[0], ast.IsNot) else ''))
            out += self.seq(none_body, U, ind + '  ')
            out[-1] += ')'
            return out
        c = self.cond(t, U)
        out = [com, f'{ind}(if {c} then']
        saved_classes = dict(U['classes'])
        if isinstance(t, ast.Call) and isinstance(t.func, ast.Name) and t.func.id == 'isinstance' and isinstance(t.args[0], ast.Name) \
                and isinstance(t.args[1], ast.Name) and U['env'].get(t.args[0].id, (None, None))[1] == 'stmt':
            v = U['env'][t.args[0].id][0]
            U['classes'] = dict(U['classes'])
            U['classes'][v] = [c2 for c2 in U['classes'].get(v, []) if c2 in self.C.subclasses(t.args[1].id)]
        out += self.seq(s.body, U, ind + '  ')
        U['classes'] = saved_classes
        if len(s.orelse) == 1 and isinstance(s.orelse[0], ast.If):
            out.append(f'{ind}else   -- elif')
        else:
            out.append(f'{ind}else' + ('' if s.orelse else '   -- (no else)'))
        out += self.seq(s.orelse, U, ind + '  ')
        out[-1] += ')'
        return out

    def for_stmt(self, s, U, ind, com):
        if s.orelse:
            raise TrErr('for .. else')
        it = s.iter
        enum = isinstance(it, ast.Call) and isinstance(it.func, ast.Name) and it.func.id == 'enumerate' and len(it.args) == 1 and not it.keywords
        xs, txs = self.expr(it.args[0] if enum else it, U)
        if not is_list(txs):
            raise TrErr(f'for over {ast.unparse(it)} : {txs}')
        if enum:
            if not (isinstance(s.target, ast.Tuple) and len(s.target.elts) == 2 and all(isinstance(x, ast.Name) for x in s.target.elts)):
                raise TrErr('loop target ' + ast.unparse(s.target))
            cnt, var = s.target.elts[0].id, s.target.elts[1].id
        else:
            if not isinstance(s.target, ast.Name):
                raise TrErr('loop target ' + ast.unparse(s.target))
            cnt, var = None, s.target.id
        U['nfor'] += 1
        fname = f'{U["name"]}_for{U["nfor"]}'
        V = dict(U)
        V['env'] = dict(U['env'])
        V['used'] = set()
        V['rec_term'] = V['rec_stmt'] = False
        V['env'][var] = (lname(var), txs[1])
        V['vt'] = dict(U['vt'])
        V['vt'][lname(var)] = txs[1]
        if txs[1] == 'stmt':
            V['classes'] = dict(U['classes'])
            V['classes'][lname(var)] = list(self.C.stmt_classes)
        if cnt:
            V['env'][cnt] = (lname(cnt), 'nat')
            V['vt'][lname(cnt)] = 'nat'
        body = self.seq(s.body, V, '    ')
        U['nfor'] = V['nfor']
        # free variables of the body: everything it read that is not a loop variable
        free = sorted(x for x in V['used'] if x not in (lname(var), lname(cnt or '')))
        decl = []
        for f in free:
            if f not in U['vt']:
                raise TrErr(f'free variable {f} of a loop')
            decl.append((f, U['vt'][f]))
            U['used'].add(f)
        fixed_decl = ''.join(f' ({f} : {lean_ty(t)})' for f, t in decl)
        fixed = ''.join(f' {f}' for f, _ in decl)
        hdr = [f'/-- the `for` loop at line {s.lineno} of `Encoder.{U["name"]}` (loop {U["nfor"]}): `{ast.unparse(s).splitlines()[0]}` -/']
        if cnt:
            hdr += [f'def {fname} (self : Encoder){fixed_decl} : List {atom(lean_ty(txs[1]))} → Nat → List PCall',
                    '  | [], _ => []', f'  | {lname(var)} :: it_, {lname(cnt)} =>']
            rec = f'    {fname} self{fixed} it_ ({lname(cnt)} + 1)'
            call = f'{ind}{fname} self{fixed} {atom(xs)} 0'
        else:
            hdr += [f'def {fname} (self : Encoder){fixed_decl} : List {atom(lean_ty(txs[1]))} → List PCall',
                    '  | [] => []', f'  | {lname(var)} :: it_ =>']
            rec = f'    {fname} self{fixed} it_'
            call = f'{ind}{fname} self{fixed} {atom(xs)}'
        body[-1] = body[-1] + ' ++'
        fn = hdr + body + [rec]
        if V['rec_stmt'] and U.get('in_stmt'):
            U['rec_stmt'] = True
            self.aux_stmt.append(fn)
        elif V['rec_term'] and U.get('in_term'):
            U['rec_term'] = True
            self.aux_term.append(fn)
        else:
            self.aux_plain.append(fn)
        return [com, call]

    def unit(self, name, in_term=False, in_stmt=False):
        return {'in_stmt': in_stmt, 'name': name, 'env': {}, 'fields': {}, 'classes': {}, 'narrow': {}, 'used': set(), 'nfor': 0,
                'rec_term': False, 'rec_stmt': False, 'in_term': in_term, 'vt': {}}

    def helper(self, name):
        """a method that returns a value through an if-chain of `return <expr>` (get_statement_type)"""
        fn = self.methods[name]
        if len(fn.args.args) != 2 or ast.unparse(fn.args.args[1].annotation) != 'StructuredStatement':
            raise TrErr(f'{name}: parameters')
        p = fn.args.args[1].arg
        U = self.unit(name)
        U['env'][p] = (lname(p), 'stmt')
        U['vt'][lname(p)] = 'stmt'
        U['classes'][lname(p)] = self.C.subclasses('StructuredStatement')
        lines = []
        rt = [None]

        def chain(body, ind):
            body = strip_doc(body)
            if len(body) == 1 and isinstance(body[0], ast.Return) and body[0].value is not None:
                x, t = self.expr(body[0].value, U)
                if rt[0] not in (None, t):
                    raise TrErr(f'{name}: results of different types')
                rt[0] = t
                lines.append(f'{ind}-- {ast.unparse(body[0])}')
                lines.append(f'{ind}{x}')
                return
            if len(body) == 1 and isinstance(body[0], ast.If) and body[0].orelse:
                s = body[0]
                lines.append(f'{ind}-- if {ast.unparse(s.test)}:')
                lines.append(f'{ind}if {self.cond(s.test, U)} then')
                chain(s.body, ind + '  ')
                lines.append(f'{ind}else')
                chain(s.orelse, ind + '  ')
                return
            raise TrErr(f'{name}: not an if-chain of returns')
        chain(fn.body, '  ')
        self.helpers[name] = (['stmt'], rt[0])
        return [f'/-- `Encoder.{name}` (ast.py line {fn.lineno}) -/',
                f'def {name} (self : Encoder) ({lname(p)} : Stmt) : {lean_ty(rt[0])} :='] + lines

    def bind_fields(self, U, p, cname, fs):
        """the node of a method that serves one class is destructured: `<p>.<field>` is the variable `<p>_<field>`"""
        U['fields'][p] = {}
        for f in fs:
            v = f'{p}_{f[0]}'
            U['fields'][p][f[0]] = (v, f[1])
            U['vt'][v] = f[1]
        return ' '.join(f'{p}_{f[0]}' for f in fs)

    def param(self, fn, name):
        if len(fn.args.args) != 2 or fn.args.vararg or fn.args.kwarg or fn.args.kwonlyargs:
            raise TrErr(f'{name}: parameters ({ast.unparse(fn.args)})')
        return fn.args.args[1].arg

    def emit(self, out):
        C = self.C
        problems = self.problems
        # ---- the class itself
        bases = [ast.unparse(b) for b in self.cls.bases]
        if bases != ['Printer', 'Visitor[BaseAST, None]']:
            problems.append(f'ast.py: the bases of Encoder are {bases}, not (Printer, Visitor[BaseAST, None]) — with MetamathVisitor the children would be visited before the node')
        init = self.methods.get('__init__')
        tab, omit = "'   '", 'False'
        if init is None or dump_fn(init) != 'super().__init__(output, tab)\nself.omit_proof = omit_proof' or \
                [a.arg for a in init.args.args] != ['self', 'output', 'tab', 'omit_proof'] or len(init.args.defaults) != 2:
            problems.append('ast.py: Encoder.__init__ is not `super().__init__(output, tab); self.omit_proof = omit_proof`')
        else:
            tab, omit = ast.unparse(init.args.defaults[0]), ast.unparse(init.args.defaults[1])
            if not (isinstance(init.args.defaults[0], ast.Constant) and isinstance(init.args.defaults[0].value, str)) or omit not in ('True', 'False'):
                problems.append('ast.py: the defaults of Encoder.__init__')
                tab, omit = "'   '", 'False'
        for n, (a, d, b) in ENCODER_GLUE.items():
            fn = self.methods.get(n)
            if fn is None or (ast.unparse(fn.args), [ast.unparse(x) for x in fn.decorator_list], dump_fn(fn)) != (a, d, b):
                problems.append(f'ast.py: Encoder.{n} is not the text this translator knows (Encoder(output, ..).visit(ast); flush)')
        for n in self.methods:
            if n.startswith(('previsit_', 'visit_children_of_', 'proxy_visit_')) or n in ('visit', '__getattr__', 'write', 'flush', 'indentation', 'indent', 'deindent'):
                problems.append(f'ast.py: Encoder defines {n} itself')
        out.append('/-! ## D. `Encoder` (ast.py): every method is the list of the `Printer` calls it makes (`self.write(s)`; `indent` / `deindent` around a `with self.indentation():`), in order -/')
        out.append(f'/-- the attributes of an `Encoder` (`__init__`, ast.py line {init.lineno if init else 0}); `output` is where `Printer` sends the text -/')
        out.append('structure Encoder where')
        out.append('  tab : String')
        out.append('  omit_proof : Bool')
        out.append(f'/-- `Encoder(output)`: the defaults `tab={tab}`, `omit_proof={omit}` -/')
        out.append(f'def Encoder.new (tab : String := {lean_str(ast.literal_eval(tab))}) (omit_proof : Bool := {omit.lower()}) : Encoder := {{ tab := tab, omit_proof := omit_proof }}')
        # ---- dispatch
        table = {}
        for n in ['Metavariable', 'Application'] + C.stmt_classes + ['Database']:
            try:
                table[n] = self.dispatch(n)
            except TrErr as ex:
                problems.append(f'ast.py: {ex}')
                table[n] = (None, None)
        serves = {}
        for n, (m, fn) in table.items():
            if fn is not None:
                serves.setdefault(m, []).append(n)
        for n in self.methods:
            if n.startswith('postvisit_') and n not in serves:
                problems.append(f'ast.py: Encoder.{n} is reached from no `visit` method')
        # ---- helpers
        for n, fn in self.methods.items():
            if n.startswith('postvisit_') or n in ENCODER_GLUE or n == '__init__':
                continue
            try:
                out.extend(self.helper(n))
            except TrErr as ex:
                problems.append(f'ast.py: Encoder.{n}: line {fn.lineno}: {ex}')

        def how(n):
            m, fn = table[n]
            c, _ = C.method(n, 'visit')
            return f'`{c}.visit` → `proxy_visit_{m[len("postvisit_"):] if m else "?"}` → ' + \
                (f'`Encoder.{m}` (ast.py line {fn.lineno})' if fn is not None else '`Visitor.postvisit_default`: nothing is written')

        def flush_plain():
            for a in self.aux_plain:
                out.extend(a)
            self.aux_plain = []

        # ---- terms
        term_fields = {'Metavariable': [('name', 'str')], 'Application': [('symbol', 'str'), ('subterms', ('list', 'term'))]}
        arms = []
        for n, ctor in (('Metavariable', '.mv'), ('Application', '.app')):
            m, fn = table[n]
            arms.append(f'  -- {how(n)}')
            keep = (list(self.aux_plain), list(self.aux_term))
            try:
                if fn is None:
                    arms.append(f'  | {ctor} .. => []')
                    continue
                if len(serves[m]) != 1:
                    raise TrErr(f'{m} serves several classes {serves[m]}')
                keep = (list(self.aux_plain), list(self.aux_term))
                p = self.param(fn, m)
                U = self.unit(m, in_term=True)
                pat = self.bind_fields(U, p, n, term_fields[n])
                body = self.seq(fn.body, U, '    ')
                if U['rec_stmt']:
                    raise TrErr('a term method visits a statement')
                arms.append(f'  | {ctor} {pat} =>')
                arms.extend(body)
            except TrErr as ex:
                self.aux_plain, self.aux_term = keep
                problems.append(f'ast.py: Encoder.{m}: line {fn.lineno if fn else 0}: {ex}')
                arms.append(f'  | {ctor} .. => []   -- NOT TRANSLATED')
        flush_plain()
        doc = ('/-- `Encoder.visit` (= `Visitor.visit`: `x.visit(self)`) on a `Term`: `proxy_visit_<name>` calls `previsit_<name>` (the default: nothing),\n'
               '`visit_children_of_<name>` (the default: `[]`, no child is visited) and `postvisit_<name>(x)`, whose body is the arm of the class -/')
        if self.aux_term:
            out.append('mutual')
        out.append(doc)
        out.append('def visit_Term (self : Encoder) : MTerm → List PCall')
        out.extend(arms)
        for a in self.aux_term:
            out.extend(a)
        if self.aux_term:
            out.append('end')
        # ---- statements
        arms = []
        separate = {}
        for n in C.stmt_classes:
            m, fn = table[n]
            arms.append(f'  -- {how(n)}')
            keep = (list(self.aux_plain), list(self.aux_stmt))
            try:
                if fn is None:
                    arms.append(f'  | .{n} .. => []')
                    continue
                if len(serves[m]) > 1:
                    if m not in separate:
                        separate[m] = None
                        keep = (list(self.aux_plain), list(self.aux_stmt))
                        try:
                            p = self.param(fn, m)
                            U = self.unit(m)
                            U['env'][p] = (lname(p), 'stmt')
                            U['vt'][lname(p)] = 'stmt'
                            U['classes'][lname(p)] = serves[m]
                            body = self.seq(fn.body, U, '  ')
                            if U['rec_stmt']:
                                raise TrErr('a method that serves several classes visits a statement')
                            separate[m] = [f'/-- `Encoder.{m}` (ast.py line {fn.lineno}), for the classes {", ".join(serves[m])} -/',
                                           f'def {m} (self : Encoder) ({lname(p)} : Stmt) : List PCall :='] + body
                        except TrErr as ex:
                            self.aux_plain, self.aux_stmt = keep
                            problems.append(f'ast.py: Encoder.{m}: line {fn.lineno}: {ex}')
                    if separate[m] is None:
                        arms.append(f'  | .{n} .. => []   -- NOT TRANSLATED')
                    else:
                        arms.append(f'  | s@(.{n} ..) => {m} self s')
                    continue
                keep = (list(self.aux_plain), list(self.aux_stmt))
                p = self.param(fn, m)
                U = self.unit(m, in_stmt=True)
                pat = self.bind_fields(U, p, n, self.ctor[n])
                body = self.seq(fn.body, U, '    ')
                arms.append(f'  | .{n} {pat} =>'.replace('  =>', ' =>'))
                arms.extend(body)
            except TrErr as ex:
                self.aux_plain, self.aux_stmt = keep
                problems.append(f'ast.py: Encoder.{m}: line {fn.lineno}: {ex}')
                arms.append(f'  | .{n} .. => []   -- NOT TRANSLATED')
        flush_plain()
        for m in separate:
            if separate[m] is not None:
                out.extend(separate[m])
        if self.aux_stmt:
            out.append('mutual')
        out.append('/-- `Encoder.visit` on a `Statement` (dispatch as for terms) -/')
        out.append('def visit_Stmt (self : Encoder) : Stmt → List PCall')
        out.extend(arms)
        for a in self.aux_stmt:
            out.extend(a)
        if self.aux_stmt:
            out.append('end')
        self.aux_stmt = []
        # ---- the database
        m, fn = table['Database']
        try:
            if fn is None:
                raise TrErr('no postvisit method for Database')
            p = self.param(fn, m)
            U = self.unit(m)
            U['env'][p] = (lname(p), 'db')
            U['vt'][lname(p)] = 'db'
            body = self.seq(fn.body, U, '  ')
            if self.aux_stmt:
                raise TrErr('internal: recursive loop in postvisit_database')
            flush_plain()
            out.append(f'/-- `Encoder.visit` on a `Database`: {how("Database")} -/')
            out.append(f'def visit_Database (self : Encoder) ({lname(p)} : Database) : List PCall :=')
            out.extend(body)
            out.append('/-- `Encoder.encode(output, ast, ..)` / `Encoder.encode_string(ast, ..)` on a database: `encoder = Encoder(output, ..)`, `encoder.visit(ast)`,')
            out.append('`encoder.flush()`, `stream.getvalue()` — the `Printer` calls, in order (the text: `MMAstSup.printerText self.tab (encode self ast)`) -/')
            out.append('def encode (self : Encoder) (ast : Database) : List PCall := visit_Database self ast')
        except TrErr as ex:
            problems.append(f'ast.py: Encoder.{m}: {ex}')


# ================================================================================================ the generator

PARSE_DATABASE = ('src: str', 'tree = database_parser.parse(src)\nast = ASTTransformer().transform(tree)\nassert isinstance(ast, Database)\nreturn ast')
LOAD_DATABASE = ('path: str, include_proof: bool=True', 'src = flatten_includes(path, set(), include_proof=include_proof)\nreturn parse_database(src)')


def find_grammar(pmod, pdir, problems):
    """the grammar text and the start rule of `database_parser`"""
    text, start = None, None
    consts = {}
    for s in pmod.body:
        if isinstance(s, ast.Assign) and len(s.targets) == 1 and isinstance(s.targets[0], ast.Name):
            if isinstance(s.value, ast.Constant) and isinstance(s.value.value, str):
                consts[s.targets[0].id] = s.value.value
            v = s.value
            if s.targets[0].id == 'database_parser':
                ok = isinstance(v, ast.Call) and isinstance(v.func, ast.Name) and v.func.id == 'Lark' and len(v.args) == 1 and isinstance(v.args[0], ast.Name)
                kw = {k.arg: ast.unparse(k.value) for k in v.keywords} if ok else {}
                if not ok or kw.get('parser') != "'lalr'" or kw.get('lexer') != "'basic'" or 'start' not in kw or \
                        any(k not in ('start', 'parser', 'lexer', 'propagate_positions') for k in kw):
                    problems.append("parser.py: database_parser is not Lark(<grammar>, start=.., parser='lalr', lexer='basic'[, propagate_positions=..])")
                else:
                    start = ast.literal_eval(kw['start'])
                    text = consts.get(v.args[0].id)
    if text is None:
        for f in sorted(os.listdir(pdir)):
            if f.endswith('.lark'):
                problems.append(f'parser.py: the grammar seems to live in {f}; this translator reads it from the string constant passed to Lark')
    return text, start


def gen_mm_ast(srcdir=None, outpath=None):
    """regenerate Pi2/Gen/MMAst.lean; `srcdir`: a source root other than core.PYSRC (sensitivity tests)"""
    problems = []
    root = os.path.join(srcdir or core.PYSRC, 'proof_generation', 'metamath')
    out = []
    try:
        amod = ast.parse(open(os.path.join(root, 'ast.py')).read())
        pmod = ast.parse(open(os.path.join(root, 'parser.py')).read())
        prmod = ast.parse(open(os.path.join(root, 'utils', 'printer.py')).read())
        vmod = ast.parse(open(os.path.join(root, 'utils', 'visitor.py')).read())
        check_class_text(prmod, 'Printer', PRINTER_TEXT, 'utils/printer.py', problems)
        check_class_text(vmod, 'Visitor', VISITOR_TEXT, 'utils/visitor.py', problems)
        C = Classes(amod, problems)
        ctor, acc = gen_classes(C, out, problems)
        # ---- B. ASTTransformer
        tcls = [c for c in pmod.body if isinstance(c, ast.ClassDef) and c.name == 'ASTTransformer']
        if len(tcls) != 1:
            raise TrErr('class ASTTransformer not found in parser.py')
        P = Parser(tcls[0], ctor, problems)
        text, start = find_grammar(pmod, root, problems)
        if text is None or start is None:
            raise TrErr('the grammar / the start rule of database_parser not found')
        G = Grammar(text)
        GG = GrammarGen(G, P, start, problems)
        # methods that are not callbacks: translated with their annotations
        callbacks = {(a or r) for r, alts in G.rules.items() for _, a in alts}
        for n, m in P.methods.items():
            if n in callbacks:
                continue
            if not any(n in P.methods[o].calls for o in P.methods if o != n):
                problems.append(f'parser.py: ASTTransformer.{n} is neither the callback of a grammar rule nor called by another method')
                continue
            try:
                P.signature(m)
                translate_method(P, m)
            except TrErr as ex:
                problems.append(f'parser.py: {n}: line {m.fn.lineno}: {ex}')
                m.lines = None
        try:
            GG.prepare()
        except TrErr as ex:
            problems.append(f'grammar: {ex}')
        out.append('/-! ## B. `ASTTransformer` (parser.py) -/')
        out.append(f'/-- the attribute of an `ASTTransformer` (`__init__`, parser.py line {tcls[0].lineno}): `self.metavariables = list(metavariables)` -/')
        out.append('structure ASTTransformer where')
        out.append('  metavariables : List String')
        out.append('/-- `ASTTransformer()`: the default `metavariables=()` -/')
        out.append('def ASTTransformer.new (metavariables : List String := []) : ASTTransformer := { metavariables := metavariables }')
        emitted = set()

        def emit_method(n):
            if n in emitted:
                return
            m = P.methods[n]
            grp = P.group(n) if m.fuel else [n]
            for g in grp:
                emitted.add(g)
            for g in grp:
                for c in P.methods[g].calls:
                    if c not in grp:
                        emit_method(c)
            if any(P.methods[g].lines is None for g in grp):
                for g in grp:
                    out.append(f'-- ASTTransformer.{g}: NOT TRANSLATED')
                return
            try:
                for g in grp:
                    for a in P.methods[g].aux:
                        out.extend(a)
                blocks = []
                for g in grp:
                    blocks.append(method_header(P.methods[g]) + P.methods[g].lines)
                    blocks.extend(P.methods[g].group_aux)
                if len(blocks) > 1:
                    out.append('mutual')
                for b in blocks:
                    out.extend(b)
                if len(blocks) > 1:
                    out.append('end')
            except TrErr as ex:
                problems.append(f'parser.py: {n}: {ex}')
        for n in P.methods:
            if P.methods[n].lines is not None or n in callbacks:
                if P.methods[n].params is None:
                    if n in callbacks:
                        problems.append(f'parser.py: the callback {n} was not translated')
                    continue
                emit_method(n)
        # ---- C. grammar
        out.append('/-! ## C. the lark grammar (parser.py, the string passed to `Lark(.., start=' + repr(start) + ", parser='lalr', lexer='basic')`) -/")
        lits = []
        for r in G.order:
            for items, _ in G.rules[r]:
                for it in items:
                    if it[0] == 'lit' and it[1] not in lits:
                        lits.append(it[1])
        out.append('/-- the keyword terminals: the anonymous literals of the rules, in order of first occurrence (lark filters them out of the children) -/')
        out.append('def keywords : List String := [' + ', '.join(lean_str(l) for l in lits) + ']')
        try:
            ign = []
            for i in G.ignore:
                if i in G.terminals:
                    if i != 'COMMENT' or G.terminals[i] != COMMENT_RX:
                        raise TrErr(f'%ignore {i}: not the COMMENT terminal this translator knows')
                else:
                    ign += char_class(i, False)
            if 'COMMENT' not in G.ignore:
                problems.append('grammar: comments are not ignored any more')
            tok = char_class(G.terminals.get('TOKEN', ''), True)
            for t in G.terminals:
                if t not in ('COMMENT', 'TOKEN'):
                    raise TrErr(f'terminal {t}')
            out.append('/-- `%ignore /[...]+/`: the characters between tokens (`%ignore COMMENT`: from `$(` to the first `$)`, see the header) -/')
            out.append('def ignoreChars : List Char := [' + ', '.join(lean_char(c) for c in ign) + ']')
            out.append(f'/-- `TOKEN: {G.terminals["TOKEN"]}`: the characters a `TOKEN` cannot contain -/')
            out.append('def tokenExcluded : List Char := [' + ', '.join(lean_char(c) for c in tok) + ']')
        except TrErr as ex:
            problems.append(f'grammar: {ex}')
        GG.emit(out)
        # parse_database
        fns = {s.name: s for s in pmod.body if isinstance(s, ast.FunctionDef)}
        for n, (a, b) in (('parse_database', PARSE_DATABASE), ('load_database', LOAD_DATABASE)):
            if n not in fns or (ast.unparse(fns[n].args), dump_fn(fns[n])) != (a, b):
                problems.append(f'parser.py: {n} is not the text this translator knows')
        if start in G.rules and GG.ret.get(start) == 'db' and start not in GG.failed:
            fu = ' fuel' if GG.fuel.get(start) else ''
            out.append(f'/-- `parse_database` (parser.py line {fns["parse_database"].lineno if "parse_database" in fns else 0}) on the tokens the lexer delivers; `load_database` is `parse_database` of the')
            out.append('file with its `$[ $]` includes spliced in (`flatten_includes`: file I/O, not translated) -/')
            out.append('def parse_database (fuel : Nat) (toks : List String) : Option Database := do')
            out.append(f'  -- tree = database_parser.parse(src)      [lark: the lexer delivers `toks`; LALR(1) with start={start!r}: the rule functions above]')
            out.append('  -- ast = ASTTransformer().transform(tree)  [the callbacks, bottom-up, left to right: interleaved with the rules above]')
            out.append(f'  let (ast, _, rest) ← g_{start}{fu} ASTTransformer.new toks')
            out.append('  gEnd rest   -- the start rule spans the whole input')
            out.append('  -- assert isinstance(ast, Database)')
            out.append('  pyAssert true')
            out.append('  -- return ast')
            out.append('  pure ast')
        else:
            problems.append('grammar: the start rule does not produce a Database')
        # ---- D. Encoder
        ecls = [c for c in amod.body if isinstance(c, ast.ClassDef) and c.name == 'Encoder']
        if len(ecls) != 1:
            raise TrErr('class Encoder not found in ast.py')
        Enc(C, ctor, acc, ecls[0], problems).emit(out)
    except (TrErr, OSError, SyntaxError, KeyError) as ex:
        problems.append(f'transmmast: {type(ex).__name__}: {ex}')
    head = ['import Pi2.MMAstSupport',
            '/-! GENERATED by /verif/vlib/transmmast.py from `class ASTTransformer`, the lark grammar `syntax` and `parse_database`',
            '(generation/src/proof_generation/metamath/parser.py), the AST dataclasses and `class Encoder` (metamath/ast.py), with',
            '`Printer` / `Visitor` (metamath/utils) compared against the text the translator knows — statement by statement, do not edit.',
            '`Pi2/MM/AstTie.lean` proves these equal to the hand-written token-level model `Pi2/MM/Ast.lean`.',
            '`none` = the Python code raises (or a fuel ran out); a parser callback that assigns to `self.metavariables` also returns `self`;',
            'an `Encoder` method is the list of the `Printer` calls it makes.  Conventions and what is assumed of lark / `Printer`:',
            '`Pi2/MMAstSupport.lean`, the docstring of vlib/transmmast.py, the header of `Pi2/MM/AstTie.lean`. -/',
            'set_option linter.unusedVariables false',
            'namespace Gen.MMAst',
            'open MM MMAstSup']
    problems[:] = list(dict.fromkeys(problems))
    tail = [f'def translated : Bool := {"true" if not problems else "false"}']
    if problems:
        tail += ['/-! problems reported by the translator:'] + ['  ' + p.replace('-/', '- /') for p in problems] + ['-/']
    tail.append('end Gen.MMAst')
    text = '\n'.join(head + out + tail) + '\n'
    path = outpath or os.path.join(core.LEAN, 'Pi2', 'Gen', 'MMAst.lean')
    os.makedirs(os.path.dirname(path), exist_ok=True)
    if not (os.path.exists(path) and open(path, encoding='utf-8').read() == text):
        with open(path, 'w', encoding='utf-8') as f:
            f.write(text)
    return problems


if __name__ == '__main__':
    import sys
    print(gen_mm_ast(*(sys.argv[1:3])))
