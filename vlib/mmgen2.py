"""Generator of richer Metamath databases for C17 (printing / parsing / slicing): several lemmas depending on each
other, lemmas with essential hypotheses, axioms in (nested) blocks with $e and $d, notation (`-is-sugar`) and symbol
(`-is-symbol`) axioms, `$v`/`$f` statements scattered over the file, comments.  Every `$p` comes with a valid compressed
proof (validated by vlib.mm.Verifier in strict mode by the caller)."""
from __future__ import annotations

from . import mm


class RichDB(mm.GenDB):
    def __init__(self, rng, n_lemmas=3):
        super().__init__(rng, nv=rng.choice((3, 4)), n_consts=rng.randint(1, 3), n_ctors=rng.randint(0, 2),
                         n_axioms=rng.randint(1, 3), n_rules=rng.randint(0, 2), with_app=rng.random() < 0.7,
                         shuffle_floats=rng.random() < 0.6, shuffle_roles=rng.random() < 0.4)
        self.n_lemmas = n_lemmas
        self.with_not = rng.random() < 0.6
        self.with_dv = rng.random() < 0.5
        self.with_symbol = rng.random() < 0.4
        # (C17, after the repairs F17/F18) a top-level $d placed AFTER an assertion over both variables, used with equal variables;
        # a variable-free $e outside any block, cited by the lemmas after it
        self.with_late_d = rng.random() < 0.6
        self.with_top_ess = rng.random() < 0.35
        self.top_ess_at = rng.randint(0, max(0, n_lemmas - 1))
        if self.with_not:
            self.ctors['\\not'] = 1
            self.ctor_vars['\\not'] = [rng.choice(self.vars)]
        self.lemmas = []

    def statements(self):
        """the whole database as a statement list (vlib.mm format) with valid proofs"""
        rng = self.rng
        st = self.header()
        # the sugar axiom goes right after the constructor's -is-pattern axiom
        if self.with_not:
            st[0] = ('c', st[0][1] + ['#Notation', '\\bot'])
            i = next(k for k, s in enumerate(st) if s[0] == 'a' and s[1] == '\\not-is-pattern')
            v0 = self.ctor_vars['\\not'][0]
            st.insert(i, ('a', '\\bot-is-pattern', ['#Pattern', '\\bot']))
            st.insert(i + 2, ('a', '\\not-is-sugar', ['#Notation'] + mm.term_toks(('\\not', v0)) + mm.term_toks(('\\imp', v0, '\\bot'))))
        if self.with_symbol:
            st[0] = ('c', st[0][1] + ['#Symbol', 'sigma'])
            st.insert(3 + len(self.vars), ('a', 'sigma-is-symbol', ['#Symbol', 'sigma']))
        if self.with_dv:
            # element variables, a top-level $d, an axiom with its own $d in a nested block
            tc = self.elvar_typecode = rng.choice(('#ElementVariable', '#ElementVariable', 'setvar'))
            st[0] = ('c', st[0][1] + [tc, '\\forall', '\\neq', '\\eqq', '\\neqq'])
            st.insert(2, ('v', ['x', 'y', 'z', 'a', 'b']))
            evs = ['x', 'y', 'z', 'a', 'b']
            rng.shuffle(evs)
            for v_ in evs:
                st.append(('f', f'{v_}-is-elvar', tc, v_))
            # one $d statement over three variables: every pair is disjoint, adjacent in the statement or not
            d3 = ['x', 'y', 'z']
            rng.shuffle(d3)
            if self.with_late_d:
                # `ax-eqq` is stated BEFORE `$d a b` (no condition: may be used with a = b), `ax-neqq` after it; the $d
                # statement may have further variables that a slice does not need
                st.append(('a', 'ax-eqq', ['|-', '(', '\\eqq', 'a', 'b', ')']))
                late = ['a', 'b'] + rng.sample(['x', 'y', 'z'], rng.randint(0, 2))
                rng.shuffle(late)
                st.append(('d', late))
                st.append(('a', 'ax-neqq', ['|-', '(', '\\neqq', 'a', 'b', ')']))
            st.append(('d', d3))
            st.append(('block', [('d', ['a', 'b']), ('a', 'ax-distinct', ['|-', '(', '\\neq', 'a', 'b', ')'])]))
            st.append(('a', 'forall-is-pattern', ['#Pattern', '(', '\\forall', 'x', self.vars[0], ')']))
            st.append(('block', [('d', ['x', self.vars[0]]),
                                 ('block', [('e', 'gen.0', ['|-', self.vars[0]]),
                                            ('a', 'gen', ['|-', '(', '\\forall', 'x', self.vars[0], ')'])])]))
        # split the $v statement: one variable is declared later (but before its $f)
        if rng.random() < 0.4:
            vi = next(k for k, s in enumerate(st) if s[0] == 'v' and s[1] == list(self.vars))
            late = self.float_order[-1]
            st[vi] = ('v', [v for v in self.vars if v != late])
            fi = next(k for k, s in enumerate(st) if s[0] == 'f' and s[3] == late)
            st.insert(fi, ('v', [late]))
        v = mm.verify(st)
        for k in range(self.n_lemmas):
            if self.with_top_ess and k == self.top_ess_at:
                # an essential hypothesis outside any block: a hypothesis of every assertion after it
                self.top_hyp = ('\\imp', self.consts[0], self.rand_term(1, []))
                st.append(('e', 'tophyp', ['|-'] + mm.term_toks(self.top_hyp)))
                v = mm.verify(st)
            tops = [e[0] for e in v.frames[0].e]      # active essential hypotheses of the outermost scope
            tv = self.vars[:rng.randint(0, 3)]
            lab = 'goal' if k == self.n_lemmas - 1 else f'lemma{k}'
            with_hyp = rng.random() < 0.35
            cite_top = bool(tops) and rng.random() < 0.5
            if with_hyp:
                # ${ lab.0 $e |- H $.  lab $p |- ( \imp C H ) $= ... $}
                H = self.rand_term(1, tv)
                C = self.rand_term(1, tv)
                concl = ('\\imp', C, H)
                pb = mm.ProofBuilder(self, v)
                p1 = pb.assertion_steps('proof-rule-prop-1', {self.p1_vars[0]: H, self.p1_vars[1]: C}, [])
                steps = pb.assertion_steps('proof-rule-mp', {self.mp_vars[0]: H, self.mp_vars[1]: concl}, [p1, [f'{lab}.0']])
                used = [x for x in mm.term_toks(H) + mm.term_toks(concl) if x in self.vars]
                mand = [f'{x}-is-pattern' for x in self.float_order if x in used] + tops + [f'{lab}.0']
                goal = concl
                hyps = [('e', f'{lab}.0', ['|-'] + mm.term_toks(H))]
            elif cite_top:
                # |- ( \imp C H ) from the hypothesis `tophyp : |- H` stated outside any block
                H = self.top_hyp
                C = self.rand_term(1, tv)
                concl = ('\\imp', C, H)
                pb = mm.ProofBuilder(self, v)
                p1 = pb.assertion_steps('proof-rule-prop-1', {self.p1_vars[0]: H, self.p1_vars[1]: C}, [])
                steps = pb.assertion_steps('proof-rule-mp', {self.mp_vars[0]: H, self.mp_vars[1]: concl}, [p1, ['tophyp']])
                used = [x for x in mm.term_toks(concl) if x in self.vars]
                mand = [f'{x}-is-pattern' for x in self.float_order if x in used] + tops
                goal = concl
                hyps = []
            elif self.with_dv and self.with_late_d and rng.random() < 0.4:
                order = [s_[3] for s_ in st if s_[0] == 'f']
                pb = mm.ProofBuilder(self, v)
                if rng.random() < 0.6:
                    # |- ( \eqq X X ): `ax-eqq` with both variables equal (it precedes `$d a b`)
                    X = rng.choice(['x', 'y', 'z', 'a', 'b'])
                    steps = pb.assertion_steps('ax-eqq', {'a': X, 'b': X}, [])
                    goal = ('\\eqq', X, X)
                    mand = [f'{X}-is-elvar'] + tops
                else:
                    # |- ( \neqq a b ): `ax-neqq` needs `$d a b`, which the top-level statement provides
                    steps = pb.assertion_steps('ax-neqq', {'a': 'a', 'b': 'b'}, [])
                    goal = ('\\neqq', 'a', 'b')
                    mand = [f'{u}-is-elvar' for u in order if u in ('a', 'b')] + tops
                hyps = []
            elif self.with_dv and rng.random() < 0.3:
                # |- ( \neq X Z ) from ax-distinct: needs $d X Z in the lemma's frame (given by the three-variable $d)
                X, Z = rng.sample(['x', 'y', 'z'], 2)
                pb = mm.ProofBuilder(self, v)
                steps = pb.assertion_steps('ax-distinct', {'a': X, 'b': Z}, [])
                goal = ('\\neq', X, Z)
                order = [s_[3] for s_ in st if s_[0] == 'f']
                mand = [f'{u}-is-elvar' for u in order if u in (X, Z)] + tops
                hyps = []
                if rng.random() < 0.5:
                    # ... with an (unused) essential hypothesis over the THIRD variable of the `$d x y z` statement: the
                    # slice then declares all three, and the pair X/Z may be non-adjacent in the statement
                    W = next(u for u in ('x', 'y', 'z') if u not in (X, Z))
                    hyps = [('e', f'{lab}.0', ['|-', '(', '\\eqq', W, W, ')'])]
                    mand = [f'{u}-is-elvar' for u in order if u in (X, Z, W)] + tops + [f'{lab}.0']
            elif self.with_dv and rng.random() < 0.3:
                # generalisation over x of a closed theorem (the $d of `gen` is satisfied trivially)
                A, pa = mm.gen_tree(rng, self, rng.randint(1, 2), [])
                pb = mm.ProofBuilder(self, v)
                steps = pb.assertion_steps('gen', {self.vars[0]: A, 'x': 'x'}, [pa(pb)])
                goal = ('\\forall', 'x', A)
                mand = ['x-is-elvar'] + tops
                hyps = []
            else:
                goal, build = mm.gen_tree(rng, self, rng.randint(1, 3), tv)
                steps = build(mm.ProofBuilder(self, v))
                used = [x for x in mm.term_toks(goal) if x in self.vars]
                mand = [f'{x}-is-pattern' for x in self.float_order if x in used] + tops
                hyps = []
            is_gen = goal[0] in ('\\forall', '\\neq', '\\eqq', '\\neqq') if isinstance(goal, tuple) else False
            arity = {l: (0 if e[0] in ('f', 'e') else len(e[2]) + len(e[3])) for l, e in v.labels.items()}
            arity[f'{lab}.0'] = 0
            proof = (mm.compress_with_reuse(rng, steps, arity, mand) if rng.random() < 0.6 else mm.compress(steps, mand))[0]
            pst = ('p', lab, ['|-'] + mm.term_toks(goal), proof)
            local_d = []
            if self.with_dv and rng.random() < 0.3:
                # a block-local `$d` of the lemma itself, naming an element variable that occurs NOWHERE else in the lemma's cone
                # (the slice must still declare it: the `$d` is copied into the slice's final block)
                lone = rng.choice(['x', 'y', 'z', 'a', 'b'])
                other = rng.choice(self.vars)
                if lone not in mm.term_toks(goal) and not any(lone in h[2] for h in hyps):
                    local_d = [('d', [other, lone] if rng.random() < 0.5 else [lone, other])]
            st.append(('block', local_d + hyps + [pst]) if (hyps or local_d) else pst)
            v = mm.verify(st)
            if not hyps and not is_gen and not local_d:
                self.axioms.append((lab, goal))       # later lemmas may use it like an axiom
            self.lemmas.append(lab)
        return st


def render(rng, st, indent=''):
    """print with random whitespace and comments (the lexer's business)"""
    out = []
    for s in st:
        if rng.random() < 0.15:
            out.append(indent + '$( a comment with $a tokens ( and ) inside $)')
        if s[0] == 'block':
            out.append(indent + '${')
            out.append(render(rng, s[1], indent + '   '))
            out.append(indent + '$}')
        else:
            line = mm.print_db([s])
            if rng.random() < 0.2:
                line = line.replace(' ', '\n    ', 1)
            out.append(indent + line)
    return '\n'.join(out)
