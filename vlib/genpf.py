"""Generator of proof expressions (Pf) and proof modules, mostly valid by construction (steered by the mirror of
vlib/pytrack.py), with a share of deliberately invalid ones."""
from __future__ import annotations

from . import gen, pymach as pm, pytrack as pt, sx


def conc(pf):
    """mirror of ProofThunk.conc; raises pt.Raise when construction would fail"""
    k = pf[0]
    if k == 'prop1':
        return pt.PROP1N
    if k == 'prop2':
        return pt.PROP2N
    if k == 'prop3':
        return pt.PROP3N
    if k == 'quantifier':
        return pt.QUANTN
    if k == 'mp':
        a, b = conc(pf[1]), conc(pf[2])
        h = pt.head(a)
        if h[0] != 'imp' or pt.expand(h[1]) != pt.expand(b):
            raise pt.Raise()
        return h[2]
    if k == 'gen':
        h = pt.head(conc(pf[1]))
        if h[0] != 'imp':
            raise pt.Raise()
        return ('imp', ('ex', pf[2], h[1]), h[2])
    if k == 'dyninst':
        c = conc(pf[1])
        return pt.py_inst(c, dict(pf[2])) if pf[2] else c
    if k == 'axiom':
        return pf[1]
    if k == 'rawinst':
        c = conc(pf[1])
        return pt.py_inst(c, dict(pf[2])) if pf[2] else c
    raise ValueError(k)


def pf_to_s(pf):
    k = pf[0]
    if k in ('prop1', 'prop2', 'prop3', 'quantifier'):
        return f'({k})'
    if k == 'mp':
        return f'(mp {pf_to_s(pf[1])} {pf_to_s(pf[2])})'
    if k == 'gen':
        return f'(gen {pf_to_s(pf[1])} {pf[2]})'
    if k == 'dyninst':
        return '(dyninst %s (%s))' % (pf_to_s(pf[1]), ' '.join(f'({a} {sx.pat_to_s(b)})' for a, b in pf[2]))
    if k == 'axiom':
        return f'(axiom {sx.pat_to_s(pf[1])})'
    if k == 'rawinst':
        return '(rawinst %s (%s))' % (pf_to_s(pf[1]), ' '.join(f'({a} {sx.pat_to_s(b)})' for a, b in pf[2]))
    raise ValueError(k)


def with_raw_instantiate(rng, pf):
    """the same proof with some sub-proofs passed through the interpreter's own `instantiate` with an EMPTY map (a call the
    stateful interpreters accept; ProofExp.dynamic_inst never makes it).  Only understood by the real code's endpoint."""
    k = pf[0]
    if k in ('mp',):
        pf = (k, with_raw_instantiate(rng, pf[1]), with_raw_instantiate(rng, pf[2]))
    elif k in ('gen', 'dyninst'):
        pf = (k, with_raw_instantiate(rng, pf[1])) + tuple(pf[2:])
    if rng.random() < 0.3:
        return ('rawinst', pf, ())
    return pf


def wf_npat(rng, depth, **kw):
    """a pattern (with notation) every sub-term of which the machine can construct; 8% of the time unfiltered"""
    if rng.random() < 0.08:
        return gen.gen_npat(rng, depth, **kw)
    for _ in range(30):
        p = gen.gen_npat(rng, depth, **kw)
        if all_wf(p):
            return p
    return ('evar', 0)


def all_wf(p):
    """every notation body, argument and the pattern itself (which are all constructed on the machine) is well-formed"""
    k = p[0]
    if k == 'inst':
        return all_wf(p[1]) and all(all_wf(v) for _, v in p[2]) and pm.machine_wf(pt.expand(p))
    if k in ('imp', 'app'):
        return all_wf(p[1]) and all_wf(p[2]) and pm.machine_wf(pt.expand(p))
    if k in ('ex', 'mu'):
        return all_wf(p[2]) and pm.machine_wf(pt.expand(p))
    if k in ('esub', 'ssub'):
        return all_wf(p[1]) and all_wf(p[3]) and pm.machine_wf(pt.expand(p))
    return pm.machine_wf(p)


def plug(rng, depth=1):
    # one plug in five may contain pending substitutions (meta-headed ESubst / SSubst nodes): `Interpreter.pattern` then
    # has to build plug and pattern in the order the stateful interpreters expect
    r = rng.random()
    if r < 0.12:
        return subst_plug(rng, depth)
    return wf_npat(rng, depth, constrained=0.0, subst=0.35 if r < 0.3 else 0.0)


def subst_plug(rng, depth=1):
    """a pending substitution mv[q/x] (element or set variable, possibly nested once) that the machine can construct"""
    for _ in range(20):
        kind = rng.choice(('esub', 'ssub'))
        head = ('mv', rng.choice((0, 1, 2, 3)), (), (), (), (), ())
        if rng.random() < 0.25:
            head = (rng.choice(('esub', 'ssub')), head, rng.choice(gen.IDS), wf_npat(rng, 0, constrained=0.0, subst=0.0))
        p = (kind, head, rng.choice(gen.IDS), wf_npat(rng, max(depth - 1, 0), constrained=0.0, subst=0.0))
        if all_wf(p):
            return p
    return ('evar', 0)


def gen_pf(rng, depth, axioms):
    """a proof expression that constructs and runs without raising (when the mirror is right)"""
    for _ in range(20):
        pf = _gen(rng, depth, axioms)
        try:
            conc(pf)
            return pf
        except pt.Raise:
            continue
    return ('prop1',)


def _gen(rng, depth, axioms):
    r = rng.random()
    if depth <= 0 or r < 0.15:
        opts = [('prop1',), ('prop2',), ('prop3',), ('quantifier',)] + [('axiom', a) for a in axioms]
        return rng.choice(opts)
    if r < 0.40:
        pf = _gen(rng, depth - 1, axioms)
        try:
            c = conc(pf)
        except pt.Raise:
            return pf
        mvs = sorted(pt.metavars(c))
        pool = list(dict.fromkeys(mvs + [0, 1, 2]))
        keys = rng.sample(pool, rng.choice((1, 1, 2, 3)) if len(pool) >= 3 else 1)
        return ('dyninst', pf, tuple((k, plug(rng, rng.choice((0, 1, 2)))) for k in keys))
    if r < 0.55:
        pf = _gen(rng, depth - 1, axioms)
        return ('gen', pf, rng.choice(gen.IDS))
    if r < 0.80:
        # weaken: from A derive B -> A
        pa = _gen(rng, depth - 1, axioms)
        try:
            A = conc(pa)
        except pt.Raise:
            return pa
        B = plug(rng, 1)
        return ('mp', ('dyninst', ('prop1',), ((0, A), (1, B))), pa)
    if r < 0.92:
        # imp_refl at a random pattern
        p = plug(rng, 1)
        pp = ('imp', p, p)
        return ('mp', ('mp', ('dyninst', ('prop2',), ((0, p), (1, pp), (2, p))), ('dyninst', ('prop1',), ((0, p), (1, pp)))),
                ('dyninst', ('prop1',), ((0, p), (1, p))))
    # transitivity through axioms a -> b, b -> c when present, else weaken
    imps = [a for a in axioms if pt.head(a)[0] == 'imp']
    if imps:
        ab = rng.choice(imps)
        h = pt.head(ab)
        for a2 in axioms:
            if pt.expand(a2) == pt.expand(h[1]):
                return ('mp', ('axiom', ab), ('axiom', a2))
    return _gen(rng, depth - 1, axioms)


def gen_bad_pf(rng, depth, axioms):
    """a proof expression that should fail: mismatching modus ponens, or a generalization over a free variable"""
    r = rng.random()
    good = gen_pf(rng, depth, axioms)
    if r < 0.5:
        other = gen_pf(rng, 1, axioms)
        return ('mp', good, other)
    # x free in the consequent
    x = rng.choice(gen.IDS)
    p = ('imp', plug(rng, 0), ('imp', ('evar', x), ('evar', x)))
    return ('gen', ('mp', ('dyninst', ('prop1',), ((0, p), (1, plug(rng, 0)))), ('dyninst', ('prop1',), ((0, ('evar', x)), (1, ('evar', x))))), x)


def gen_axioms(rng, n):
    out = []
    for _ in range(n):
        r = rng.random()
        if r < 0.5 or not out:
            out.append(wf_npat(rng, 2, constrained=0.0, subst=0.1))
        else:
            a = rng.choice(out)
            out.append(('imp', a, wf_npat(rng, 1, constrained=0.0, subst=0.0)))
    # no == duplicates (ProofExp.add_axiom would drop them; the constructor does not)
    return out


def gen_module(rng, depth=3, n_axioms=None, n_proofs=None, subs=0):
    n_axioms = rng.choice((0, 1, 2, 3)) if n_axioms is None else n_axioms
    axioms = gen_axioms(rng, n_axioms)
    n_proofs = rng.choice((1, 1, 2, 3)) if n_proofs is None else n_proofs
    proofs = [gen_pf(rng, depth, axioms) for _ in range(n_proofs)]
    claims = [conc(pf) for pf in proofs]
    submods = [gen_module(rng, 1, rng.choice((0, 1, 2)), 0, 0) for _ in range(subs)]
    submods = diamond(rng, submods, axioms)
    return ('module', axioms, claims, proofs, submods)


def diamond(rng, submods, axioms):
    """family: the same axiom published more than once in the gamma phase — a base module imported along two paths (the
    submodule repeated), or a submodule that re-declares one of the importing module's axioms; the importing module's own
    axioms, which its proofs load, are published after the duplicates"""
    r = rng.random()
    if submods and r < 0.3:
        k = rng.randrange(len(submods))
        if submods[k][1]:
            submods = submods + [submods[k]]
    elif axioms and r < 0.45:
        submods = submods + [('module', [rng.choice(axioms)] + ([rng.choice(axioms)] if rng.random() < 0.3 else []), [], [], [])]
    return submods


def module_to_s(m):
    _, ax, cl, pfs, subs = m
    return '(module (axioms %s) (claims %s) (proofs %s) (subs %s))' % (
        ' '.join(map(sx.pat_to_s, ax)), ' '.join(map(sx.pat_to_s, cl)), ' '.join(map(pf_to_s, pfs)),
        ' '.join(map(module_to_s, subs)))


def shadow_module(rng):
    """family: an axiom with a pending substitution phi[plug/x] whose plug mentions x, instantiated with a binder on the
    same variable (the substitution is then the identity: no freshness condition may be demanded), or with a binder on
    another variable that the plug does not mention (the substitution goes under the binder)"""
    x = rng.choice(gen.IDS)
    y = rng.choice([i for i in gen.IDS if i != x])
    k = rng.choice((0, 1, 2))
    mvk = ('mv', k, (), (), (), (), ())
    if rng.random() < 0.5:
        plug_ = rng.choice((('app', ('sym', 1), ('evar', x)), ('imp', ('evar', x), ('evar', y)), ('ex', y, ('app', ('evar', x), ('evar', y)))))
        ax = ('imp', ('esub', mvk, x, plug_), ('sym', 0)) if rng.random() < 0.5 else ('esub', mvk, x, plug_)
        body = rng.choice((('app', ('sym', 2), ('evar', x)), ('imp', ('evar', x), ('evar', x)), ('evar', y)))
        val = ('ex', x, body) if rng.random() < 0.7 else ('ex', y, ('app', ('sym', 2), ('evar', x))) if ('evar', y) not in (plug_[1:] if plug_[0] != 'ex' else ()) and plug_[0] == 'app' else ('ex', x, body)
    else:
        plug_ = rng.choice((('app', ('sym', 1), ('svar', x)), ('imp', ('sym', 0), ('svar', x))))
        ax = ('imp', ('ssub', mvk, x, plug_), ('sym', 0)) if rng.random() < 0.5 else ('ssub', mvk, x, plug_)
        val = ('mu', x, rng.choice((('svar', x), ('app', ('sym', 2), ('svar', x)), ('imp', ('sym', 0), ('svar', x)))))
    pf = ('dyninst', ('axiom', ax), ((k, val),))
    try:
        claims = [conc(pf)]
    except pt.Raise:
        return gen_module(rng, 1)
    return ('module', [ax], claims, [pf], [])


def same_print_module(rng):
    """family: DIFFERENT patterns that PRINT alike — `str` of a metavariable is `phi<n>` whatever its constraint lists are — used
    side by side in one theory, each of them more than once (so the counting pre-pass suggests them for memoisation): the axioms
    `phi_k -> ∃x.phi_k` with `phi_k` x-fresh and `(∃x.phi_k) -> phi_k` without the constraint (and positive / negative variants
    under `mu`).  A memoiser that recognises saved patterns by name publishes one of them for the other."""
    k = rng.choice((0, 1, 2))
    x = rng.choice(gen.IDS)
    plain = ('mv', k, (), (), (), (), ())
    r = rng.random()
    if r < 0.5:
        tight = ('mv', k, (x,), (), (), (), ())
        a1 = ('imp', tight, ('ex', x, tight))
        a2 = ('imp', ('ex', x, plain), plain)
    elif r < 0.75:
        tight = ('mv', k, (), (x,), (), (), ())
        a1 = ('imp', tight, ('app', ('sym', 0), tight))
        a2 = ('imp', ('app', ('sym', 0), plain), plain)
    else:
        tight = ('mv', k, (), (), (x,), (), ())
        a1 = ('imp', ('mu', x, tight), tight)
        a2 = ('imp', plain, ('app', plain, ('sym', 1)))
    axioms = [a1, a2] if rng.random() < 0.5 else [a2, a1]
    proofs = [('axiom', a) for a in (axioms if rng.random() < 0.5 else axioms[::-1])]
    try:
        claims = [conc(pf) for pf in proofs]
    except pt.Raise:
        return gen_module(rng, 1)
    return ('module', axioms, claims, proofs, [])


# ---- the propositional fragment (Pi2/ModulePF.lean: NPat.PF, Pf.PF) ------------------------------------------------

BOT = ('inst', ('mu', 0, ('svar', 0)), ())


def is_pf_pat(p):
    k = p[0]
    if k == 'sym':
        return True
    if k == 'mv':
        return not any(p[2:7])
    if k in ('imp', 'app'):
        return is_pf_pat(p[1]) and is_pf_pat(p[2])
    if k == 'mu':
        return p[1] == 0 and p[2] == ('svar', 0)
    if k == 'inst':
        keys = [a for a, _ in p[2]]
        return is_pf_pat(p[1]) and all(is_pf_pat(v) for _, v in p[2]) and len(set(keys)) == len(keys)
    return False


def is_pf_proof(pf):
    k = pf[0]
    if k in ('prop1', 'prop2', 'prop3'):
        return True
    if k == 'mp':
        return is_pf_proof(pf[1]) and is_pf_proof(pf[2])
    if k == 'dyninst':
        keys = [a for a, _ in pf[2]]
        return is_pf_proof(pf[1]) and all(is_pf_pat(v) for _, v in pf[2]) and len(set(keys)) == len(keys)
    if k == 'axiom':
        return is_pf_pat(pf[1])
    return False


def is_pf_module(m):
    _, ax, cl, pfs, subs = m
    return all(map(is_pf_pat, ax)) and all(map(is_pf_pat, cl)) and all(map(is_pf_proof, pfs)) and all(map(is_pf_module, subs))


def pf_pat(rng, depth):
    if depth <= 0 or rng.random() < 0.3:
        r = rng.random()
        if r < 0.35:
            return ('sym', rng.choice(gen.IDS))
        if r < 0.8:
            return pm.phi(rng.choice((0, 1, 2)))
        return BOT
    r = rng.random()
    if r < 0.55:
        return ('imp', pf_pat(rng, depth - 1), pf_pat(rng, depth - 1))
    if r < 0.75:
        return ('app', pf_pat(rng, depth - 1), pf_pat(rng, depth - 1))
    # notation: neg / a binary notation body over the fragment
    body = rng.choice((('imp', pm.phi(0), BOT), ('imp', ('imp', pm.phi(0), BOT), pm.phi(1)), ('app', ('sym', 1), pm.phi(0))))
    ar = 2 if body[0] == 'imp' and body[1][0] == 'imp' else 1
    return ('inst', body, tuple((i, pf_pat(rng, depth - 1)) for i in range(ar)))


def pf_proof(rng, depth, axioms):
    r = rng.random()
    if depth <= 0 or r < 0.2:
        return rng.choice([('prop1',), ('prop2',), ('prop3',)] + [('axiom', a) for a in axioms])
    if r < 0.5:
        pf = pf_proof(rng, depth - 1, axioms)
        keys = rng.sample((0, 1, 2), rng.choice((1, 2, 3)))
        return ('dyninst', pf, tuple((k, pf_pat(rng, rng.choice((0, 1, 2)))) for k in keys))
    if r < 0.8:
        pa = pf_proof(rng, depth - 1, axioms)
        try:
            A = conc(pa)
        except pt.Raise:
            return pa
        return ('mp', ('dyninst', ('prop1',), ((0, A), (1, pf_pat(rng, 1)))), pa)
    p = pf_pat(rng, 1)
    pp = ('imp', p, p)
    return ('mp', ('mp', ('dyninst', ('prop2',), ((0, p), (1, pp), (2, p))), ('dyninst', ('prop1',), ((0, p), (1, pp)))),
            ('dyninst', ('prop1',), ((0, p), (1, p))))


def pf_module(rng, subs=0):
    axioms = [pf_pat(rng, 2) for _ in range(rng.choice((0, 1, 2)))]
    proofs = []
    for _ in range(rng.choice((1, 2, 3))):
        for _ in range(20):
            pf = pf_proof(rng, rng.choice((1, 2, 3)), axioms)
            try:
                conc(pf)
                proofs.append(pf)
                break
            except pt.Raise:
                continue
    claims = [conc(pf) for pf in proofs]
    submods = [('module', [pf_pat(rng, 1) for _ in range(rng.choice((0, 1)))], [], [], []) for _ in range(subs)]
    submods = diamond(rng, submods, axioms)
    return ('module', axioms, claims, proofs, submods)
