"""Translator: what `SerializingInterpreter` (generation/src/proof_generation/serializing_interpreter.py) writes for each
interpreter method (Python `ast`) -> Lean byte-list functions (`Pi2/Gen/Serializer.lean`), regenerated on every run.
`Pi2/SerTie.lean` proves them equal to `encode (emit1 ...)`, the serializer of the tracker model: opcode per method,
operand order (the reversed key list of `instantiate`), the clean-metavariable shortcut, the five constraint lists.

Recognised: `self.out.write(bytes([...]))` with elements `Instruction.X`, a parameter, `var.name`, `len(delta)`,
`*reversed(delta.keys())`, `len(list)`, `*[var.name for var in list]`, `self.memory.index(term)`, and the local `id` of the
symbol table; the `if sum([len(list) for list in lists]) == 0: ... else: ...` of `metavar` with its `for list in lists`."""
from __future__ import annotations

import ast
import os

from . import core

# method -> (Lean parameter list, names of Python parameters that map to them)
METHODS = {
    'evar': ['id'], 'svar': ['id'], 'symbol': ['symId'], 'metavar': ['id', 'e_fresh', 's_fresh', 'positive', 'negative', 'application_context'],
    'implies': [], 'app': [], 'exists': ['var'], 'mu': ['var'], 'esubst': ['evar_id'], 'ssubst': ['svar_id'],
    'prop1': [], 'prop2': [], 'prop3': [], 'modus_ponens': [], 'exists_quantifier': [], 'exists_generalization': ['var'],
    'instantiate': ['keys'], 'instantiate_pattern': ['keys'], 'pop': [], 'save': [], 'load': ['memIdx'],
    'publish_proof': [], 'publish_axiom': [], 'publish_claim': [],
}
LISTS = ['e_fresh', 's_fresh', 'positive', 'negative', 'application_context']


class TrErr(Exception):
    pass


def byte_list(node, loopvar=None, idname='id'):
    """the argument of bytes([...]) as a Lean list expression"""
    if not (isinstance(node, ast.Call) and isinstance(node.func, ast.Name) and node.func.id == 'bytes' and len(node.args) == 1
            and isinstance(node.args[0], ast.List)):
        raise TrErr('write argument ' + ast.unparse(node))
    parts = []
    for e in node.args[0].elts:
        u = ast.unparse(e)
        if isinstance(e, ast.Attribute) and isinstance(e.value, ast.Name) and e.value.id == 'Instruction':
            parts.append(f'[opc "{e.attr}"]')
        elif isinstance(e, ast.Name) and e.id in ('id', 'var', 'evar_id', 'svar_id'):
            parts.append(f'[{idname if e.id == "id" else e.id}]')
        elif u == 'var.name':
            parts.append('[var]')
        elif u == 'len(delta)':
            parts.append('[keys.length]')
        elif u == '*reversed(delta.keys())':
            parts.append('keys.reverse')
        elif u == 'self.memory.index(term)':
            parts.append('[memIdx]')
        elif loopvar and u == f'len({loopvar})':
            parts.append('[l.length]')
        elif loopvar and u == f'*[var.name for var in {loopvar}]':
            parts.append('l')
        else:
            raise TrErr('byte ' + u)
    return '(' + ' ++ '.join(parts) + ')' if parts else '[]'


def method_bytes(fn):
    name = fn.name
    out = []
    lists_decl = None
    for st in fn.body:
        u = ast.unparse(st)
        if isinstance(st, ast.Expr) and isinstance(st.value, ast.Constant):
            continue
        if u.startswith('ret = super().') or u.startswith('super().') or u == 'return ret':
            continue
        if isinstance(st, ast.Expr) and isinstance(st.value, ast.Call) and ast.unparse(st.value.func) == 'self.out.write':
            out.append(byte_list(st.value.args[0], idname='symId' if name == 'symbol' else 'id'))
            continue
        if name == 'symbol':
            # if name not in self._symbol_identifiers: self._symbol_identifiers[name] = len(self._symbol_identifiers)
            # id = self._symbol_identifiers[name]           -> `symId`: position of the name's first serialisation
            if u == 'if name not in self._symbol_identifiers:\n    self._symbol_identifiers[name] = len(self._symbol_identifiers)':
                continue
            if u == 'id = self._symbol_identifiers[name]':
                continue
        if name == 'metavar':
            if isinstance(st, ast.AnnAssign) and ast.unparse(st.target) == 'lists':
                got = [ast.unparse(e) for e in st.value.elts]
                if got != LISTS:
                    raise TrErr(f'lists = {got}')
                lists_decl = True
                continue
            if isinstance(st, ast.If) and ast.unparse(st.test) == 'sum([len(list) for list in lists]) == 0' and lists_decl:
                def branch(stmts):
                    parts = []
                    for s in stmts:
                        if isinstance(s, ast.Expr) and isinstance(s.value, ast.Constant):
                            continue
                        if isinstance(s, ast.Expr) and ast.unparse(s.value.func) == 'self.out.write':
                            parts.append(byte_list(s.value.args[0]))
                        elif isinstance(s, ast.For) and ast.unparse(s.target) == 'list' and ast.unparse(s.iter) == 'lists' and len(s.body) == 1:
                            w = s.body[0]
                            parts.append('(lists.flatMap fun l => %s)' % byte_list(w.value.args[0], loopvar='list'))
                        else:
                            raise TrErr('metavar branch: ' + ast.unparse(s)[:60])
                    return '(' + ' ++ '.join(parts) + ')'
                out.append(f'(if (lists.map List.length).sum == 0 then {branch(st.body)} else {branch(st.orelse)})')
                continue
        raise TrErr('statement ' + u[:70])
    return '(' + ' ++ '.join(out) + ')' if out else '[]'


def gen_serializer():
    problems = []
    src = open(os.path.join(core.PYSRC, 'proof_generation/serializing_interpreter.py')).read()
    tree = ast.parse(src)
    cls = next((n for n in tree.body if isinstance(n, ast.ClassDef) and n.name == 'SerializingInterpreter'), None)
    lines = ['import Pi2.Gen.Opcodes',
             '/-! GENERATED by /verif/vlib/transser.py from `SerializingInterpreter` (serializing_interpreter.py): the bytes each',
             'interpreter method writes — do not edit.  `Pi2/SerTie.lean` proves them equal to `encode` of what `emit1` emits. -/',
             'namespace Gen.Ser',
             'def opc (name : String) : Nat := ((Gen.pyOpcodes.find? (·.1 == name)).map (·.2)).getD 0']
    okk = cls is not None
    if cls is None:
        problems.append('Serializer: class SerializingInterpreter not found')
    else:
        meths = {n.name: n for n in cls.body if isinstance(n, ast.FunctionDef)}
        extra = sorted(set(meths) - set(METHODS) - {'__init__'})
        if extra:
            problems.append(f'Serializer: methods not covered by the translator: {extra}'); okk = False
        for m, params in METHODS.items():
            fn = meths.get(m)
            if fn is None:
                problems.append(f'Serializer: method {m} not found'); okk = False
                continue
            try:
                e = method_bytes(fn)
            except TrErr as ex:
                problems.append(f'Serializer: {m}: {ex}'); okk = False
                continue
            if m == 'metavar':
                sig = '(id : Nat) (e_fresh s_fresh positive negative application_context : List Nat)'
                e = f'let lists := [e_fresh, s_fresh, positive, negative, application_context]; {e}'
            else:
                sig = ' '.join(f'({p} : List Nat)' if p == 'keys' else f'({p} : Nat)' for p in params)
            lines.append(f'def w_{m} {sig} : List Nat := {e}')
    lines.append(f'def translated : Bool := {"true" if okk else "false"}')
    lines.append('end Gen.Ser')
    from .translate import _write_if_changed, GEN
    _write_if_changed(os.path.join(GEN, 'Serializer.lean'), '\n'.join(lines) + '\n')
    return problems


if __name__ == '__main__':
    print(gen_serializer())
