"""Shared machinery of the /verif checks: building, endpoints, evidence, findings, reporting."""
from __future__ import annotations

import fcntl
import hashlib
import json
import os
import re
import subprocess
import sys
import time

VERIF = os.path.dirname(os.path.dirname(os.path.abspath(__file__)))
REPO = os.environ.get('PI2_REPO', '/repo')
LEAN = os.path.join(VERIF, 'lean')
OUT = os.path.join(VERIF, 'out')
BUILD = os.path.join(OUT, 'build')
REPLAYS = os.path.join(OUT, 'replays')
EVID = os.path.join(VERIF, 'evidence')
PY = '/venv/bin/python'
PYSRC = os.path.join(REPO, 'generation', 'src')
DRV = os.path.join(LEAN, '.lake', 'build', 'bin', 'pi2drv')
ALLOWED_AXIOMS = {'propext', 'Classical.choice', 'Quot.sound'}
FORBIDDEN = re.compile(r'\bsorry\b|\badmit\b|^axiom\s|native_decide|bv_decide|implemented_by|\bunsafe\s|maxHeartbeats 0')


class Infra(Exception):
    """infrastructure failure: exit 2, never a violation"""


def env_clean():
    e = dict(os.environ)
    e['PI2_VERIF'] = '1'
    e.setdefault('RUSTUP_TOOLCHAIN', 'stable')
    return e


def sh(cmd, cwd=None, timeout=3600, env=None, input=None):
    p = subprocess.run(cmd, cwd=cwd, env=env or env_clean(), input=input, stdout=subprocess.PIPE,
                       stderr=subprocess.STDOUT, text=True, timeout=timeout)
    out = '\n'.join(l for l in p.stdout.splitlines() if 'conda.cli.condarc' not in l)
    return p.returncode, out


class BuildLock:
    def __enter__(self):
        os.makedirs(OUT, exist_ok=True)
        self.f = open(os.path.join(OUT, '.build.lock'), 'w')
        fcntl.flock(self.f, fcntl.LOCK_EX)
        return self

    def __exit__(self, *a):
        fcntl.flock(self.f, fcntl.LOCK_UN)
        self.f.close()


# ----------------------------------------------------------------------------------------------
# Lean
# ----------------------------------------------------------------------------------------------

def run_translators():
    """regenerate lean/Pi2/Gen/*.lean from /repo's current source"""
    from . import translate
    return translate.run_all()


GEN_OK = {'built': False}


def lean_build(targets):
    """returns (ok, log, translator problems).  Translators are run first, under the build lock.  The model driver `pi2drv`
    is built FIRST and on its own: it imports only the hand-written model and the generated TABLES, so a source change
    that breaks a translated module or its tie proof cannot take the model driver down with it (a driver that does not
    build is an infrastructure error).  The second driver `pi2gen`, which evaluates GENERATED code, is built with the
    property module; when that build fails the checks go on without it."""
    with BuildLock():
        tr_problems = run_translators()
        targets = [t for t in targets if t != 'pi2drv']
        rc0, out0 = sh(['lake', 'build', 'pi2drv'], cwd=LEAN, timeout=3600)
        if rc0 != 0:
            raise Infra('the model driver pi2drv does not build: ' + out0[-1500:])
        rc, out = sh(['lake', 'build'] + list(targets), cwd=LEAN, timeout=3600)
        GEN_OK['built'] = False
        if rc == 0:
            rc2, out2 = sh(['lake', 'build', 'pi2gen'], cwd=LEAN, timeout=3600)
            GEN_OK['built'] = rc2 == 0
            if rc2 != 0:
                rc, out = rc2, out + out2
    return rc == 0, out, tr_problems


def lean_failed_decls(log):
    """names of the files / declarations lake reports as failing"""
    errs = []
    for m in re.finditer(r'error: (Pi2/[\w/]+\.lean):(\d+):(\d+): (.*)', log):
        errs.append({'file': m.group(1), 'line': int(m.group(2)), 'msg': m.group(4)[:300]})
    return errs


def lean_audit(module, theorems):
    """#print axioms for every theorem; returns dict name -> list of axioms (or None when missing)"""
    os.makedirs(BUILD, exist_ok=True)
    src = f'import {module}\n' + ''.join(f'#print axioms {t}\n' for t in theorems)
    path = os.path.join(BUILD, f'Audit_{module.replace(".", "_")}.lean')
    with open(path, 'w') as f:
        f.write(src)
    rc, out = sh(['lake', 'env', 'lean', path], cwd=LEAN, timeout=1800)
    res = {}
    # outputs: "'name' depends on axioms: [a, b]"  or "'name' does not depend on any axioms"
    flat = re.sub(r'\s+', ' ', out)
    for t in theorems:
        m = re.search(r"'" + re.escape(t) + r"' depends on axioms: \[([^\]]*)\]", flat)
        if m:
            res[t] = [a.strip() for a in m.group(1).split(',') if a.strip()]
        elif re.search(r"'" + re.escape(t) + r"' does not depend on any axioms", flat):
            res[t] = []
        else:
            res[t] = None
    return res, out


def lean_forbidden_tokens():
    hits = []
    for root, _, files in os.walk(os.path.join(LEAN, 'Pi2')):
        for fn in files:
            if not fn.endswith('.lean'):
                continue
            p = os.path.join(root, fn)
            in_block = 0
            for i, line in enumerate(open(p, encoding='utf-8'), 1):
                # strip comments (block comments tracked coarsely)
                l = line
                if in_block:
                    if '-/' in l:
                        in_block = 0
                        l = l.split('-/', 1)[1]
                    else:
                        continue
                if '/-' in l:
                    pre, rest = l.split('/-', 1)
                    if '-/' in rest:
                        l = pre + rest.split('-/', 1)[1]
                    else:
                        in_block = 1
                        l = pre
                l = l.split('--', 1)[0]
                if FORBIDDEN.search(l):
                    hits.append(f'{os.path.relpath(p, LEAN)}:{i}: {line.strip()[:120]}')
    return hits


# ----------------------------------------------------------------------------------------------
# Rust
# ----------------------------------------------------------------------------------------------

def rust_build():
    """build the include-harness and the real checker binary from /repo's working tree"""
    os.makedirs(BUILD, exist_ok=True)
    with BuildLock():
        lib = open(os.path.join(REPO, 'rust/src/lib.rs')).read()
        tail = open(os.path.join(VERIF, 'harness/rust/tail.rs')).read()
        key = hashlib.sha256((lib + tail + open(os.path.join(REPO, 'rust/src/main.rs')).read()).encode()).hexdigest()
        stamp = os.path.join(BUILD, 'rust.stamp')
        if os.path.exists(stamp) and open(stamp).read() == key and os.path.exists(os.path.join(BUILD, 'rust_h')) \
                and os.path.exists(os.path.join(BUILD, 'checker')):
            return
        with open(os.path.join(BUILD, 'rust_h.rs'), 'w') as f:
            f.write(lib + tail)
        base = ['rustc', '--edition', '2021', '-O', '--cap-lints', 'allow']
        rc, out = sh(base + ['-o', 'rust_h', 'rust_h.rs'], cwd=BUILD)
        if rc != 0:
            raise Infra('rust harness does not compile:\n' + out[-3000:])
        rc, out = sh(base + ['--crate-type', 'rlib', '--crate-name', 'checker', '-o', 'libchecker.rlib',
                             os.path.join(REPO, 'rust/src/lib.rs')], cwd=BUILD)
        if rc != 0:
            raise Infra('rust lib does not compile:\n' + out[-3000:])
        rc, out = sh(base + ['--extern', 'checker=libchecker.rlib', '-o', 'checker',
                             os.path.join(REPO, 'rust/src/main.rs')], cwd=BUILD)
        if rc != 0:
            raise Infra('rust main does not compile:\n' + out[-3000:])
        with open(stamp, 'w') as f:
            f.write(key)


def run_lines(cmd, lines, timeout=3600, env=None, cwd=None):
    """pipe request lines through an endpoint; returns the list of answer lines"""
    data = '\n'.join(lines) + '\n'
    p = subprocess.run(cmd, input=data, stdout=subprocess.PIPE, stderr=subprocess.PIPE, text=True,
                       timeout=timeout, env=env or env_clean(), cwd=cwd)
    outs = p.stdout.split('\n')
    if outs and outs[-1] == '':
        outs.pop()
    if len(outs) != len(lines):
        raise Infra(f'endpoint {cmd[0]} answered {len(outs)} lines for {len(lines)} requests '
                    f'(rc={p.returncode}); stderr tail: {p.stderr[-1500:]}')
    return outs


def lean_drv(lines):
    return run_lines([DRV], lines)


def lean_gen(lines):
    """the second driver (generated code); None when it did not build in this run (the tie is then reported as broken by
    the proof gate, and the differential tests that need it are skipped)"""
    if not GEN_OK['built']:
        return None
    return run_lines([os.path.join(LEAN, '.lake', 'build', 'bin', 'pi2gen')], lines)


def rust_h(lines):
    return run_lines([os.path.join(BUILD, 'rust_h')], lines)


def py_h(lines, hashseed=None, extra_env=None):
    e = env_clean()
    e['PYTHONPATH'] = PYSRC + os.pathsep + VERIF
    if hashseed is not None:
        e['PYTHONHASHSEED'] = str(hashseed)
    if extra_env:
        e.update(extra_env)
    ans = run_lines([PY, os.path.join(VERIF, 'harness/py/py_h.py')], lines, env=e)
    # a request answered `(timeout)` (harness/py/py_h.py) is asked again, alone, with four times the limit: on a loaded machine a slow
    # request must not look like a hang of the code under test; a real hang stays `(timeout)` (at most 2 are re-examined per batch)
    late = [i for i, a in enumerate(ans) if a == '(timeout)'][:2]
    if late:
        e2 = dict(e, PI2_REQ_TIMEOUT=str(4 * int(float(e.get('PI2_REQ_TIMEOUT', '60')))))
        for i in late:
            ans[i] = run_lines([PY, os.path.join(VERIF, 'harness/py/py_h.py')], [lines[i]], env=e2)[0]
    return ans


def real_checker(g, c, p, tag='x'):
    """run the real checker binary on three byte strings; returns True iff exit status 0"""
    d = os.path.join(BUILD, 'tmp')
    os.makedirs(d, exist_ok=True)
    paths = []
    for nm, b in (('g', g), ('c', c), ('p', p)):
        pth = os.path.join(d, f'{tag}_{os.getpid()}.{nm}')
        with open(pth, 'wb') as f:
            f.write(bytes(b))
        paths.append(pth)
    pr = subprocess.run([os.path.join(BUILD, 'checker')] + paths, stdout=subprocess.DEVNULL,
                        stderr=subprocess.DEVNULL)
    for pth in paths:
        os.unlink(pth)
    return pr.returncode == 0


# ----------------------------------------------------------------------------------------------
# findings, evidence, reporting
# ----------------------------------------------------------------------------------------------

def load_findings():
    p = os.path.join(VERIF, 'known_findings.json')
    if not os.path.exists(p):
        return []
    return json.load(open(p))['findings']


class Report:
    def __init__(self, pid, tier, seed):
        self.pid, self.tier, self.seed = pid, tier, seed
        self.t0 = time.time()
        self.violations = []       # dicts {what, replay(dict)}
        self.known = []            # strings
        self.coverage = {}
        self.assumptions = []
        self.level = 'proof'
        self.findings = [f for f in load_findings() if f.get('property') == pid and f.get('status') == 'open']
        self.notes = []

    def known_match(self, key):
        """returns the finding whose 'key' equals key (exact), else None"""
        for f in self.findings:
            if f.get('key') == key:
                return f
        return None

    def violation(self, what, replay, found_input=True, key=None):
        """record a violation unless it is a listed known finding (matched by exact key)"""
        if key is not None:
            f = self.known_match(key)
            if f is not None:
                msg = f"KNOWN-FINDING: property={self.pid} {f['what']}"
                if msg not in self.known:
                    self.known.append(msg)
                return False
        self.violations.append({'what': what, 'replay': replay, 'found_input': found_input, 'key': key})
        return True

    def finish(self):
        os.makedirs(EVID, exist_ok=True)
        os.makedirs(os.path.join(REPLAYS, self.pid), exist_ok=True)
        wall = time.time() - self.t0
        ev = {
            'property_id': self.pid, 'tier': self.tier, 'seed': self.seed, 'level': self.level,
            'coverage': self.coverage, 'assumptions': self.assumptions, 'wall_s': round(wall, 2),
            'violations': len(self.violations),
        }
        if self.known:
            ev['coverage']['known_findings_reported'] = self.known
        if self.notes:
            ev['coverage']['notes'] = self.notes
        with open(os.path.join(EVID, f'{self.pid}.json'), 'w') as f:
            json.dump(ev, f, indent=1, sort_keys=True, default=str)
        for k in self.known:
            print(k)
        seen = set()
        for v in self.violations:
            body = json.dumps(v['replay'], sort_keys=True, default=str)
            h = hashlib.sha256(body.encode()).hexdigest()[:16]
            if h in seen:
                continue
            seen.add(h)
            path = os.path.join(REPLAYS, self.pid, f'{h}.json')
            with open(path, 'w') as f:
                json.dump({'property': self.pid, 'what': v['what'], 'seed': self.seed, 'tier': self.tier,
                           'key': v.get('key'), 'replay': v['replay']}, f, indent=1, sort_keys=True, default=str)
            tail = '' if v['found_input'] else ' no-failing-input-found'
            print(f"# {v['what']}")
            print(f'VIOLATION property={self.pid} replay={path}{tail}')
            if len(seen) >= 5:
                break
        print(f'[{self.pid}] tier={self.tier} seed={self.seed} wall={wall:.1f}s violations={len(self.violations)} '
              f'known={len(self.known)}')
        return 1 if self.violations else 0


def standard_trusted_base():
    return [
        'Lean 4.33 kernel; axioms of every property theorem audited on each run against {propext, Classical.choice, Quot.sound}',
        'hand-written Lean model of the code (Pi2/*.lean), tied to /repo by the correspondence run of this check',
        'translators /verif/vlib/translate.py (tables regenerated from /repo source on each run)',
        'protocol endpoints: lean/Main.lean, harness/rust/tail.rs, harness/py/py_h.py and their canonicalisers',
        'rustc stable with --cap-lints allow instead of the pinned nightly; CPython 3.12 without -O',
    ]


def pi2_import_closure(module):
    """the module and every Pi2.* module it imports, transitively (from the `import` lines of the sources)"""
    seen, todo = [], [module]
    while todo:
        m = todo.pop()
        if m in seen:
            continue
        seen.append(m)
        path = os.path.join(LEAN, *m.split('.')) + '.lean'
        if not os.path.exists(path):
            continue
        for line in open(path):
            mm = re.match(r'\s*import\s+(Pi2[\w.]*)', line)
            if mm:
                todo.append(mm.group(1))
            elif line.strip() and not line.startswith(('import', '--', '/-')) and not line.startswith(' '):
                break
    return sorted(seen)


CORR_KEYS = ('model-', 'converter-differs', 'conv-harness', 'spec-', 'not-in-shape', 'not-in-fragment', 'count-text-differs', 'kdef-driver',
             'builder-text-differs', 'hints-spec-differs')


def is_correspondence(f):
    """a finding that says "model / specification / generated text and the code (or the generator) differ" — a broken tie, not an
    input on which the property itself fails: reported with `no-failing-input-found` unless a property-level finding exists"""
    return f.get('what', '').startswith('correspondence') or any(f.get('key', '').startswith(k) for k in CORR_KEYS)


def proof_gate(rep, module, theorems, extra_targets=('pi2drv',)):
    """build the property module + driver, audit axioms.  Returns (ok, detail dict).
    ok=False means a proof obligation is broken (the caller must search for a failing input)."""
    ok, log, tr_problems = lean_build([module] + list(extra_targets))
    detail = {'module': module, 'theorems': list(theorems), 'translator_problems': tr_problems}
    if not ok:
        detail['build_errors'] = lean_failed_decls(log) or [{'msg': log[-1500:]}]
        rep.coverage.update({'obligations': len(theorems), 'discharged': 0})
        return False, detail
    ax, raw = lean_audit(module, theorems)
    bad = {t: a for t, a in ax.items() if a is None or not set(a) <= ALLOWED_AXIOMS}
    hits = lean_forbidden_tokens()
    detail['axioms'] = ax
    if bad:
        detail['axiom_problems'] = bad
        detail['audit_output'] = raw[-1500:]
    if hits:
        detail['forbidden_tokens'] = hits
    good = not bad and not hits
    if rep.tier == 'thorough' and good:
        # independent re-check of the compiled declarations of the property module and of every Pi2 module it imports
        mods = pi2_import_closure(module)
        rc, out = sh(['lake', 'env', 'leanchecker'] + mods, cwd=LEAN, timeout=3600)
        rep.coverage['leanchecker'] = {'modules': len(mods), 'exit': rc}
        if rc != 0:
            detail['leanchecker_failed'] = out[-1500:]
            good = False
    rep.coverage.update({
        'obligations': len(theorems),
        'discharged': len(theorems) - len(bad) if not hits else 0,
        'checker_cmd': f'cd /verif/lean && lake build {module} && lake env lean <#print axioms audit>',
        'trusted_base': standard_trusted_base(),
        'theorems': {t: ax.get(t) for t in theorems},
    })
    return good, detail
