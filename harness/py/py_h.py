"""`py_h` — the real Python implementation behind the line protocol (one request per line).

Run with PYTHONPATH=/repo/generation/src:/verif under /venv/bin/python.
"""
from __future__ import annotations

import sys

sys.setrecursionlimit(20000)

from vlib import sx                      # noqa: E402
from harness.py import pyconv            # noqa: E402

from proof_generation import pattern as P   # noqa: E402


def npat(x):
    return pyconv.to_py(sx.pat_of_sx(x))


def out_npat(p):
    return sx.pat_to_s(pyconv.from_py(p, None, False))


def out_pat(p):
    return sx.pat_to_s(pyconv.from_py(p, None, True))


def nmap(x):
    return {int(k): npat(v) for k, v in x}


def handle(line):
    xs = sx.parse(line)
    if not xs:
        return 'bad-request'
    cmd, args = xs[0], xs[1:]
    if cmd == 'expand':
        return out_pat(npat(args[0]))
    if cmd == 'nfree':
        return str(npat(args[1]).evar_is_free(int(args[0]))).lower()
    if cmd == 'ninst':
        return out_npat(npat(args[1]).instantiate(nmap(args[0])))
    if cmd == 'nesubst':
        return out_npat(npat(args[2]).apply_esubst(int(args[0]), npat(args[1])))
    if cmd == 'nssubst':
        return out_npat(npat(args[2]).apply_ssubst(int(args[0]), npat(args[1])))
    if cmd == 'peq':
        return str(bool(npat(args[0]) == npat(args[1]))).lower()
    if cmd == 'nmetavars':
        return '(' + ' '.join(str(i) for i in sorted(npat(args[0]).metavars())) + ')'
    from harness.py import py_cmds
    return py_cmds.handle(cmd, args)


class RequestTimeout(BaseException):
    """one request ran longer than PI2_REQ_TIMEOUT seconds (default 300): the answer is `(timeout)` — a hang of the code under test
    becomes a difference from the model instead of a hang of the check"""


def _alarm(signum, frame):
    raise RequestTimeout()


def main():
    import os
    import signal
    limit = float(os.environ.get('PI2_REQ_TIMEOUT', '300'))
    signal.signal(signal.SIGALRM, _alarm)
    n_timeouts = 0
    # answers are written one by one to the REAL stdout (a single write of more than 2 GiB is cut short by the kernel);
    # whatever the code under test prints goes to stderr
    real_out = sys.stdout
    sys.stdout = sys.stderr
    for line in sys.stdin:
        line = line.rstrip('\n')
        try:
            signal.setitimer(signal.ITIMER_REAL, limit)
            try:
                ans = handle(line)
            finally:
                signal.setitimer(signal.ITIMER_REAL, 0)
        except RequestTimeout:
            ans = '(timeout)'
            n_timeouts += 1
            if n_timeouts >= 8:
                limit = min(limit, 5.0)      # the code under test hangs systematically: do not spend the whole budget waiting
        except RecursionError:
            ans = 'fuel'
        except AssertionError as e:
            ans = '(raise AssertionError)'
        except Exception as e:   # noqa
            ans = f'(raise {type(e).__name__})'
        real_out.write(ans)
        real_out.write('\n')
    real_out.flush()


if __name__ == '__main__':
    main()
