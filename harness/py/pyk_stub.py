"""Stub for `pyk.kore.syntax` (absent from the offline environment): plain dataclasses whose field order is the
one the repo's `match` statements use.  Trusted base of C20 only."""
from __future__ import annotations

import sys
import types
from dataclasses import dataclass, field


class Pattern:
    pass


class Sort:
    pass


@dataclass(frozen=True)
class SortVar(Sort):
    name: str


@dataclass(frozen=True)
class SortApp(Sort):
    name: str
    sorts: tuple = ()


@dataclass(frozen=True)
class String(Pattern):
    value: str


@dataclass(frozen=True)
class EVar(Pattern):
    name: str
    sort: Sort


@dataclass(frozen=True)
class SVar(Pattern):
    name: str
    sort: Sort


@dataclass(frozen=True)
class App(Pattern):
    symbol: str
    sorts: tuple = ()
    args: tuple = ()


@dataclass(frozen=True)
class Top(Pattern):
    sort: Sort


@dataclass(frozen=True)
class Bottom(Pattern):
    sort: Sort


@dataclass(frozen=True)
class Not(Pattern):
    sort: Sort
    pattern: Pattern


@dataclass(frozen=True)
class Next(Pattern):
    sort: Sort
    pattern: Pattern


@dataclass(frozen=True)
class And(Pattern):
    sort: Sort
    ops: tuple


@dataclass(frozen=True)
class Or(Pattern):
    sort: Sort
    ops: tuple


@dataclass(frozen=True)
class Implies(Pattern):
    sort: Sort
    left: Pattern
    right: Pattern


@dataclass(frozen=True)
class Iff(Pattern):
    sort: Sort
    left: Pattern
    right: Pattern


@dataclass(frozen=True)
class Rewrites(Pattern):
    sort: Sort
    left: Pattern
    right: Pattern


@dataclass(frozen=True)
class Ceil(Pattern):
    op_sort: Sort
    sort: Sort
    pattern: Pattern


@dataclass(frozen=True)
class Floor(Pattern):
    op_sort: Sort
    sort: Sort
    pattern: Pattern


@dataclass(frozen=True)
class Equals(Pattern):
    op_sort: Sort
    sort: Sort
    left: Pattern
    right: Pattern


@dataclass(frozen=True)
class In(Pattern):
    op_sort: Sort
    sort: Sort
    left: Pattern
    right: Pattern


@dataclass(frozen=True)
class DV(Pattern):
    sort: Sort
    value: String


@dataclass(frozen=True)
class Exists(Pattern):
    sort: Sort
    var: EVar
    pattern: Pattern


@dataclass(frozen=True)
class Forall(Pattern):
    sort: Sort
    var: EVar
    pattern: Pattern


@dataclass(frozen=True)
class Mu(Pattern):
    var: SVar
    pattern: Pattern


@dataclass(frozen=True)
class Nu(Pattern):
    var: SVar
    pattern: Pattern


@dataclass(frozen=True)
class Symbol:
    name: str
    vars: tuple = ()


@dataclass(frozen=True)
class Import:
    module_name: str
    attrs: tuple = ()


@dataclass(frozen=True)
class SortDecl:
    name: str
    vars: tuple = ()
    attrs: tuple = ()
    hooked: bool = False


@dataclass(frozen=True)
class SymbolDecl:
    symbol: Symbol
    param_sorts: tuple
    sort: Sort
    attrs: tuple = ()
    hooked: bool = False


@dataclass(frozen=True)
class Axiom:
    vars: tuple
    pattern: Pattern
    attrs: tuple = ()


@dataclass(frozen=True)
class Module:
    name: str
    sentences: tuple = ()
    attrs: tuple = ()


@dataclass(frozen=True)
class Definition:
    modules: tuple = ()
    attrs: tuple = ()


def install():
    if 'pyk.kore.syntax' in sys.modules:
        return
    import pyk   # the (incomplete) installed package
    kore = types.ModuleType('pyk.kore')
    syntax = types.ModuleType('pyk.kore.syntax')
    for k, v in list(globals().items()):
        if isinstance(v, type):
            setattr(syntax, k, v)
    kore.syntax = syntax
    pyk.kore = kore
    sys.modules['pyk.kore'] = kore
    sys.modules['pyk.kore.syntax'] = syntax
    # `proof_generation.llvm_proof_hint` imports the LLVM bindings at module level (only its dataclasses are used here)
    if 'pyk.kllvm' not in sys.modules:
        kllvm = types.ModuleType('pyk.kllvm')
        for sub in ('load', 'ast', 'convert'):
            m = types.ModuleType('pyk.kllvm.' + sub)
            setattr(kllvm, sub, m)
            sys.modules['pyk.kllvm.' + sub] = m
        kllvm.convert.llvm_to_pattern = lambda *a, **k: (_ for _ in ()).throw(NotImplementedError('pyk.kllvm is not installed'))
        pyk.kllvm = kllvm
        sys.modules['pyk.kllvm'] = kllvm
