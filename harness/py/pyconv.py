"""Conversion between protocol patterns (nested tuples / S-expressions, see vlib/sx.py) and the
real `proof_generation.pattern` objects.  Part of the trusted canonicaliser."""
from __future__ import annotations

from frozendict import frozendict

from proof_generation.pattern import (App, ESubst, EVar, Exists, Implies, Instantiate, MetaVar, Mu, SSubst, SVar,
                                      Symbol)

from vlib import sx


class SymTab:
    """symbol names <-> numbers; s<N> <-> N; a DECIMAL name <d> <-> 3000+d (symbols named like the ids the deserialiser hands out:
    K domain values become `Symbol(str(value))`); other names are numbered by first occurrence from 1000"""

    def __init__(self):
        self.by_name = {}

    def num(self, name):
        if name.startswith('s') and name[1:].isdigit():
            return int(name[1:])
        if name.isdigit():
            return 3000 + int(name)
        if name not in self.by_name:
            self.by_name[name] = 1000 + len(self.by_name)
        return self.by_name[name]


def to_py(t):
    """tuple pattern -> real Pattern object (notation node 'inst' -> Instantiate)"""
    k = t[0]
    if k == 'evar':
        return EVar(t[1])
    if k == 'svar':
        return SVar(t[1])
    if k == 'sym':
        return Symbol(str(t[1] - 3000) if 3000 <= t[1] < 4000 else f's{t[1]}')
    if k == 'imp':
        return Implies(to_py(t[1]), to_py(t[2]))
    if k == 'app':
        return App(to_py(t[1]), to_py(t[2]))
    if k == 'ex':
        return Exists(t[1], to_py(t[2]))
    if k == 'mu':
        return Mu(t[1], to_py(t[2]))
    if k == 'mv':
        return MetaVar(t[1], tuple(EVar(i) for i in t[2]), tuple(SVar(i) for i in t[3]), tuple(SVar(i) for i in t[4]),
                       tuple(SVar(i) for i in t[5]), tuple(EVar(i) for i in t[6]))
    if k == 'esub':
        return ESubst(to_py(t[1]), EVar(t[2]), to_py(t[3]))
    if k == 'ssub':
        return SSubst(to_py(t[1]), SVar(t[2]), to_py(t[3]))
    if k == 'inst':
        # notation bodies are shared objects in real use (`Notation.definition`): intern them, so that code which
        # compares bodies by identity behaves here as it does there
        body = _BODIES.get(t[1])
        if body is None:
            body = _BODIES.setdefault(t[1], to_py(t[1]))
        return Instantiate(body, frozendict({a: to_py(b) for a, b in t[2]}))
    raise ValueError(t)


_BODIES: dict = {}


def _ids(xs):
    out = []
    for x in xs:
        out.append(x.name if hasattr(x, 'name') else int(x))
    return tuple(out)


def from_py(p, st=None, expand=False):
    """real Pattern -> tuple pattern.  expand=True removes every notation node (full expansion)."""
    st = st or SymTab()
    if isinstance(p, Instantiate):
        if expand:
            return from_py(p.simplify(), st, True)
        return ('inst', from_py(p.pattern, st, False), tuple((k, from_py(v, st, False)) for k, v in p.inst.items()))
    if isinstance(p, EVar):
        return ('evar', p.name)
    if isinstance(p, SVar):
        return ('svar', p.name)
    if isinstance(p, Symbol):
        return ('sym', st.num(p.name))
    if isinstance(p, Implies):
        return ('imp', from_py(p.left, st, expand), from_py(p.right, st, expand))
    if isinstance(p, App):
        return ('app', from_py(p.left, st, expand), from_py(p.right, st, expand))
    if isinstance(p, Exists):
        return ('ex', p.var, from_py(p.subpattern, st, expand))
    if isinstance(p, Mu):
        return ('mu', p.var, from_py(p.subpattern, st, expand))
    if isinstance(p, MetaVar):
        return ('mv', p.name, _ids(p.e_fresh), _ids(p.s_fresh), _ids(p.positive), _ids(p.negative),
                _ids(p.app_ctx_holes))
    if isinstance(p, ESubst):
        return ('esub', from_py(p.pattern, st, expand), p.var.name, from_py(p.plug, st, expand))
    if isinstance(p, SSubst):
        return ('ssub', from_py(p.pattern, st, expand), p.var.name, from_py(p.plug, st, expand))
    raise ValueError(f'not a pattern: {type(p)} {p!r}')


def to_sx_expanded(p, st=None):
    return sx.pat_to_s(from_py(p, st, True))


def to_sx(p, st=None):
    return sx.pat_to_s(from_py(p, st, False))
