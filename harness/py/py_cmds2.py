def handle(cmd, args):
    return 'bad-request'
