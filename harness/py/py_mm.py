"""Protocol commands about the Metamath front end, on the real code."""
from __future__ import annotations

from vlib import sx


def handle(cmd, args):
    if cmd == 'mmproof':
        from proof_generation.metamath.ast import Application, Metavariable, ProvableStatement
        from proof_generation.metamath.converter.converter import MetamathConverter
        floats = [a for a in args[0][1:]]
        vars_ = [a for a in args[1][1:]]
        proof = bytes.fromhex(args[2]).decode('latin-1') if args[2] != '-' else ''

        class Dummy:
            _floating_patterns = floats
        # a statement "|- ( f v1 v2 ... )" whose metavariables are vars_
        stmt = ProvableStatement('goal', (Application('|-'), Application('f', tuple(Metavariable(v) for v in vars_))), proof)
        r = MetamathConverter._import_proof(Dummy(), stmt)
        labels = [r.labels[i] for i in sorted(r.labels)]
        assert sorted(r.labels) == list(range(1, len(labels) + 1))
        return '(proof (labels %s) (steps %s))' % (' '.join(labels), ' '.join(map(str, r.applied_lemmas)))
    if cmd == 'mmimport':
        # parse a whole database with the real lark parser, run the real converter, report the decoded proof of the target
        from proof_generation.metamath.parser import parse_database
        from proof_generation.metamath.converter.converter import MetamathConverter
        src = bytes.fromhex(args[0]).decode('utf-8')
        conv = MetamathConverter(parse_database(src))
        r = conv.get_lemma_by_name(args[1]).proof
        labels = [r.labels[i] for i in sorted(r.labels)]
        return '(proof (labels %s) (steps %s))' % (' '.join(labels), ' '.join(map(str, r.applied_lemmas)))
    return None
