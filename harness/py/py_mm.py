"""Protocol commands about the Metamath front end, on the real code."""
from __future__ import annotations

import re

from vlib import sx


def handle(cmd, args):
    if cmd == 'mmproof':
        from proof_generation.metamath.ast import Application, Metavariable, ProvableStatement
        from proof_generation.metamath.converter.converter import MetamathConverter
        floats = [a for a in args[0][1:]]
        vars_ = [a for a in args[1][1:]]
        proof = bytes.fromhex(args[2]).decode('latin-1') if args[2] != '-' else ''

        class Dummy:
            # what _import_proof reads of the converter: the $f order and the declared variables ($v, sorted like the slicer writes them)
            _floating_patterns = floats
            _declared_variables = {v: Metavariable(v) for v in sorted(set(floats) | set(vars_))}
        # a statement "|- ( f v1 v2 ... )" whose metavariables are vars_
        stmt = ProvableStatement('goal', (Application('|-'), Application('f', tuple(Metavariable(v) for v in vars_))), proof)
        r = MetamathConverter._import_proof(Dummy(), stmt)
        labels = [r.labels[i] for i in sorted(r.labels)]
        assert sorted(r.labels) == list(range(1, len(labels) + 1))
        return '(proof (labels %s) (steps %s))' % (' '.join(labels), ' '.join(map(str, r.applied_lemmas)))
    if cmd == 'mmimport':
        # parse a whole database with the real lark parser, run the real converter, report the decoded proof of the target
        from proof_generation.metamath.parser import parse_database
        from proof_generation.metamath.converter.converter import MetamathConverter
        src = bytes.fromhex(args[0]).decode('utf-8')
        conv = MetamathConverter(parse_database(src))
        r = conv.get_lemma_by_name(args[1]).proof
        labels = [r.labels[i] for i in sorted(r.labels)]
        return '(proof (labels %s) (steps %s))' % (' '.join(labels), ' '.join(map(str, r.applied_lemmas)))
    if cmd == 'mmtranslate':
        return mmtranslate(args)
    if cmd == 'mmast':
        return mmast(args)
    if cmd == 'mmslices':
        return mmslices(args)
    if cmd == 'mmconvdump':
        return mmconvdump(args)
    return None


def mmtranslate(args):
    """the body of translate.main on a database given as hex source: returns the three files, or the exception"""
    import gc
    import shutil
    import tempfile
    from pathlib import Path
    from proof_generation.interpreter import ExecutionPhase
    from proof_generation.metamath import translate as T
    from proof_generation.metamath.converter.converter import MetamathConverter
    from proof_generation.metamath.converter.representation import AxiomWithAntecedents
    from proof_generation.metamath.parser import parse_database
    from proof_generation.proof import ProofExp
    src = bytes.fromhex(args[0]).decode('utf-8')
    target = args[1]
    try:
        converter = MetamathConverter(parse_database(src))
    except RecursionError:
        raise
    except Exception as e:   # noqa
        return '(raise convert %s)' % type(e).__name__
    extracted_axioms = []
    for axiom_name in converter.exported_axioms:
        axiom = converter.get_axiom_by_name(axiom_name)
        if isinstance(axiom, AxiomWithAntecedents):
            extracted_axioms.append(T.convert_to_implication(axiom.antecedents, axiom.pattern))
            continue
        extracted_axioms.append(axiom.pattern)
    extracted_claims = [converter.get_lemma_by_name(lemma_name).pattern for lemma_name in converter.lemmas]

    class TranslatedProofSkeleton(ProofExp):
        def __init__(self):
            super().__init__(axioms=extracted_axioms, claims=extracted_claims)

        def execute_proofs_phase(self, interpreter):
            assert interpreter.phase == ExecutionPhase.Proof
            T.exec_proof(converter, target, self, interpreter)
    mode = args[2] if len(args) > 2 else 'opt'
    if mode == 'memo':
        # the memoisation suggestions of the counting pre-pass (what `--optimize` feeds to MemoizingInterpreter)
        import pyconv
        from vlib import sx
        from proof_generation.claim import Claim
        from proof_generation.counting_interpreter import CountingInterpreter
        try:
            sk = TranslatedProofSkeleton()
            analyzer = CountingInterpreter(ExecutionPhase.Gamma, [Claim(c) for c in sk._claims])
            sk.execute_full(analyzer)
            S = analyzer.finalize()
        except RecursionError:
            raise
        except Exception as e:   # noqa
            return '(raise memo %s)' % type(e).__name__
        items = sorted(sx.pat_to_s(pyconv.from_py(p, None, False)) for p in S)
        return '(memo yes %s)' % ' '.join(items) if items else '(memo yes)'
    d = tempfile.mkdtemp(prefix='pi2mm')
    try:
        sk = TranslatedProofSkeleton()
        try:
            if mode == 'plain':
                sk.main(['', 'binary', d, 'm'])
            else:
                for _ in range(3):
                    sk.main(['', '--optimize', 'binary', d, 'm'])
        except RecursionError:
            raise
        except Exception as e:   # noqa
            import traceback
            tb = traceback.extract_tb(e.__traceback__)
            return '(raise translate %s %s:%d)' % (type(e).__name__, tb[-1].name, tb[-1].lineno)
        gc.collect()
        out = []
        for ext in ('.ml-gamma', '.ml-claim', '.ml-proof'):
            out.append(open(str(Path(d) / 'm') + ext, 'rb').read().hex() or '-')
        return '(ok %s %s %s)' % tuple(out)
    finally:
        shutil.rmtree(d, ignore_errors=True)


# ---- AST <-> protocol (strings travel as h<hex>) --------------------------------------------------------

def hx(s):
    return 'h' + s.encode('utf-8').hex()


def term_sx(t):
    from proof_generation.metamath.ast import Application, Metavariable
    if isinstance(t, Metavariable):
        return '(mv %s)' % hx(t.name)
    assert isinstance(t, Application)
    return '(app %s)' % ' '.join([hx(t.symbol)] + [term_sx(a) for a in t.subterms])


def stmt_sx(s):
    from proof_generation.metamath import ast as A
    if isinstance(s, A.ConstantStatement):
        return '(c (%s))' % ' '.join(hx(c) for c in s.constants)
    if isinstance(s, A.VariableStatement):
        return '(v (%s))' % ' '.join(hx(v.name) for v in s.metavariables)
    if isinstance(s, A.DisjointStatement):
        return '(d (%s))' % ' '.join(hx(v.name) for v in s.metavariables)
    if isinstance(s, A.FloatingStatement):
        assert s.terms[0].symbol == s.typecode and s.terms[1].name == s.metavariable and not s.terms[0].subterms
        return '(f %s %s %s)' % (hx(s.label), hx(s.typecode), hx(s.metavariable))
    if isinstance(s, A.EssentialStatement):
        return '(e %s (%s))' % (hx(s.label), ' '.join(term_sx(t) for t in s.terms))
    if isinstance(s, A.AxiomaticStatement):
        return '(a %s (%s))' % (hx(s.label), ' '.join(term_sx(t) for t in s.terms))
    if isinstance(s, A.ProvableStatement):
        assert s.proof is not None
        return '(p %s (%s) (%s))' % (hx(s.label), ' '.join(term_sx(t) for t in s.terms), ' '.join(hx(x) for x in _IGNORED.split(s.proof) if x))
    if isinstance(s, A.Block):
        return '(block %s)' % ' '.join(stmt_sx(x) for x in s.statements) if s.statements else '(block)'
    raise ValueError(type(s))


# the proof string is ' '.join(tokens); a token may contain whitespace that the lexer does not ignore (U+00A0, U+000B, ...): not str.split()
_IGNORED = re.compile(r'[ \n\t\f\r]+')


def db_sx(db):
    return '(mdb %s)' % ' '.join(stmt_sx(s) for s in db.statements) if db.statements else '(mdb)'


def mmast(args):
    """real parse_database, Encoder.encode_string, and parse again: (ok <ast> h<printed> <same-after-reparse>)"""
    from proof_generation.metamath.ast import Encoder
    from proof_generation.metamath.parser import parse_database
    src = bytes.fromhex(args[0]).decode('utf-8') if args[0] != '-' else ''
    try:
        db = parse_database(src)
    except RecursionError:
        raise
    except Exception as e:   # noqa
        return '(raise parse %s)' % type(e).__name__
    text = Encoder.encode_string(db)
    try:
        again = parse_database(text)
        same = 'true' if again == db else 'false'
    except RecursionError:
        raise
    except Exception as e:   # noqa
        same = 'raise-' + type(e).__name__
    return '(ok %s %s %s)' % (db_sx(db), hx(text), same)


def mmslices(args):
    """the body of metamath_extract_slice.main for the given targets: dependency graph, transitive closure, syntax
    dependencies, slices (each as AST and as printed text, re-parsed with the real parser)"""
    from proof_generation.metamath import metamath_extract_slice as S
    from proof_generation.metamath.ast import Encoder
    from proof_generation.metamath.parser import parse_database
    src = bytes.fromhex(args[0]).decode('utf-8')
    targets = [bytes.fromhex(a[1:]).decode() for a in args[1]]
    db = parse_database(src)
    try:
        deps = S.dependency_graph(db)
        include = S.transitive_closure(deps, list(targets))
        syntax_deps = S.syntax_dependencies(db)
    except RecursionError:
        raise
    except Exception as e:   # noqa
        return '(raise deps %s)' % type(e).__name__
    head = '(deps %s) (%s)' % (' '.join('(%s (%s))' % (hx(k), ' '.join(hx(x) for x in v)) for k, v in syntax_deps.items()),
                             ' '.join(hx(x) for x in sorted(include)))
    try:
        slices = list(S.slice_database(db, syntax_deps, include=include, exclude=set()))
    except RecursionError:
        raise
    except Exception as e:   # noqa
        return '(raise slice %s %s)' % (type(e).__name__, head)
    out = []
    for label, sl in slices:
        text = Encoder.encode_string(sl)
        try:
            again = parse_database(text)
            same = 'true' if again == sl else 'false'
        except RecursionError:
            raise
        except Exception as e:   # noqa
            same = 'raise-' + type(e).__name__
        out.append('(%s %s %s %s)' % (hx(label), db_sx(sl), hx(text), same))
    return '(ok %s (slices %s))' % (head, ' '.join(out))


def mmconvdump(args):
    """the real MetamathConverter on a database given as hex source: the parsed AST and the answers to the queries translate.py makes,
    in the format of the Lean driver's `mmconv` (symbols numbered by their position among the declared constants)"""
    from proof_generation.metamath.ast import ConstantStatement
    from proof_generation.metamath.converter.converter import MetamathConverter
    from proof_generation.metamath.converter.representation import AxiomWithAntecedents
    from proof_generation.metamath.parser import parse_database
    from proof_generation.pattern import App, Implies, MetaVar, Symbol
    src = bytes.fromhex(args[0]).decode('utf-8')
    target = bytes.fromhex(args[1][1:]).decode('utf-8') if args[1].startswith('h') else args[1]
    try:
        db = parse_database(src)
    except RecursionError:
        raise
    except Exception as e:   # noqa
        return '(raise parse %s)' % type(e).__name__
    consts = []
    for st in db.statements:
        if isinstance(st, ConstantStatement):
            consts += list(st.constants)

    def pat(p):
        if isinstance(p, Symbol):
            return '(sym %d)' % consts.index(p.name)
        if isinstance(p, Implies):
            return '(imp %s %s)' % (pat(p.left), pat(p.right))
        if isinstance(p, App):
            return '(app %s %s)' % (pat(p.left), pat(p.right))
        if isinstance(p, MetaVar):
            return '(mv %d %s)' % (p.name, ' '.join('(' + ' '.join(str(x.name) for x in l) + ')' for l in (p.e_fresh, p.s_fresh, p.positive, p.negative, p.app_ctx_holes)))
        raise ValueError(repr(p))

    def strs(xs):
        return '(' + ' '.join(hx(x) for x in xs) + ')'
    try:
        c = MetamathConverter(db)
    except RecursionError:
        raise
    except Exception as e:   # noqa
        return '(dump %s (raise))' % db_sx(db)

    def ax(l):
        try:
            a = c.get_axiom_by_name(l)
            mio = c.get_metavars_in_order(l)
            ants = '(some %s)' % ' '.join(pat(x) for x in a.antecedents) if isinstance(a, AxiomWithAntecedents) else 'none'
            return '(%s %s %s %s %s)' % (hx(l), pat(a.pattern), strs(sorted(set(a.metavars))), ants, strs(mio))
        except Exception:   # noqa
            return '(%s raise)' % hx(l)
    fps = ' '.join('(%s %s)' % (hx(l), ' '.join(pat(x) for x in ps)) for l, ps in c._fp_label_to_pattern.items())

    def mv(v):
        try:
            return '(%s %s)' % (hx(v), pat(c.resolve_metavar(v)))
        except Exception:   # noqa
            return '(%s raise)' % hx(v)
    try:
        lm = c.get_lemma_by_name(target)
        pf = lm.proof
        lem = '(lemma %s %s (%s) (%s))' % (pat(lm.pattern), strs(list(pf.labels.values())), ' '.join(map(str, pf.labels.keys())), ' '.join(map(str, pf.applied_lemmas)))
    except AttributeError:
        lem = '(lemma noproof)'
    except Exception:   # noqa
        lem = '(lemma raise)'
    out = '(ok (pcs %s) (prs %s) (exported %s) (axioms %s) (fps %s) (mvs %s) (lemmas %s) %s (consts %s))' % (
        strs(sorted(c.pattern_constructors)), strs(sorted(c.proof_rules)), strs(c.exported_axioms), ' '.join(ax(l) for l in c.axioms), fps,
        ' '.join(mv(v) for v in c._floating_patterns), strs(c.lemmas), lem, strs(consts))
    return '(dump %s %s)' % (db_sx(db), out)
