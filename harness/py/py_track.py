"""`track`: drive the real SerializingInterpreter call by call (protocol command of py_h)."""
from __future__ import annotations

import io

from frozendict import frozendict

from vlib import sx
from harness.py import pyconv
from proof_generation import pattern as P
from proof_generation.claim import Claim
from proof_generation.interpreter import ExecutionPhase
from proof_generation.proved import Proved
from proof_generation.serializing_interpreter import SerializingInterpreter


class Sink(io.BytesIO):
    def close(self):      # keep the value readable after IOInterpreter closes the stream
        pass


def term_s(t):
    if isinstance(t, Proved):
        return '(proved %s)' % sx.pat_to_s(pyconv.from_py(t.conclusion, None, False))
    return '(pattern %s)' % sx.pat_to_s(pyconv.from_py(t, None, False))


def state_s(phase, stack, memory, claims):
    return '(pystate %s (stack %s) (memory %s) (claims %s))' % (
        {ExecutionPhase.Gamma: 'gamma', ExecutionPhase.Claim: 'claim', ExecutionPhase.Proof: 'proof'}[phase],
        ' '.join(term_s(t) for t in stack), ' '.join(term_s(t) for t in memory),
        ' '.join(sx.pat_to_s(pyconv.from_py(c.pattern, None, False)) for c in claims))


def term_of(x):
    p = pyconv.to_py(sx.pat_of_sx(x[1]))
    return Proved(p) if x[0] == 'proved' else p


def do_call(it, c):
    k = c[0]
    S = it.stack
    if k == 'evar':
        it.evar(int(c[1]))
    elif k == 'svar':
        it.svar(int(c[1]))
    elif k == 'symbol':
        it.symbol(str(int(c[1]) - 3000) if 3000 <= int(c[1]) < 4000 else 's' + c[1])
    elif k == 'metavar':
        ids = [tuple(int(a) for a in l) for l in c[2:7]]
        it.metavar(int(c[1]), tuple(P.EVar(i) for i in ids[0]), tuple(P.SVar(i) for i in ids[1]),
                   tuple(P.SVar(i) for i in ids[2]), tuple(P.SVar(i) for i in ids[3]), tuple(P.EVar(i) for i in ids[4]))
    elif k == 'implies':
        it.implies(S[-2], S[-1])
    elif k == 'app':
        it.app(S[-2], S[-1])
    elif k == 'exists':
        it.exists(int(c[1]), S[-1])
    elif k == 'mu':
        it.mu(int(c[1]), S[-1])
    elif k == 'esubst':
        it.esubst(int(c[1]), S[-1], S[-2])
    elif k == 'ssubst':
        it.ssubst(int(c[1]), S[-1], S[-2])
    elif k == 'prop1':
        it.prop1()
    elif k == 'prop2':
        it.prop2()
    elif k == 'prop3':
        it.prop3()
    elif k == 'quantifier':
        it.exists_quantifier()
    elif k == 'mp':
        it.modus_ponens(S[-2], S[-1])
    elif k == 'gen':
        it.exists_generalization(S[-1], P.EVar(int(c[1])))
    elif k in ('instantiate', 'instantiate-pattern'):
        keys = [int(a) for a in c[1]]
        n = len(keys)
        vals = S[-(n + 1):-1] if n else []
        if len(vals) != n:
            raise IndexError('not enough plugs')
        delta = dict(zip(keys, vals))
        if k == 'instantiate':
            it.instantiate(S[-1], delta)
        else:
            it.instantiate_pattern(S[-1], frozendict(delta))
    elif k == 'pop':
        it.pop(S[-1])
    elif k == 'save':
        it.save(str(len(it.memory)), S[-1])
    elif k == 'load':
        it.load('x', term_of(c[1]))
    elif k == 'publish-proof':
        it.publish_proof(S[-1])
    elif k == 'publish-axiom':
        it.publish_axiom(S[-1])
    elif k == 'publish-claim':
        it.publish_claim(S[-1])
    elif k == 'into-claim':
        it.into_claim_phase()
    elif k == 'into-proof':
        it.into_proof_phase()
    else:
        raise ValueError(k)


def welltyped(it, c):
    """the static typing of the interpreter API (Pattern vs Proved arguments), which Python does not check"""
    k = c[0]
    S = it.stack

    def pat(i):
        return len(S) >= i and not isinstance(S[-i], Proved)

    def prf(i):
        return len(S) >= i and isinstance(S[-i], Proved)
    if k in ('implies', 'app'):
        return pat(1) and pat(2)
    if k in ('esubst', 'ssubst'):
        # esubst(evar_id, pattern: MetaVar | ESubst | SSubst, plug: Pattern)
        return pat(1) and pat(2) and isinstance(S[-1], (P.MetaVar, P.ESubst, P.SSubst))
    if k in ('exists', 'mu', 'publish-axiom', 'publish-claim'):
        return pat(1)
    if k == 'mp':
        return prf(1) and prf(2)
    if k in ('gen', 'publish-proof'):
        return prf(1)
    if k in ('instantiate', 'instantiate-pattern'):
        n = len(c[1])
        if len(S) < n + 1:
            return True      # Python raises by itself
        head = prf(1) if k == 'instantiate' else pat(1)
        return head and all(pat(i) for i in range(2, n + 2))
    return True


def track(args):
    claims = [Claim(pyconv.to_py(sx.pat_of_sx(x))) for x in args[0][1:]]
    calls = args[1][1:]
    g, c, p = Sink(), Sink(), Sink()
    it = SerializingInterpreter(ExecutionPhase.Gamma, g, claims, c, p)

    def hexes():
        return ' '.join((b.getvalue().hex() or '-') for b in (g, c, p))
    for i, call in enumerate(calls):
        snap = (it.phase, list(it.stack), list(it.memory), list(it.claims))
        snap_hex = hexes()
        try:
            if not welltyped(it, call):
                raise TypeError('ill-typed call')
            do_call(it, call)
        except RecursionError:
            raise
        except Exception:   # noqa
            return '(raise %d %s %s)' % (i, state_s(*snap), snap_hex)
    return '(ok %s %s)' % (state_s(it.phase, it.stack, it.memory, it.claims), hexes())


def exp_term_s(t, st):
    if isinstance(t, Proved):
        return '(proved %s)' % sx.pat_to_s(pyconv.from_py(t.conclusion, st, True))
    return '(pattern %s)' % sx.pat_to_s(pyconv.from_py(t, st, True))


def track_trace(args):
    """like `track`, but reports after EVERY call the fully expanded tracker state and the bytes written so far"""
    claims = [Claim(pyconv.to_py(sx.pat_of_sx(x))) for x in args[0][1:]]
    calls = args[1][1:]
    g, c, p = Sink(), Sink(), Sink()
    it = SerializingInterpreter(ExecutionPhase.Gamma, g, claims, c, p)
    st = pyconv.SymTab()
    steps = []
    for i, call in enumerate(calls):
        try:
            if not welltyped(it, call):
                raise TypeError('ill-typed call')
            do_call(it, call)
        except RecursionError:
            raise
        except Exception:   # noqa
            steps.append('(raise %d)' % i)
            break
        ph = {ExecutionPhase.Gamma: 'gamma', ExecutionPhase.Claim: 'claim', ExecutionPhase.Proof: 'proof'}[it.phase]
        steps.append('(step %s (stack %s) (memory %s) (claims %s) %s)' % (
            ph, ' '.join(exp_term_s(t, st) for t in it.stack), ' '.join(exp_term_s(t, st) for t in it.memory),
            ' '.join(sx.pat_to_s(pyconv.from_py(cl.pattern, st, True)) for cl in it.claims),
            ' '.join((b.getvalue().hex() or '-') for b in (g, c, p))))
    return '(' + ' '.join(steps) + ')'


def deser(args, expand=False, typed=True):
    """deserialise three byte strings into a fresh PrettyPrintingInterpreter, phase by phase"""
    import io as _io
    from proof_generation.deserialize import deserialize_instructions
    from proof_generation.pretty_printing_interpreter import PrettyPrintingInterpreter
    # claims arrive with symbols already numbered by the serialiser's ids; the deserialiser names symbols str(id)
    def renamed(p):
        from proof_generation import pattern as PP
        if isinstance(p, PP.Symbol):
            return PP.Symbol(p.name[1:])
        if isinstance(p, (PP.Implies, PP.App)):
            return type(p)(renamed(p.left), renamed(p.right))
        if isinstance(p, (PP.Exists, PP.Mu)):
            return type(p)(p.var, renamed(p.subpattern))
        if isinstance(p, (PP.ESubst, PP.SSubst)):
            return type(p)(renamed(p.pattern), p.var, renamed(p.plug))
        if isinstance(p, PP.Instantiate):
            return PP.Instantiate(renamed(p.pattern), frozendict({k: renamed(v) for k, v in p.inst.items()}))
        return p
    claims = [Claim(renamed(pyconv.to_py(sx.pat_of_sx(x)))) for x in args[0][1:]]
    bs = [bytes.fromhex(a) if a != '-' else b'' for a in args[1:4]]

    class TSink(_io.StringIO):
        def close(self):
            pass
    class Typed(PrettyPrintingInterpreter):
        """enforces the static typing of esubst/ssubst (pattern: MetaVar | ESubst | SSubst), like `welltyped`"""

        def esubst(self, evar_id, pattern, plug):
            if not isinstance(pattern, (P.MetaVar, P.ESubst, P.SSubst)) or isinstance(plug, Proved):
                raise TypeError('ill-typed esubst')
            return super().esubst(evar_id, pattern, plug)

        def ssubst(self, svar_id, pattern, plug):
            if not isinstance(pattern, (P.MetaVar, P.ESubst, P.SSubst)) or isinstance(plug, Proved):
                raise TypeError('ill-typed ssubst')
            return super().ssubst(svar_id, pattern, plug)

        def implies(self, left, right):
            if isinstance(left, Proved) or isinstance(right, Proved):
                raise TypeError('ill-typed implies')
            return super().implies(left, right)

        def app(self, left, right):
            if isinstance(left, Proved) or isinstance(right, Proved):
                raise TypeError('ill-typed app')
            return super().app(left, right)

        def exists(self, var, subpattern):
            if isinstance(subpattern, Proved):
                raise TypeError('ill-typed exists')
            return super().exists(var, subpattern)

        def mu(self, var, subpattern):
            if isinstance(subpattern, Proved):
                raise TypeError('ill-typed mu')
            return super().mu(var, subpattern)

        def modus_ponens(self, left, right):
            if not (isinstance(left, Proved) and isinstance(right, Proved)):
                raise TypeError('ill-typed mp')
            return super().modus_ponens(left, right)
    # typed=False: the interpreter as shipped, without the static-typing wrapper of this harness (used to re-examine a raise)
    it = (Typed if typed else PrettyPrintingInterpreter)(ExecutionPhase.Gamma, TSink(), claims, TSink(), TSink())
    for ph, data in zip(('gamma', 'claim', 'proof'), bs):
        try:
            deserialize_instructions(data, it)
            if ph == 'gamma':
                it.into_claim_phase()
            elif ph == 'claim':
                it.into_proof_phase()
        except RecursionError:
            raise
        except Exception:   # noqa
            return '(raise)' if expand else '(raise %s)' % ph
    # symbols were renumbered by the deserialiser: names are the decimal ids
    return '(ok %s)' % state_s_num(it, expand)


def state_s_num(it, expand=False):
    class NumTab(pyconv.SymTab):
        def num(self, name):
            return int(name) if name.isdigit() else super().num(name)
    st = NumTab()

    def t(x):
        if isinstance(x, Proved):
            return '(proved %s)' % sx.pat_to_s(pyconv.from_py(x.conclusion, st, expand))
        return '(pattern %s)' % sx.pat_to_s(pyconv.from_py(x, st, expand))
    return '(pystate %s (stack %s) (memory %s) (claims %s))' % (
        {ExecutionPhase.Gamma: 'gamma', ExecutionPhase.Claim: 'claim', ExecutionPhase.Proof: 'proof'}[it.phase],
        ' '.join(t(x) for x in it.stack), ' '.join(t(x) for x in it.memory),
        ' '.join(sx.pat_to_s(pyconv.from_py(c.pattern, st, expand)) for c in it.claims))


def track_x(args):
    """final state of a history, every term fully expanded"""
    claims = [Claim(pyconv.to_py(sx.pat_of_sx(x))) for x in args[0][1:]]
    g, c, p = Sink(), Sink(), Sink()
    it = SerializingInterpreter(ExecutionPhase.Gamma, g, claims, c, p)
    for call in args[1][1:]:
        try:
            if not welltyped(it, call):
                raise TypeError('ill-typed call')
            do_call(it, call)
        except RecursionError:
            raise
        except Exception:   # noqa
            return '(raise)'
    st = pyconv.SymTab()

    def t(x):
        if isinstance(x, Proved):
            return '(proved %s)' % sx.pat_to_s(pyconv.from_py(x.conclusion, st, True))
        return '(pattern %s)' % sx.pat_to_s(pyconv.from_py(x, st, True))
    return '(ok (pystate %s (stack %s) (memory %s) (claims %s)))' % (
        {ExecutionPhase.Gamma: 'gamma', ExecutionPhase.Claim: 'claim', ExecutionPhase.Proof: 'proof'}[it.phase],
        ' '.join(t(x) for x in it.stack), ' '.join(t(x) for x in it.memory),
        ' '.join(sx.pat_to_s(pyconv.from_py(cl.pattern, st, True)) for cl in it.claims))
