"""Protocol commands about the tautology prover, on the real code."""
from __future__ import annotations

from vlib import sx
from harness.py import pyconv
from proof_generation import pattern as P
from proof_generation import tautology as T

_taut = None


def taut():
    global _taut
    if _taut is None:
        _taut = T.Tautology()
    return _taut


def form(x):
    if x == 'bot':
        return P.bot()
    if x[0] == 'var':
        return P.MetaVar(int(x[1]))
    if x[0] == 'imp':
        return P.Implies(form(x[1]), form(x[2]))
    # sugar used by the generator: notations of the propositional library
    if x[0] == 'neg':
        return P.neg(form(x[1]))
    if x[0] == 'and':
        return P._and(form(x[1]), form(x[2]))
    if x[0] == 'or':
        return P._or(form(x[1]), form(x[2]))
    if x[0] == 'equiv':
        return P.equiv(form(x[1]), form(x[2]))
    if x == 'top':
        return P.top()
    raise ValueError(x)


def cf_s(t):
    n = 'true' if t.negated else 'false'
    if isinstance(t, T.CFBot):
        return f'(bot {n})'
    if isinstance(t, T.CFVar):
        return f'(var {n} {t.id})'
    if isinstance(t, T.CFOr):
        return f'(or {n} {cf_s(t.left)} {cf_s(t.right)})'
    if isinstance(t, T.CFAnd):
        return f'(and {n} {cf_s(t.left)} {cf_s(t.right)})'
    raise ValueError(t)


def cf(x):
    k = x[0]
    neg = x[1] == 'true'
    if k == 'bot':
        return T.CFBot(neg)
    if k == 'var':
        r = T.CFVar(int(x[2]))
    elif k == 'or':
        r = T.CFOr(cf(x[2]), cf(x[3]))
    elif k == 'and':
        r = T.CFAnd(cf(x[2]), cf(x[3]))
    else:
        raise ValueError(x)
    r.negated = neg
    return r


def exp(p):
    return pyconv.from_py(p, None, True)


def check_thunk(th, want_conc, label):
    """the thunk's advertised conclusion is `want_conc`, and it replays on a StatefulInterpreter to that conclusion"""
    from proof_generation.interpreter import ExecutionPhase
    from proof_generation.stateful_interpreter import StatefulInterpreter
    from proof_generation.proved import Proved
    if exp(th.conc) != exp(want_conc):
        return f'{label}-conc-differs'
    it = StatefulInterpreter(ExecutionPhase.Proof)
    for a in taut()._axioms:
        it.memory.append(Proved(a))
    r = th(it)
    if exp(r.conclusion) != exp(want_conc):
        return f'{label}-replay-differs'
    return None


def handle(cmd, args):
    t = taut()
    if cmd == 'taut-util':
        # the integer-indexed clause utilities on the REAL code: the conclusion must be the documented schema, instantiated by the
        # caller (args[-1], in the formula language), and the proof must replay to it
        name = args[0]
        want = form(args[-1])
        replay = args[-2] == 'replay'     # replaying the proof object is exponential in the operand sizes: small requests only
        if name == 'conj-nth':
            ps = [form(a) for a in args[1]]
            th = t.conjunction_implies_nth(T.foldr_op(P._and, ps), int(args[2]), len(ps))
        elif name in ('or-front', 'and-front'):
            ps = [form(a) for a in args[1]]
            pos = [int(a) for a in args[2]]
            th = (t.or_move_to_front if name == 'or-front' else t.and_move_to_front)(pos, ps)
        elif name == 'reduce-n':
            ps = [form(a) for a in args[1]]
            th = t.reduce_n_or_duplicates_at_front(int(args[2]), ps)
        elif name == 'merge':
            ls = [form(a) for a in args[1]]
            th = t.merge_clauses(T.foldr_op(P._or, ls), len(ls), form(args[2]))
        else:
            raise ValueError(name)
        if replay:
            bad = check_thunk(th, want, name)
        else:
            bad = None if exp(th.conc) == exp(want) else f'{name}-conc-differs'
        return 'true' if bad is None else f'(bad {bad} {sx.pat_to_s(exp(th.conc))})'
    if cmd == 'taut-cf':
        c, pf1, pf2 = t.to_conj_form(form(args[0]))
        return cf_s(c)
    if cmd == 'taut-propag':
        c, _, _ = t.propag_neg(cf(args[0]))
        return cf_s(c)
    if cmd == 'taut-cnf':
        c, _, _ = t.to_cnf(cf(args[0]))
        return cf_s(c)
    if cmd == 'taut-clauses':
        c, _, _ = t.to_clauses(cf(args[0]))
        return '(' + ' '.join('(' + ' '.join(map(str, cl)) + ')' for cl in c) + ')'
    if cmd == 'taut-resolve':
        cls = [[int(a) for a in c] for c in args[0]]
        r = t.start_resolution_algorithm(cls)
        if r is None:
            return 'none'
        return str(r[0]).lower()
    if cmd == 'taut-prove':
        r = t.prove_tautology(form(args[0]))
        if r is None:
            return 'none'
        return str(r[0]).lower()
    if cmd == 'taut-prove-checked':
        # the verdict, plus: the returned proof's conclusion is literally the pattern (or its negation) and it replays
        pat = form(args[0])
        r = t.prove_tautology(pat)
        if r is None:
            return 'none'
        ok, th = r
        bad = check_thunk(th, pat if ok else P.neg(pat), 'final')
        return (str(ok).lower()) if bad is None else f'(bad {bad})'
    if cmd == 'taut-stages-checked':
        # every stage returns proofs of both implications between its input and its output
        pat = form(args[0])
        problems = []
        c, p1, p2 = t.to_conj_form(pat)
        cpat = T.conj_to_pattern(c)
        if isinstance(c, T.CFBot):
            # only one proof: of pat (Top) or of neg(pat) (Bottom)
            b = check_thunk(p1, pat if c.negated else P.neg(pat), 'conjform')
            if b:
                problems.append(b)
            return 'true' if not problems else '(bad %s)' % ' '.join(problems)
        for th, a, b_, lab in ((p1, pat, cpat, 'conjform-fwd'), (p2, cpat, pat, 'conjform-bwd')):
            b = check_thunk(th, P.Implies(a, b_), lab)
            if b:
                problems.append(b)
        n, q1, q2 = t.propag_neg(c)
        npat = T.conj_to_pattern(n)
        for th, a, b_, lab in ((q1, cpat, npat, 'propag-fwd'), (q2, npat, cpat, 'propag-bwd')):
            b = check_thunk(th, P.Implies(a, b_), lab)
            if b:
                problems.append(b)
        f, r1, r2 = t.to_cnf(n)
        fpat = T.conj_to_pattern(f)
        for th, a, b_, lab in ((r1, npat, fpat, 'cnf-fwd'), (r2, fpat, npat, 'cnf-bwd')):
            b = check_thunk(th, P.Implies(a, b_), lab)
            if b:
                problems.append(b)
        cl, s1, s2 = t.to_clauses(f)
        clpat = T.clause_conjunctionto_pattern(cl)
        for th, a, b_, lab in ((s1, fpat, clpat, 'clauses-fwd'), (s2, clpat, fpat, 'clauses-bwd')):
            b = check_thunk(th, P.Implies(a, b_), lab)
            if b:
                problems.append(b)
        return 'true' if not problems else '(bad %s)' % ' '.join(problems)
    return None
