"""The canonical list of shipped Notation objects (order = index used by `napp IDX` in the protocol and
by lean/Pi2/Gen/Notations.lean)."""
from proof_generation import pattern as P
from proof_generation.proofs import propositional, definedness, kore, substitution

_TABLE = None


def table():
    global _TABLE
    if _TABLE is not None:
        return _TABLE
    out, seen = [], set()

    def add(group, n):
        key = (n.label, n.arity, n.format_str)
        if key in seen:
            return
        seen.add(key)
        out.append((group, n))
    for mod, group in ((P, 'pattern'), (propositional, 'propositional'), (definedness, 'definedness'), (kore, 'kore'),
                       (substitution, 'substitution')):
        for name in sorted(vars(mod)):
            v = getattr(mod, name)
            if isinstance(v, P.Notation):
                add(group, v)
    for n in kore.KORE_NOTATIONS:
        add('kore', n)
    for k in range(3):
        add('kore', kore.sorted_exists(k)); add('kore', kore.kore_exists(k)); add('substitution', substitution.forall(k))
    for k in range(4):
        add('kore', kore.nary_app(P.Symbol('f%d' % k), k)); add('kore', kore.nary_app(P.Symbol('c%d' % k), k, True))
    # wide applications (K configurations have dozens of cells): two-digit argument positions in the format string
    add('kore', kore.nary_app(P.Symbol('f11'), 11)); add('kore', kore.nary_app(P.Symbol('c12'), 12, True))
    _TABLE = out
    return out
