"""Protocol commands about the K front end (Kore conversion, execution traces), on the real code.
`pyk.kore.syntax` is absent offline: `pyk_stub` provides dataclasses with the field order the repo's `match`
statements use (trusted base of C20)."""
from __future__ import annotations

import json
import os

from harness.py import pyk_stub
pyk_stub.install()

import pyk.kore.syntax as kore   # noqa: E402

from harness.py import pyconv   # noqa: E402
from vlib import sx   # noqa: E402

_FIXED = None


class KSymTab(pyconv.SymTab):
    """ksort_S<n> -> 2000+2n, ksym_f<n> -> 2001+2n, a domain value '<v>' -> 100000+v, the fixed symbols as in the
    generated notation table (out/build/notations.json)"""

    def num(self, name):
        global _FIXED
        if _FIXED is None:
            here = os.path.dirname(os.path.abspath(__file__))
            _FIXED = json.load(open(os.path.join(here, '..', '..', 'out', 'build', 'notations.json')))['symbols']
        if name.startswith('ksort_S') and name[7:].isdigit():
            return 2000 + 2 * int(name[7:])
        if name.startswith('ksym_f') and name[6:].isdigit():
            return 2001 + 2 * int(name[6:])
        if name.isdigit():
            return 100000 + int(name)
        if name in _FIXED:
            return _FIXED[name]
        raise ValueError(f'unexpected symbol {name!r}')


def out(p):
    return sx.pat_to_s(pyconv.from_py(p, KSymTab(), False))


def ksort(x):
    return kore.SortVar('V%s' % x[1]) if x[0] == 'sv' else kore.SortApp('S%s' % x[1])   # sort variable k and element variable k share the name Vk


def kterm(x):
    k = x[0]
    if k == 'evar':
        return kore.EVar('V%s' % x[1], kore.SortApp('S0'))
    if k == 'app':
        return kore.App(symname(x[1]), tuple(ksort(s) for s in x[2]), tuple(kterm(a) for a in x[3]))
    if k == 'dv':
        return kore.DV(ksort(x[1]), kore.String(x[2]))
    if k in ('top', 'bottom'):
        return {'top': kore.Top, 'bottom': kore.Bottom}[k](ksort(x[1]))
    if k in ('not', 'next'):
        return {'not': kore.Not, 'next': kore.Next}[k](ksort(x[1]), kterm(x[2]))
    if k in ('and', 'or'):
        return {'and': kore.And, 'or': kore.Or}[k](ksort(x[1]), (kterm(x[2]), kterm(x[3])))
    if k in ('implies', 'iff', 'rewrites'):
        return {'implies': kore.Implies, 'iff': kore.Iff, 'rewrites': kore.Rewrites}[k](ksort(x[1]), kterm(x[2]), kterm(x[3]))
    if k in ('ceil', 'floor'):
        return {'ceil': kore.Ceil, 'floor': kore.Floor}[k](ksort(x[1]), ksort(x[2]), kterm(x[3]))
    if k in ('equals', 'in'):
        return {'equals': kore.Equals, 'in': kore.In}[k](ksort(x[1]), ksort(x[2]), kterm(x[3]), kterm(x[4]))
    raise ValueError(x)


SPECIAL = {'999': 'kseq', '1000001': 'functional', '1000002': 'constructor', '1000003': 'cell'}


def symname(n):
    return SPECIAL.get(str(n), 'f%s' % n)


def unname(s):
    """the number of a Kore name of the protocol (`S3`, `f5`, `V2`, `M0`, `kseq`, `functional`, …)"""
    for k, v in SPECIAL.items():
        if v == s:
            return k
    return s[1:]


class _Other:
    """a sentence of a class the builder has no branch for"""


def kdefinition(x):
    """the Kore definition of the protocol: (def (module N (import M) (sort N 0|1) (symbol N (vars ..) (params ..) SORT (attrs ..)) (axiom T) (other))..)"""
    mods = []
    for m in x[1:]:
        sents = []
        for st in m[2:]:
            k = st[0]
            if k == 'import':
                sents.append(kore.Import('M%s' % st[1], ()))
            elif k == 'sort':
                sents.append(kore.SortDecl('S%s' % st[1], (), (), st[2] == '1'))
            elif k == 'symbol':
                sents.append(kore.SymbolDecl(kore.Symbol(symname(st[1]), tuple(ksort(v) for v in st[2][1:])), tuple(ksort(p_) for p_ in st[3][1:]),
                                             ksort(st[4]), tuple(kterm(a) for a in st[5][1:])))
            elif k == 'axiom':
                sents.append(kore.Axiom((), kterm(st[1]), ()))
            else:
                sents.append(_Other())
        mods.append(kore.Module('M%s' % m[1], tuple(sents), ()))
    return kore.Definition(tuple(mods), ())


def dump_semantics(sem):
    from proof_generation.k.kore_convertion.language_semantics import KRewritingRule, KSort
    def ref(r):
        return '(s %s)' % unname(r.name) if isinstance(r, KSort) else '(sv %s)' % unname(r.name)
    mods, counters = [], []
    for m in sem._imported_modules:
        if not any(c is m.counter for c in counters):
            counters.append(m.counter)
        sorts = ' '.join('(%s %d)' % (unname(srt.name), srt.hooked) for srt in m._sorts.values())
        syms = ' '.join('(%s (%s) (%s) %s %d %d %d)' % (unname(y.name), ' '.join(unname(v.name) for v in y.sort_params), ' '.join(ref(r) for r in y.input_sorts),
                                                       ref(y.output_sort), y.is_functional, y.is_ctor, y.is_cell) for y in m._symbols.values())
        axs = ' '.join('(%d %s %s)' % (a.ordinal, 'rw' if isinstance(a, KRewritingRule) else 'eq', out(a.pattern)) for a in m._axioms.values())
        mods.append('(module %s (sorts %s) (symbols %s) (axioms %s))' % (unname(m.name), sorts, syms, axs))
    return '(ls %s %s (counters (%s)))' % (' '.join(mods), dump_scopes(sem), ' '.join(repr(c)[6:-1] for c in counters))


def dump_scopes(sem):
    return '(scopes %s)' % ' '.join('(%d (%s) (%s))' % (o, ' '.join(k[1:] for k in sc._metavars), ' '.join(k[1:] for k in sc._sort_param_metavars))
                                    for o, sc in sem._cached_axiom_scopes.items())


def definition(sig, rules=()):
    """a one-module Kore definition: sort and symbol declarations, then the rewrite axioms in the shape
    `\\rewrites{S}(\\and{S}(lhs, \\top{S}), \\and{S}(rhs, \\top{S}))` that from_kore_definition expects"""
    sents = []
    for s in sig[1]:
        sents.append(kore.SortDecl('S%s' % s, (), ()))
    for d in sig[2]:
        n, nsp, nin, cell, fn, kseq = d
        name = 'kseq' if kseq == '1' else 'f%s' % n
        vars_ = tuple(kore.SortVar('Q%d' % i) for i in range(int(nsp)))
        attrs = []
        if fn == '1':
            attrs.append(kore.App('functional'))
        if cell == '1':
            attrs.append(kore.App('cell'))
        sents.append(kore.SymbolDecl(kore.Symbol(name, vars_), tuple(kore.SortApp('S%s' % sig[1][0]) for _ in range(int(nin))),
                                     kore.SortApp('S%s' % sig[1][0]), tuple(attrs)))
    for r in rules:
        assert r[0] == 'rewrites'
        srt = ksort(r[1])
        sents.append(kore.Axiom((), kore.Rewrites(srt, kore.And(srt, (kterm(r[2]), kore.Top(srt))), kore.And(srt, (kterm(r[3]), kore.Top(srt)))), ()))
    return kore.Definition((kore.Module('M', tuple(sents), ()),), ())


def handle(cmd, args):
    import contextlib
    import io
    with contextlib.redirect_stdout(io.StringIO()):     # the real code prints warnings to stdout
        return _handle(cmd, args)


def _handle(cmd, args):
    from proof_generation.k.kore_convertion.language_semantics import ConvertionScope, LanguageSemantics
    if cmd == 'kconv':
        try:
            sem = LanguageSemantics.from_kore_definition(definition(args[0]))
        except Exception as e:   # noqa
            return '(raise definition %s)' % type(e).__name__
        scope = ConvertionScope()
        try:
            p = sem._convert_pattern(scope, kterm(args[1]))
        except RecursionError:
            raise
        except Exception as e:   # noqa
            return '(raise)'
        return '(ok %s (scope (%s) (%s)))' % (out(p), ' '.join(k[1:] for k in scope._metavars), ' '.join(k[1:] for k in scope._sort_param_metavars))
    if cmd in ('kdef', 'khints', 'ksym', 'kcount'):
        from proof_generation.k.kore_convertion.language_semantics import KRewritingRule
        try:
            sem = LanguageSemantics.from_kore_definition(kdefinition(args[0]))
        except RecursionError:
            return 'fuel'
        except Exception as e:   # noqa
            return '(raise)' if cmd == 'kdef' else '(refused)'
        if cmd == 'kcount':
            try:
                return '(count %d)' % sem.count_simplifications(sem.convert_pattern(kterm(args[1])))
            except RecursionError:
                return 'fuel'
            except Exception as e:   # noqa
                return '(raise)'
        if cmd == 'kdef':
            return dump_semantics(sem)
        if cmd == 'ksym':      # get_symbol(name): the number of its input sorts, and the order in which the modules are searched
            return '(ksym %d (%s))' % (len(sem.get_symbol(symname(args[1])).input_sorts), ' '.join(unname(m.name) for m in reversed(sem.modules)))
        from proof_generation.k.kore_convertion.rewrite_steps import get_proof_hints
        from proof_generation.llvm_proof_hint import LLVMRewriteTrace, LLVMRuleEvent, LLVMSideCondEvent
        items = []
        for it in args[1][2:]:
            if it[0] == 'rule':
                items.append(LLVMRuleEvent(int(it[1]), tuple(('V%s' % a, kterm(t)) for a, t in it[2])))
            elif it[0] == 'config':
                items.append(kterm(it[1]))
            else:
                items.append(LLVMSideCondEvent(0, ()))
        try:
            hints = list(get_proof_hints(LLVMRewriteTrace((), kterm(args[1][1]), tuple(items)), sem))
        except RecursionError:
            return 'fuel'
        except Exception as e:   # noqa
            return '(raise)'
        hs = ' '.join('(hint (%d %s %s) %s %s (%s))' % (h.axiom.ordinal, 'rw' if isinstance(h.axiom, KRewritingRule) else 'eq', out(h.axiom.pattern),
                                                        out(h.configuration_before), out(h.configuration_after),
                                                        ' '.join('(%d %s)' % (k, out(v)) for k, v in h.substitutions.items())) for h in hints)
        return '(hints %s %s)' % (hs, dump_scopes(sem))
    if cmd in ('ktrace', 'kmodule'):
        from proof_generation.k.execution_proof_generation import ExecutionProofExp
        from proof_generation.k.kore_convertion.rewrite_steps import get_proof_hints
        from proof_generation.llvm_proof_hint import LLVMRewriteTrace, LLVMRuleEvent
        sig, rules, init, steps = args[0], args[1][1:], args[2], args[3][1:]
        try:
            sem = LanguageSemantics.from_kore_definition(definition(sig, rules))
            init_k = kterm(init)
            trace = []
            for ordn, kvs in steps:
                trace.append(LLVMRuleEvent(int(ordn), tuple(('V%s' % x, kterm(t)) for x, t in kvs)))
                trace.append(init_k)      # the configuration reported after the step (converted, otherwise unused)
            tr = LLVMRewriteTrace((), init_k, tuple(trace))
        except RecursionError:
            raise
        except Exception as e:   # noqa
            return '(raise convert)'
        try:
            pe = ExecutionProofExp.from_proof_hints(get_proof_hints(tr, sem), sem)
        except RecursionError:
            raise
        except Exception as e:   # noqa
            import traceback
            tb = traceback.extract_tb(e.__traceback__)
            where = next((f.name for f in reversed(tb) if f.name in ('rewrite_event', 'convert_substitutions', 'get_axiom', 'add_claim',
                                                                      'collect_functional_axioms', 'get_proof_hints')), tb[-1].name)
            return '(raise %s %s)' % (where, type(e).__name__)
        if cmd == 'ktrace':
            if not isinstance(pe, ExecutionProofExp):
                return '(ok (axioms) (claims) (curr %s))' % out(sem.convert_pattern(init_k))
            return '(ok (axioms %s) (claims %s) (curr %s))' % (' '.join(out(a) for a in pe._axioms), ' '.join(out(c) for c in pe._claims),
                                                               out(pe.current_configuration))
        # kmodule: serialise (plain and optimised) and return the three files
        import shutil
        import tempfile
        from pathlib import Path
        res = []
        for opt in (False, True):
            d = tempfile.mkdtemp(prefix='pi2k')
            try:
                try:
                    pe.main(['', '--optimize', 'binary', d, 'm'] if opt else ['', 'binary', d, 'm'])
                except RecursionError:
                    raise
                except Exception as e:   # noqa
                    res.append('(raise serialize %s)' % type(e).__name__)
                    continue
                res.append('(ok %s)' % ' '.join(open(str(Path(d) / 'm') + ext, 'rb').read().hex() or '-' for ext in ('.ml-gamma', '.ml-claim', '.ml-proof')))
            finally:
                shutil.rmtree(d, ignore_errors=True)
        # the published theory the module declares: imported modules first
        def gamma(m):
            o = []
            for sub in m._submodules:
                o += gamma(sub)
            return o + list(m._axioms)
        return '(module %s %s (gamma %s) (claims %s))' % (res[0], res[1], ' '.join(pyconv.to_sx_expanded(a, KSymTab()) for a in gamma(pe)),
                                                       ' '.join(pyconv.to_sx_expanded(c, KSymTab()) for c in pe._claims))
    return None
