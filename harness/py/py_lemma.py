"""Protocol commands about the derived-rule libraries (C10), on the real code."""
from __future__ import annotations

import inspect

from harness.py import pyconv
from vlib import sx

_T = None


def lib():
    global _T
    if _T is None:
        from proof_generation.tautology import Tautology
        _T = Tautology()
    return _T


def npat(x):
    return pyconv.to_py(sx.pat_of_sx(x))


def handle(cmd, args):
    from proof_generation.claim import Claim   # noqa: F401
    from proof_generation.interpreter import ExecutionPhase
    from proof_generation.proof import ProofThunk
    from proof_generation.proved import Proved
    from proof_generation.stateful_interpreter import StatefulInterpreter
    if cmd != 'lemma-real':
        return None
    name = args[0]
    T = lib()
    ps = [npat(x) for x in args[1]]
    cs = [npat(x) for x in args[2]]
    meth = getattr(T, name)
    params = list(inspect.signature(meth).parameters.values())
    pi, ti = iter(ps), iter(cs)
    call_args = []
    premises = []
    for prm in params:
        ann = str(prm.annotation)
        if ann.endswith('Pattern'):
            call_args.append(next(pi))
        else:
            c = next(ti)
            premises.append(c)
            def run(it, c=c):
                it.load('premise', Proved(c))
                return Proved(c)
            call_args.append(ProofThunk(run, c))
    try:
        th = meth(*call_args)
    except RecursionError:
        raise
    except Exception as e:   # noqa
        return '(raise construct %s)' % type(e).__name__
    conc = pyconv.to_sx_expanded(th.conc)
    # replay on a stateful interpreter whose memory holds the premises and the module's axioms; record the rules used
    used = []

    class Rec(StatefulInterpreter):
        def exists_quantifier(self):
            used.append('quantifier'); return super().exists_quantifier()

        def exists_generalization(self, proved, var):
            used.append('generalization'); return super().exists_generalization(proved, var)

        def load(self, id, term):
            if isinstance(term, Proved) and not any(term.conclusion == a for a in allowed):
                used.append('load-foreign')
            return super().load(id, term)
    allowed = list(premises) + list(T._axioms)
    it = Rec(ExecutionPhase.Proof)
    for a in allowed:
        it.memory.append(Proved(a))
    try:
        res = th(it)
        same = res.conclusion == th.conc
        top = it.stack[-1] if it.stack else None
        replay = 'ok' if same and isinstance(top, Proved) and top.conclusion == th.conc and len(it.stack) == 1 else 'differs'
    except RecursionError:
        raise
    except Exception as e:   # noqa
        replay = 'raise-' + type(e).__name__
    return '(ok %s %s (%s))' % (conc, replay, ' '.join(sorted(set(used))))
