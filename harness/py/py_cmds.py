"""Further commands of the Python endpoint (laws evaluated on the real code, matching, rules, ...)."""
from __future__ import annotations

from frozendict import frozendict

from vlib import sx
from harness.py import pyconv
from proof_generation import pattern as P


def npat(x):
    return pyconv.to_py(sx.pat_of_sx(x))


def nmap(x):
    return {int(k): npat(v) for k, v in x}


def full(p):
    """full expansion as a tuple"""
    return pyconv.from_py(p, None, True)


def expand_obj(p):
    return pyconv.to_py(full(p))


def pp_obj(x, tab):
    k = x[0]
    if k == 'evar':
        return P.EVar(int(x[1]))
    if k == 'svar':
        return P.SVar(int(x[1]))
    if k == 'sym':
        return P.Symbol(x[1])
    if k == 'imp':
        return P.Implies(pp_obj(x[1], tab), pp_obj(x[2], tab))
    if k == 'app':
        return P.App(pp_obj(x[1], tab), pp_obj(x[2], tab))
    if k == 'ex':
        return P.Exists(int(x[1]), pp_obj(x[2], tab))
    if k == 'mu':
        return P.Mu(int(x[1]), pp_obj(x[2], tab))
    if k == 'mv':
        return P.MetaVar(int(x[1]))
    if k == 'esub':
        return P.ESubst(pp_obj(x[1], tab), P.EVar(int(x[2])), pp_obj(x[3], tab))
    if k == 'ssub':
        return P.SSubst(pp_obj(x[1], tab), P.SVar(int(x[2])), pp_obj(x[3], tab))
    if k == 'napp':
        return tab[int(x[1])](*[pp_obj(a, tab) for a in x[2:]])
    raise ValueError(x)


def rule(cmd, args):
    """run one proof rule on BasicInterpreter; additionally on StatefulInterpreter and ProofExp (static check) and
    report when they disagree with it"""
    from proof_generation.basic_interpreter import BasicInterpreter
    from proof_generation.stateful_interpreter import StatefulInterpreter
    from proof_generation.interpreter import ExecutionPhase
    from proof_generation.proved import Proved
    from proof_generation.proof import ProofExp, ProofThunk

    def attempt(f):
        try:
            return ('ok', f())
        except AssertionError:
            return ('raise', 'AssertionError')
        except RecursionError:
            raise
        except Exception as e:   # noqa
            return ('raise', type(e).__name__)

    def thunk(p):
        return ProofThunk(lambda interp: Proved(p), p)

    b = BasicInterpreter(ExecutionPhase.Proof)
    pe = ProofExp()
    if cmd == 'rule-mp':
        l, r = npat(args[0]), npat(args[1])
        r1 = attempt(lambda: b.modus_ponens(Proved(l), Proved(r)).conclusion)

        def st():
            s = StatefulInterpreter(ExecutionPhase.Proof)
            pl, pr = Proved(l), Proved(r)
            s.stack = [pl, pr]
            return s.modus_ponens(pl, pr).conclusion
        r2 = attempt(st)
        r3 = attempt(lambda: pe.modus_ponens(thunk(l), thunk(r)).conc)
    elif cmd == 'rule-gen':
        a, x = npat(args[0]), int(args[1])
        r1 = attempt(lambda: b.exists_generalization(Proved(a), P.EVar(x)).conclusion)

        def st():
            s = StatefulInterpreter(ExecutionPhase.Proof)
            pa = Proved(a)
            s.stack = [pa]
            return s.exists_generalization(pa, P.EVar(x)).conclusion
        r2 = attempt(st)
        # ProofExp.exists_generalization has no static side-condition check; run the thunk on a BasicInterpreter
        r3 = attempt(lambda: pe.exists_generalization(thunk(a), P.EVar(x))(BasicInterpreter(ExecutionPhase.Proof)).conclusion)
    else:
        a, d = npat(args[0]), nmap(args[1])
        r1 = attempt(lambda: b.instantiate(Proved(a), dict(d)).conclusion)
        r2 = r1
        r3 = attempt(lambda: pe.dynamic_inst(thunk(a), dict(d))(BasicInterpreter(ExecutionPhase.Proof)).conclusion)
    def key(r):
        return (r[0], full(r[1]) if r[0] == 'ok' else r[1])
    if not (key(r1) == key(r2) == key(r3)):
        return '(interpreters-disagree basic=%s stateful=%s proofexp=%s)' % (r1[0], r2[0], r3[0])
    if r1[0] == 'raise':
        return '(raise %s)' % r1[1]
    return sx.pat_to_s(pyconv.from_py(r1[1], None, False))


def out_subst(r):
    if r is None:
        return 'none'
    return '(some (' + ' '.join('(%d %s)' % (k, sx.pat_to_s(pyconv.from_py(v, None, False))) for k, v in r.items()) + '))'


def handle(cmd, args):
    if cmd == 'law-inst-transparent':
        d, p = nmap(args[0]), npat(args[1])
        lhs = full(p.instantiate(d))
        rhs = full(expand_obj(p).instantiate({k: expand_obj(v) for k, v in d.items()}))
        return 'true' if lhs == rhs else '(false %s %s)' % (sx.pat_to_s(lhs), sx.pat_to_s(rhs))
    if cmd == 'law-inst-comp':
        d1, d2, p = nmap(args[0]), nmap(args[1]), npat(args[2])
        lhs = full(p.instantiate(d1).instantiate(d2))
        comp = {k: v.instantiate(d2) for k, v in d1.items()}
        for k, v in d2.items():
            if k not in comp:
                comp[k] = v
        rhs = full(p.instantiate(comp))
        return 'true' if lhs == rhs else '(false %s %s)' % (sx.pat_to_s(lhs), sx.pat_to_s(rhs))
    if cmd == 'law-eq':
        a, b = npat(args[0]), npat(args[1])
        want = full(a) == full(b)
        got = [bool(a == b), bool(b == a), not bool(a != b)]
        refl = [bool(a == a), bool(b == b)]
        if all(g == want for g in got) and all(refl):
            return 'true'
        return '(false want=%s got=%s refl=%s)' % (want, got, refl)
    if cmd == 'law-transparent':
        x, plug, d, p = int(args[0]), npat(args[1]), nmap(args[2]), npat(args[3])
        e = expand_obj(p)
        bad = []
        if p.evar_is_free(x) != e.evar_is_free(x):
            bad.append('evar_is_free')
        if p.metavars() != e.metavars():
            bad.append('metavars')
        if full(p.apply_esubst(x, plug)) != full(e.apply_esubst(x, plug)):
            bad.append('apply_esubst')
        if full(p.apply_ssubst(x, plug)) != full(e.apply_ssubst(x, plug)):
            bad.append('apply_ssubst')
        if full(p.instantiate(d)) != full(e.instantiate(d)):
            bad.append('instantiate')
        for cls in (P.Implies, P.App):
            u1, u2 = cls.unwrap(p), cls.unwrap(e)
            if (u1 is None) != (u2 is None) or (u1 is not None and [full(t) for t in u1] != [full(t) for t in u2]):
                bad.append('unwrap ' + cls.__name__)
        for cls in (P.EVar, P.SVar, P.Symbol):
            if cls.deconstruct(p) != cls.deconstruct(e):
                bad.append('deconstruct ' + cls.__name__)
        for cls in (P.Exists, P.Mu):
            u1, u2 = cls.deconstruct(p), cls.deconstruct(e)
            if (u1 is None) != (u2 is None) or (u1 is not None and (u1[0], full(u1[1])) != (u2[0], full(u2[1]))):
                bad.append('deconstruct ' + cls.__name__)
        # matching: p as instance of a pattern, and p as the pattern
        q = plug
        m1, m2 = P.match_single(q, p), P.match_single(q, e)
        if (m1 is None) != (m2 is None) or (m1 is not None and {k: full(v) for k, v in m1.items()} != {k: full(v) for k, v in m2.items()}):
            bad.append('match_single(instance)')
        m1, m2 = P.match_single(p, q), P.match_single(e, q)
        if (m1 is None) != (m2 is None) or (m1 is not None and {k: full(v) for k, v in m1.items()} != {k: full(v) for k, v in m2.items()}):
            bad.append('match_single(pattern)')
        # ... and against another application of the SAME notation (the shared body object): argument-wise instances, and variants
        # that differ from p in one argument only (an argument the body ignores must not influence the answer)
        if isinstance(p, P.Instantiate):
            def same(m1, m2):
                return (m1 is None) == (m2 is None) and (m1 is None or {k: full(v) for k, v in m1.items()} == {k: full(v) for k, v in m2.items()})
            variants = [P.Instantiate(p.pattern, frozendict({k: v.instantiate(d) for k, v in p.inst.items()}))]
            for k in list(p.inst)[:3]:
                variants.append(P.Instantiate(p.pattern, frozendict({j: (plug if j == k else v) for j, v in p.inst.items()})))
            for v2 in variants:
                if not same(P.match_single(p, v2), P.match_single(e, expand_obj(v2))):
                    bad.append('match_single(same-notation)')
                    break
        return 'true' if not bad else '(false %s)' % ' '.join(b.replace(' ', '-') for b in bad)
    if cmd == 'law-match-sound':
        # soundness: a successful match re-instantiates to the instance and respects the seed bindings
        pt, ins, seed = npat(args[0]), npat(args[1]), nmap(args[2])
        r = P.match_single(pt, ins, dict(seed))
        if r is None:
            return 'none'
        ok1 = full(pt.instantiate(r)) == full(ins)
        ok2 = all(k in r and full(r[k]) == full(v) for k, v in seed.items())
        if ok1 and ok2:
            return 'true'
        # for the classification of the failure: the bindings and the pattern, fully expanded
        binds = ' '.join('(%d %s)' % (k, sx.pat_to_s(full(v))) for k, v in r.items())
        return '(false reinst=%s seed=%s (binds %s) (pattern %s))' % (ok1, ok2, binds, sx.pat_to_s(full(pt)))
    if cmd == 'law-matchlist-sound':
        # soundness of the list form: a successful `match` re-instantiates EVERY equation's pattern to its instance
        eqs = [(npat(e[0]), npat(e[1])) for e in args[0]]
        r = P.match(eqs)
        if r is None:
            return 'none'
        bad = [i for i, (pt, ins) in enumerate(eqs) if full(pt.instantiate(r)) != full(ins)]
        if not bad:
            return 'true'
        # for the classification of the failure: the bindings and the failing patterns (as one application chain), expanded
        binds = ' '.join('(%d %s)' % (k, sx.pat_to_s(full(v))) for k, v in r.items())
        chain = full(eqs[bad[0]][0])
        for i in bad[1:]:
            chain = ('app', chain, full(eqs[i][0]))
        return '(false equations=%s (binds %s) (pattern %s))' % (','.join(map(str, bad)), binds, sx.pat_to_s(chain))
    if cmd == 'law-match-complete':
        # completeness: the instance is pt[theta]; matching must succeed and agree with theta on metavars(pt)
        pt, theta = npat(args[0]), nmap(args[1])
        ins = pt.instantiate(theta)
        r = P.match_single(pt, ins)
        r2 = P.match([(pt, ins)])
        if r is None or r2 is None:
            # the expanded pattern and the keys of theta go with the answer, so that the caller can classify the failure
            return '(false no-match single=%s list=%s (pattern %s) (theta-keys %s))' % (
                r is not None, r2 is not None, sx.pat_to_s(full(pt)), ' '.join(str(k) for k in theta))
        for k in pt.metavars():
            if k in theta:
                if k not in r or full(r[k]) != full(theta[k]):
                    return '(false binding %d)' % k
            elif k in r:
                got = full(r[k])      # an uninstantiated metavariable matches itself (whatever its constraint lists)
                if not (got[0] == 'mv' and got[1] == k):
                    return '(false binding-of-unbound %d)' % k
        return 'true'
    if cmd == 'law-notation-roundtrip':
        # Notation.matches / assert_matches on an application rebuilds an equal pattern
        n = P.Notation('n', int(args[1]), npat(args[0]), '')
        argv = [npat(a) for a in args[2]]
        app = n(*argv)
        r = n.matches(app)
        if r is None:
            return '(false no-match)'
        try:
            r2 = n.assert_matches(app)
        except AssertionError:
            return '(false assert_matches-raises)'
        if full(n(*r)) != full(app) or full(n(*r2)) != full(app):
            return '(false rebuilt-differs)'
        if not (n(*r) == app):
            return '(false rebuilt-not-==)'
        # the same for applications of the body that were NOT built by Notation.__call__ (Interpreter.instantiate_pattern builds
        # them): keys in another order, and a partial map — whatever `matches` returns must rebuild the pattern
        items = list(enumerate(argv))
        alts = []
        if len(items) >= 2:
            alts.append(P.Instantiate(n.definition, frozendict(reversed(items))))
        if items:
            alts.append(P.Instantiate(n.definition, frozendict(items[1:])))
        for alt in alts:
            ra = n.matches(alt)
            if ra is None:
                continue
            if len(ra) != n.arity:
                return '(false matches-arity %d)' % len(ra)
            if full(n(*ra)) != full(alt):
                return '(false rebuilt-differs-noncanonical)'
        return 'true'
    if cmd in ('rule-mp', 'rule-gen', 'rule-inst'):
        return rule(cmd, args)
    if cmd == 'track':
        from harness.py import py_track
        return py_track.track(args)
    if cmd == 'deser':
        from harness.py import py_track
        return py_track.deser(args)
    if cmd == 'deser-ux':
        from harness.py import py_track
        return py_track.deser(args, True, typed=False)
    if cmd == 'deser-x':
        from harness.py import py_track
        return py_track.deser(args, True)
    if cmd == 'track-x':
        from harness.py import py_track
        return py_track.track_x(args)
    if cmd == 'track-trace':
        from harness.py import py_track
        return py_track.track_trace(args)
    if cmd == 'pretty':
        from harness.py import notation_table
        tab = [n for _, n in notation_table.table()]
        opts = P.PrettyOptions(notations=frozendict({n.definition: n for n in tab}))
        return 's:' + pp_obj(args[0], tab).pretty(opts)
    if cmd == 'pretty-gen':
        # MODE = table | empty | simplify | simplify-empty: the options `Pattern.pretty` is called with
        from harness.py import notation_table
        tab = [n for _, n in notation_table.table()]
        mode = args[0]
        nots = frozendict({n.definition: n for n in tab}) if mode in ('table', 'simplify') else frozendict({})
        opts = P.PrettyOptions(simplify_instantiations=mode.startswith('simplify'), notations=nots)
        return 's:' + pp_obj(args[2], tab).pretty(opts)   # args[1]: the symbol table, for the model only
    if cmd == 'law-pretty-shows':
        # two applications of notation IDX whose argument tuples differ exactly at position i:
        # if they denote different patterns and the two arguments print differently, the applications print differently
        from harness.py import notation_table
        tab = [n for _, n in notation_table.table()]
        opts = P.PrettyOptions(notations=frozendict({n.definition: n for n in tab}))
        n = tab[int(args[0])]
        i = int(args[1])
        A = [pp_obj(a, tab) for a in args[2]]
        B = list(A)
        B[i] = pp_obj(args[3], tab)
        pa, pb = n(*A), n(*B)
        if full(pa) == full(pb):
            return 'same-denotation'
        if A[i].pretty(opts) == B[i].pretty(opts):
            return 'args-print-equal'
        return 'true' if pa.pretty(opts) != pb.pretty(opts) else '(false %s)' % pa.pretty(opts).replace(' ', '_').replace('(', '[').replace(')', ']')
    if cmd == 'match':
        ext = nmap(args[2])
        r = P.match_single(npat(args[0]), npat(args[1]), dict(ext))
        return out_subst(r)
    if cmd == 'matchlist':
        r = P.match([(npat(e[0]), npat(e[1])) for e in args[0]])
        return out_subst(r)
    if cmd == 'nmatches':
        n = P.Notation('n', int(args[1]), npat(args[0]), '')
        r = n.matches(npat(args[2]))
        if r is None:
            return 'none'
        return '(some (' + ' '.join(sx.pat_to_s(pyconv.from_py(v, None, False)) for v in r) + '))'
    if cmd == 'nary':
        # the real destructor, called as its callers do (through its @cache)
        from proof_generation.proofs.kore import deconstruct_nary_application
        h, av = deconstruct_nary_application(npat(args[0]))
        return '(some %s (%s))' % (sx.pat_to_s(pyconv.from_py(h, None, False)),
                                   ' '.join(sx.pat_to_s(pyconv.from_py(a, None, False)) for a in av))
    if cmd == 'law-nary-transparent':
        # destructuring, then expanding head and arguments = expanding, then destructuring (REAL code only)
        from proof_generation.proofs.kore import deconstruct_nary_application
        p = npat(args[0])
        h, av = deconstruct_nary_application(p)
        h2, av2 = deconstruct_nary_application(expand_obj(p))
        bad = []
        if full(h) != full(h2):
            bad.append('head %s %s' % (sx.pat_to_s(full(h)), sx.pat_to_s(full(h2))))
        if len(av) != len(av2):
            bad.append('arity %d %d' % (len(av), len(av2)))
        else:
            for i, (a, b) in enumerate(zip(av, av2)):
                if full(a) != full(b):
                    bad.append('arg %d %s %s' % (i, sx.pat_to_s(full(a)), sx.pat_to_s(full(b))))
        return 'true' if not bad else '(false %s)' % ' '.join('(%s)' % b for b in bad)
    from harness.py import py_module
    r = py_module.handle(cmd, args)
    if r is not None:
        return r
    from harness.py import py_mm
    r = py_mm.handle(cmd, args)
    if r is not None:
        return r
    if cmd == 'lemma-real':
        from harness.py import py_lemma
        return py_lemma.handle(cmd, args)
    if cmd in ('kconv', 'ktrace', 'kmodule', 'kdef', 'khints', 'ksym', 'kcount'):
        from harness.py import py_kore
        return py_kore.handle(cmd, args)
    if cmd.startswith('taut-'):
        from harness.py import py_taut
        r = py_taut.handle(cmd, args)
        if r is not None:
            return r
    from harness.py import py_cmds2
    return py_cmds2.handle(cmd, args)
