"""Protocol commands about proof expressions and modules, on the real `ProofExp` machinery."""
from __future__ import annotations

import io
import os
import shutil
import tempfile
from pathlib import Path

from vlib import sx
from harness.py import pyconv
from proof_generation import pattern as P
from proof_generation.basic_interpreter import BasicInterpreter
from proof_generation.claim import Claim
from proof_generation.counting_interpreter import CountingInterpreter
from proof_generation.interpreter import ExecutionPhase
from proof_generation.proof import OutputFormat, ProofExp


def npat(x):
    return pyconv.to_py(sx.pat_of_sx(x))


def build_pf(pe, x):
    k = x[0]
    if k == 'prop1':
        return pe.prop1()
    if k == 'prop2':
        return pe.prop2()
    if k == 'prop3':
        return pe.prop3()
    if k == 'quantifier':
        return pe.exists_quantifier()
    if k == 'mp':
        return pe.modus_ponens(build_pf(pe, x[1]), build_pf(pe, x[2]))
    if k == 'gen':
        return pe.exists_generalization(build_pf(pe, x[1]), P.EVar(int(x[2])))
    if k == 'dyninst':
        return pe.dynamic_inst(build_pf(pe, x[1]), {int(a): npat(b) for a, b in x[2]})
    if k == 'static-inst':
        return pe.instantiate(build_pf(pe, x[1]), {int(a): npat(b) for a, b in x[2]})
    if k == 'axiom':
        return pe.load_axiom(npat(x[1]))
    if k == 'rawinst':
        # a proof author calling the interpreter's own `instantiate` (public API, empty maps included) instead of
        # ProofExp.dynamic_inst, which drops empty maps before they reach the interpreter
        from proof_generation.proof import ProofThunk
        pf = build_pf(pe, x[1])
        delta = {int(a): npat(b) for a, b in x[2]}
        conc = pf.conc.instantiate(delta) if delta else pf.conc

        def run(interpreter, pf=pf, delta=delta):
            for q in delta.values():
                interpreter.pattern(q)
            return interpreter.instantiate(pf(interpreter), dict(delta))
        return ProofThunk(run, conc)
    raise ValueError(k)


def build_module(x):
    # (module (axioms ..) (claims ..) (proofs ..) (subs ..))
    import os
    if os.environ.get('PI2_MODULE_VIA_ADD') == '1':
        # the other way of building a module (the one ExecutionProofExp uses): an empty ProofExp filled through add_axioms / add_claims
        pe = ProofExp()
        pe.add_axioms([npat(a) for a in x[1][1:]])
        pe.add_claims([npat(a) for a in x[2][1:]])
    else:
        pe = ProofExp(axioms=[npat(a) for a in x[1][1:]], claims=[npat(a) for a in x[2][1:]])
    for sub in x[4][1:]:
        pe.import_module(build_module(sub))
    for pf in x[3][1:]:
        pe._proof_expressions.append(build_pf(pe, pf))
    return pe


def read3(base, exts):
    out = []
    for e in exts:
        with open(str(base) + e, 'rb') as f:
            out.append(f.read())
    return out


def memo_set(pe):
    claims = [Claim(c) for c in pe._claims]
    analyzer = CountingInterpreter(ExecutionPhase.Gamma, claims)
    pe.execute_full(analyzer)
    return analyzer.finalize()


def handle(cmd, args):
    if cmd == 'module-memo':
        # the memoisation suggestions the real counting pre-pass computes (as a list, order irrelevant)
        try:
            pe = build_module(args[0])
        except Exception:   # noqa
            return '(raise construct)'
        try:
            S = memo_set(pe)
        except RecursionError:
            raise
        except Exception:   # noqa
            return '(raise run)'
        items = sorted(sx.pat_to_s(pyconv.from_py(p, None, False)) for p in S)
        return '(memo yes %s)' % ' '.join(items) if items else '(memo yes)'
    if cmd in ('module', 'module-pretty'):
        opt = len(args[1]) > 1 and args[1][1] == 'yes'
        try:
            pe = build_module(args[0])
        except Exception:   # noqa
            return '(raise)'
        d = tempfile.mkdtemp(prefix='pi2v')
        try:
            try:
                fmt = OutputFormat.Binary if cmd == 'module' else OutputFormat.Pretty
                pe.serialize(Path(d) / 'm', fmt, opt)
            except RecursionError:
                raise
            except Exception:   # noqa
                return '(raise)'
            import gc
            gc.collect()        # IOInterpreter closes its last stream in __del__
            if cmd == 'module':
                g, c, p = read3(Path(d) / 'm', ('.ml-gamma', '.ml-claim', '.ml-proof'))
                return '(ok %s %s %s)' % tuple((b.hex() or '-') for b in (g, c, p))
            g, c, p = read3(Path(d) / 'm', ('.pretty-gamma', '.pretty-claim', '.pretty-proof'))
            return '(ok %s %s %s)' % tuple((b.hex() or '-') for b in (g, c, p))
        finally:
            shutil.rmtree(d, ignore_errors=True)
    if cmd in ('pf-conc', 'pf-basic'):
        pe = ProofExp(axioms=[npat(a) for a in args[0][1:]])
        try:
            th = build_pf(pe, args[1])
        except RecursionError:
            raise
        except Exception:   # noqa
            return '(raise)'
        if cmd == 'pf-conc':
            return sx.pat_to_s(pyconv.from_py(th.conc, None, True))
        try:
            r = th(BasicInterpreter(ExecutionPhase.Proof))
        except RecursionError:
            raise
        except Exception:   # noqa
            return '(raise)'
        return sx.pat_to_s(pyconv.from_py(r.conclusion, None, True))
    if cmd == 'pf-all':
        return pf_all(args)
    if cmd == 'module-history':
        # serialise a sequence of modules in THIS process (binary+pretty, optimise on/off), return a digest per step
        import hashlib
        out = []
        for x in args:
            parts = []
            for c2, memo in (('module', ['memo']), ('module', ['memo', 'yes']), ('module-pretty', ['memo']), ('module-pretty', ['memo', 'yes'])):
                r = handle(c2, [x, memo])
                parts.append(hashlib.sha256(r.encode()).hexdigest()[:16] if r.startswith('(ok') else 'raise')
            out.append('(' + ' '.join(parts) + ')')
        return '(' + ' '.join(out) + ')'
    return None


def pf_all(args):
    """run one proof expression through every interpreter and stack of transformers; report each outcome.
    (pf-all (axioms ..) pf DEPTH)"""
    import itertools
    from proof_generation.stateful_interpreter import StatefulInterpreter
    from proof_generation.serializing_interpreter import SerializingInterpreter
    from proof_generation.pretty_printing_interpreter import PrettyPrintingInterpreter
    from proof_generation.optimizing_interpreters import InstantiationOptimizer, MemoizingInterpreter
    from proof_generation.proved import Proved
    axioms = [npat(a) for a in args[0][1:]]
    depth = int(args[2])

    def fresh_thunk():
        pe = ProofExp(axioms=list(axioms))
        return pe, build_pf(pe, args[1])
    try:
        pe0, th0 = fresh_thunk()
    except RecursionError:
        raise
    except Exception:   # noqa
        return '(construct-raises)'
    adv = pyconv.from_py(th0.conc, None, True)

    class S(io.BytesIO):
        def close(self):
            pass

    class T(io.StringIO):
        def close(self):
            pass

    def prime(it):
        # the axioms must be in memory for load_axiom to work on stateful interpreters (as after the gamma phase)
        if hasattr(it, 'memory'):
            for a in axioms:
                it.memory.append(Proved(a))
        return it
    bases = {
        'basic': lambda: BasicInterpreter(ExecutionPhase.Proof),
        'stateful': lambda: prime(StatefulInterpreter(ExecutionPhase.Proof)),
        'counting': lambda: prime(CountingInterpreter(ExecutionPhase.Proof)),
        'serializing': lambda: prime(SerializingInterpreter(ExecutionPhase.Proof, S())),
        'pretty': lambda: prime(PrettyPrintingInterpreter(ExecutionPhase.Proof, T())),
    }
    # memoisation suggestions: every sub-pattern of the advertised conclusion that is an implication, plus phi0
    sugg = set()

    def subs(p):
        if isinstance(p, P.Implies):
            sugg.add(p); subs(p.left); subs(p.right)
        elif isinstance(p, P.Instantiate):
            sugg.add(p)
    subs(th0.conc)
    sugg.add(P.MetaVar(0))
    transformers = {
        'memo': lambda sub: MemoizingInterpreter(sub, set(sugg)),
        'memo0': lambda sub: MemoizingInterpreter(sub, set()),
        'instopt': lambda sub: InstantiationOptimizer(sub),
    }
    results = {}
    for bname, bf in bases.items():
        for d in range(depth + 1):
            for stack in itertools.product(sorted(transformers), repeat=d):
                name = '.'.join(stack + (bname,))
                try:
                    it = bf()
                    for t in reversed(stack):
                        it = transformers[t](it)
                    pe, th = fresh_thunk()
                    r = th(it)
                    results[name] = sx.pat_to_s(pyconv.from_py(r.conclusion, None, True))
                except RecursionError:
                    raise
                except Exception as e:   # noqa
                    results[name] = 'raise:' + type(e).__name__
    # histories: two interpreters built from ONE claims list run one after the other and publish their proof, the way
    # ProofExp.serialize(optimize=True) runs the counting pass and then the memoising serializer
    from proof_generation.claim import Claim
    pairs = [('counting', lambda cl: prime(CountingInterpreter(ExecutionPhase.Proof, cl)),
              'memo.serializing', lambda cl: MemoizingInterpreter(prime(SerializingInterpreter(ExecutionPhase.Proof, S(), cl)), set(sugg))),
             ('stateful', lambda cl: prime(StatefulInterpreter(ExecutionPhase.Proof, cl)),
              'pretty', lambda cl: prime(PrettyPrintingInterpreter(ExecutionPhase.Proof, T(), cl)))]
    for n1, f1, n2, f2 in pairs:
        shared = [Claim(th0.conc)]
        for tag, f in ((n1, f1), (n2, f2)):
            name = f'shared-claims[{n1}>{n2}].{tag}'
            try:
                it = f(shared)
                pe, th = fresh_thunk()
                r = th(it)
                it.publish_proof(r)
                results[name] = sx.pat_to_s(pyconv.from_py(r.conclusion, None, True))
            except RecursionError:
                raise
            except Exception as e:   # noqa
                results[name] = 'raise:' + type(e).__name__
    outcomes = set(results.values())
    if len(outcomes) == 1:
        o = outcomes.pop()
        if o.startswith('raise:'):
            return '(all-raise %d)' % len(results)
        if sx.pat_of_s(o) == adv:
            return '(all-agree %d %s)' % (len(results), o)
        return '(all-agree-but-not-advertised %d %s %s)' % (len(results), o, sx.pat_to_s(adv))
    groups = {}
    for k, v in results.items():
        groups.setdefault(v, []).append(k)
    return '(disagree %s)' % ' '.join('(%s %s)' % (v if v.startswith('(') else v.replace(':', '-'), ' '.join(ks[:6]))
                                      for v, ks in sorted(groups.items()))
