
// ===================================================================================
// /verif harness tail: appended textually to /repo/rust/src/lib.rs on every run, so it
// sees every private function of the checker.  Speaks the line protocol of DESIGN.md §9b.
// ===================================================================================
extern crate std;
mod verif_harness {
    use super::*;
    use std::io::{BufRead, Write};
    use std::panic::{catch_unwind, AssertUnwindSafe};
    use std::string::String;
    use std::format;

    #[derive(Debug, Clone)]
    enum Sx { Atom(String), List(Vec<Sx>) }

    fn tokenize(s: &str) -> Vec<String> {
        let mut toks = Vec::new();
        let mut cur = String::new();
        for c in s.chars() {
            if c == '(' || c == ')' {
                if !cur.is_empty() { toks.push(cur.clone()); cur.clear(); }
                toks.push(c.to_string());
            } else if c.is_whitespace() {
                if !cur.is_empty() { toks.push(cur.clone()); cur.clear(); }
            } else { cur.push(c); }
        }
        if !cur.is_empty() { toks.push(cur); }
        toks
    }
    use std::string::ToString;

    fn parse_seq(toks: &[String], pos: &mut usize) -> Option<Vec<Sx>> {
        let mut out = Vec::new();
        while *pos < toks.len() {
            let t = &toks[*pos];
            if t == ")" { return Some(out); }
            if t == "(" {
                *pos += 1;
                let inner = parse_seq(toks, pos)?;
                if *pos >= toks.len() || toks[*pos] != ")" { return None; }
                *pos += 1;
                out.push(Sx::List(inner));
            } else {
                out.push(Sx::Atom(t.clone()));
                *pos += 1;
            }
        }
        Some(out)
    }

    fn nat(s: &Sx) -> Option<u8> { if let Sx::Atom(a) = s { a.parse::<u8>().ok() } else { None } }
    fn natlist(s: &Sx) -> Option<Vec<u8>> {
        if let Sx::List(xs) = s { xs.iter().map(nat).collect() } else { None }
    }

    fn pat(s: &Sx) -> Option<Rc<Pattern>> {
        if let Sx::List(xs) = s {
            if xs.is_empty() { return None; }
            let head = if let Sx::Atom(a) = &xs[0] { a.as_str() } else { return None };
            match (head, xs.len()) {
                ("evar", 2) => Some(evar(nat(&xs[1])?)),
                ("svar", 2) => Some(svar(nat(&xs[1])?)),
                ("sym", 2) => Some(symbol(nat(&xs[1])?)),
                ("imp", 3) => Some(implies(pat(&xs[1])?, pat(&xs[2])?)),
                ("app", 3) => Some(app(pat(&xs[1])?, pat(&xs[2])?)),
                ("ex", 3) => Some(exists(nat(&xs[1])?, pat(&xs[2])?)),
                ("mu", 3) => Some(mu(nat(&xs[1])?, pat(&xs[2])?)),
                ("mv", 7) => Some(Rc::new(Pattern::MetaVar {
                    id: nat(&xs[1])?, e_fresh: natlist(&xs[2])?, s_fresh: natlist(&xs[3])?,
                    positive: natlist(&xs[4])?, negative: natlist(&xs[5])?, app_ctx_holes: natlist(&xs[6])? })),
                ("esub", 4) => Some(esubst(pat(&xs[1])?, nat(&xs[2])?, pat(&xs[3])?)),
                ("ssub", 4) => Some(ssubst(pat(&xs[1])?, nat(&xs[2])?, pat(&xs[3])?)),
                _ => None,
            }
        } else { None }
    }

    fn nats(v: &Vec<u8>) -> String {
        let parts: Vec<String> = v.iter().map(|x| x.to_string()).collect();
        format!("({})", parts.join(" "))
    }

    fn show(p: &Pattern) -> String {
        match p {
            Pattern::EVar(x) => format!("(evar {})", x),
            Pattern::SVar(x) => format!("(svar {})", x),
            Pattern::Symbol(x) => format!("(sym {})", x),
            Pattern::Implies { left, right } => format!("(imp {} {})", show(left), show(right)),
            Pattern::App { left, right } => format!("(app {} {})", show(left), show(right)),
            Pattern::Exists { var, subpattern } => format!("(ex {} {})", var, show(subpattern)),
            Pattern::Mu { var, subpattern } => format!("(mu {} {})", var, show(subpattern)),
            Pattern::MetaVar { id, e_fresh, s_fresh, positive, negative, app_ctx_holes } =>
                format!("(mv {} {} {} {} {} {})", id, nats(e_fresh), nats(s_fresh), nats(positive), nats(negative), nats(app_ctx_holes)),
            Pattern::ESubst { pattern, evar_id, plug } => format!("(esub {} {} {})", show(pattern), evar_id, show(plug)),
            Pattern::SSubst { pattern, svar_id, plug } => format!("(ssub {} {} {})", show(pattern), svar_id, show(plug)),
        }
    }

    fn show_state(stack: &Stack, memory: &Memory, claims: &Claims) -> String {
        let st: Vec<String> = stack.iter().map(|t| match t {
            Term::Pattern(p) => format!("(pattern {})", show(p)),
            Term::Proved(p) => format!("(proved {})", show(p)) }).collect();
        let mem: Vec<String> = memory.iter().map(|t| match t {
            Entry::Pattern(p) => format!("(pattern {})", show(p)),
            Entry::Proved(p) => format!("(proved {})", show(p)) }).collect();
        let cl: Vec<String> = claims.iter().map(|p| show(p)).collect();
        format!("(state (stack {}) (memory {}) (claims {}))", st.join(" "), mem.join(" "), cl.join(" "))
    }

    fn hex(s: &Sx) -> Option<Vec<u8>> {
        if let Sx::Atom(a) = s {
            if a == "-" { return Some(Vec::new()); }
            let cs: Vec<char> = a.chars().collect();
            if cs.len() % 2 != 0 { return None; }
            let mut out = Vec::new();
            for i in (0..cs.len()).step_by(2) {
                out.push((cs[i].to_digit(16)? * 16 + cs[i + 1].to_digit(16)?) as u8);
            }
            Some(out)
        } else { None }
    }

    fn optpat(r: std::thread::Result<Rc<Pattern>>) -> String {
        match r { Ok(p) => format!("(some {})", show(&p)), Err(_) => "none".to_string() }
    }

    fn handle(line: &str) -> String {
        let toks = tokenize(line);
        let mut pos = 0;
        let xs = match parse_seq(&toks, &mut pos) { Some(x) if pos == toks.len() => x, _ => return "bad-request".to_string() };
        if xs.is_empty() { return "bad-request".to_string(); }
        let cmd = if let Sx::Atom(a) = &xs[0] { a.clone() } else { return "bad-request".to_string() };
        let bad = || "bad-request".to_string();
        match (cmd.as_str(), xs.len()) {
            ("judge", 4) => {
                let k = if let Sx::Atom(a) = &xs[1] { a.clone() } else { return bad() };
                let (n, p) = match (nat(&xs[2]), pat(&xs[3])) { (Some(n), Some(p)) => (n, p), _ => return bad() };
                let r = catch_unwind(AssertUnwindSafe(|| match k.as_str() {
                    "efresh" => p.e_fresh(n), "sfresh" => p.s_fresh(n),
                    "pos" => p.positive(n), "neg" => p.negative(n), _ => panic!("kind") }));
                match r { Ok(b) => b.to_string(), Err(_) => "panic".to_string() }
            }
            ("esubst", 4) => {
                let (n, plug, p) = match (nat(&xs[1]), pat(&xs[2]), pat(&xs[3])) { (Some(a), Some(b), Some(c)) => (a, b, c), _ => return bad() };
                optpat(catch_unwind(AssertUnwindSafe(|| apply_esubst(&p, n, &plug))))
            }
            ("ssubst", 4) => {
                let (n, plug, p) = match (nat(&xs[1]), pat(&xs[2]), pat(&xs[3])) { (Some(a), Some(b), Some(c)) => (a, b, c), _ => return bad() };
                optpat(catch_unwind(AssertUnwindSafe(|| apply_ssubst(&p, n, &plug))))
            }
            ("inst", 4) => {
                let ids = match natlist(&xs[1]) { Some(v) => v, None => return bad() };
                let plugs: Vec<Rc<Pattern>> = if let Sx::List(ps) = &xs[2] {
                    match ps.iter().map(pat).collect::<Option<Vec<_>>>() { Some(v) => v, None => return bad() }
                } else { return bad() };
                let p = match pat(&xs[3]) { Some(p) => p, None => return bad() };
                if ids.len() != plugs.len() { return bad(); }
                optpat(catch_unwind(AssertUnwindSafe(|| {
                    let mut q = Rc::clone(&p);
                    instantiate_in_place(&mut q, &ids, &plugs);
                    q
                })))
            }
            ("verify", 4) => {
                let (g, c, p) = match (hex(&xs[1]), hex(&xs[2]), hex(&xs[3])) { (Some(a), Some(b), Some(c)) => (a, b, c), _ => return bad() };
                // the body of `verify` (lib.rs), with a state dump after each phase
                let r = catch_unwind(AssertUnwindSafe(|| {
                    let mut claims: Claims = Vec::new();
                    let mut memory: Memory = Vec::new();
                    let mut stack: Stack = Vec::new();
                    execute_instructions(&g, &mut stack, &mut memory, &mut claims, ExecutionPhase::Gamma);
                    let s1 = show_state(&stack, &memory, &claims);
                    stack.clear();
                    execute_instructions(&c, &mut stack, &mut memory, &mut claims, ExecutionPhase::Claim);
                    let s2 = show_state(&stack, &memory, &claims);
                    stack.clear();
                    execute_instructions(&p, &mut stack, &mut memory, &mut claims, ExecutionPhase::Proof);
                    let s3 = show_state(&stack, &memory, &claims);
                    let verdict = if claims.is_empty() { "ok" } else { "rej" };
                    format!("({} {} {} {})", verdict, s1, s2, s3)
                }));
                // and the real entry point, whose verdict must agree with the dump
                let r2 = catch_unwind(AssertUnwindSafe(|| verify(&g, &c, &p)));
                match (r, r2) {
                    (Ok(s), Ok(())) => if s.starts_with("(ok") { s } else { format!("(harness-mismatch {})", s) },
                    (Ok(s), Err(_)) => if s.starts_with("(rej") { s } else { format!("(harness-mismatch {})", s) },
                    (Err(_), Err(_)) => "(rej)".to_string(),
                    (Err(_), Ok(())) => "(harness-mismatch verify-accepts)".to_string(),
                }
            }
            _ => bad(),
        }
    }

    pub fn main_loop() {
        std::panic::set_hook(std::boxed::Box::new(|_| {}));
        let stdin = std::io::stdin();
        let stdout = std::io::stdout();
        let mut out = std::io::BufWriter::new(stdout.lock());
        for line in stdin.lock().lines() {
            let line = match line { Ok(l) => l, Err(_) => break };
            let ans = handle(&line);
            let _ = writeln!(out, "{}", ans);
        }
        let _ = out.flush();
    }
}

fn main() { verif_harness::main_loop(); }
