import Pi2.Sexp
import Pi2.Diag
import Pi2.Gen.Lemmas
import Pi2.Nary
import Pi2.MM.SliceVerify
/-!
# `pi2drv` — the Lean model behind the line protocol (one request per line, one answer per line)
-/
open Pat Sexp

def optPatStr : Option Pat → String
  | some p => s!"(some {patToStr p})"
  | none => "none"

def fuel : Nat := 4000

/-- `ktrace`: the whole pipeline: rules converted with one cached scope each, the initial configuration with a
fresh scope, substitutions with the rule's scope object (which they may extend), `rewrite_event` per step -/
def ktraceRun (sg : Sexp) (rules : List Sexp) (init : Sexp) (steps : List Sexp) : String :=
  let steps? : Option (List (Nat × List (Nat × Kore.KTerm))) := steps.mapM fun (st : Sexp) => match st with
    | .list [ord, .list kvs] => do
        let kvs ← kvs.mapM fun (kv : Sexp) => match kv with
          | .list [x, t] => do pure (← nat? x, ← ktermOfSexp t)
          | _ => none
        pure (← nat? ord, kvs)
    | _ => none
  match ksigOfSexp sg, rules.mapM ktermOfSexp, ktermOfSexp init, steps? with
  | some sg, some rules, some init, some steps =>
    (match rules.mapM (fun r => Kore.conv sg {} r), Kore.convertPattern sg init with
     | some conv, some init =>
       let rec go (scopes : List Kore.Scope) (st : Kore.ExecSt) (k : Nat) : List (Nat × List (Nat × Kore.KTerm)) → String
         | [] => "(ok (" ++ " ".intercalate ("axioms" :: st.axioms.map npatToStr) ++ ") (" ++
             " ".intercalate ("claims" :: st.claims.map npatToStr) ++ ") (curr " ++ npatToStr st.curr ++ "))"
         | (ord, kvs) :: rest =>
           match scopes[ord]?, conv[ord]? with
           | some sc, some (_, rule) =>
             (match Kore.convertSubst sg sc kvs [] with
              | none => s!"(raise subst {k})"
              | some (sc', σ) =>
                match Kore.rewriteEventF sg fuel st rule σ with
                | none => "fuel"
                | some none => s!"(raise step {k})"
                | some (some st') => go (scopes.set ord sc') st' (k + 1) rest)
           | _, _ => s!"(raise axiom {k})"
       go (conv.map (·.1)) (Kore.initSt init) 0 steps
     | _, _ => "(raise convert)")
  | _, _, _, _ => "bad-request"

def handle (line : String) : String :=
  match parseAll line with
  | none => "bad-request"
  | some [] => "bad-request"
  | some (.atom cmd :: args) =>
    match cmd, args with
    | "judge", [.atom k, n, p] =>
      match nat? n, patOfSexp p with
      | some n, some p =>
        match k with
        | "efresh" => toString (p.eFresh n)
        | "sfresh" => toString (p.sFresh n)
        | "pos" => toString (p.pos n)
        | "neg" => toString (p.ng n)
        | _ => "bad-request"
      | _, _ => "bad-request"
    | "esubst", [n, plug, p] =>
      match nat? n, patOfSexp plug, patOfSexp p with
      | some n, some plug, some p => optPatStr (applyESubst n plug p)
      | _, _, _ => "bad-request"
    | "ssubst", [n, plug, p] =>
      match nat? n, patOfSexp plug, patOfSexp p with
      | some n, some plug, some p => optPatStr (applySSubst n plug p)
      | _, _, _ => "bad-request"
    | "inst", [ids, .list plugs, p] =>
      match natList? ids, plugs.mapM patOfSexp, patOfSexp p with
      | some ids, some plugs, some p =>
        -- `instantiate_in_place`: the faithful model with the "unchanged" optimisation (`instU`)
        if ids.length != plugs.length then "bad-request" else optPatStr ((instU ids plugs p).map (·.getD p))
      | _, _, _ => "bad-request"
    | "verify", [.atom g, .atom c, .atom p] =>
      match bytesOfHex g, bytesOfHex c, bytesOfHex p with
      | some g, some c, some p =>
        match verifyStatesBytes g c p with
        | none => "(rej)"
        | some (s1, s2, s3, _, _) =>
          let verdict := if s3.claims.isEmpty then "ok" else "rej"
          s!"({verdict} {stToStr s1} {stToStr s2} {stToStr s3})"
      | _, _, _ => "bad-request"
    | "expand", [p] =>
      match npatOfSexp p with
      | some p => patToStr p.expand
      | none => "bad-request"
    | "nfree", [n, p] =>
      match nat? n, npatOfSexp p with
      | some n, some p => (match NPat.evarIsFreeF fuel n p with | some b => toString b | none => "fuel")
      | _, _ => "bad-request"
    | "ninst", [d, p] =>
      match nmapOfSexp d, npatOfSexp p with
      | some d, some p => (match NPat.instF fuel d p with | some r => npatToStr r | none => "fuel")
      | _, _ => "bad-request"
    | "nesubst", [n, plug, p] =>
      match nat? n, npatOfSexp plug, npatOfSexp p with
      | some n, some plug, some p => (match NPat.esubF fuel n plug p with | some r => npatToStr r | none => "fuel")
      | _, _, _ => "bad-request"
    | "nssubst", [n, plug, p] =>
      match nat? n, npatOfSexp plug, npatOfSexp p with
      | some n, some plug, some p => (match NPat.ssubF fuel n plug p with | some r => npatToStr r | none => "fuel")
      | _, _, _ => "bad-request"
    | "peq", [a, b] =>
      match npatOfSexp a, npatOfSexp b with
      | some a, some b => (match NPat.peqF fuel a b with | some r => toString r | none => "fuel")
      | _, _ => "bad-request"
    | "track-x", [.list (.atom "claims" :: cls), .list (.atom "calls" :: cs)] =>
      match cls.mapM npatOfSexp, cs.mapM callOfSexp with
      | some cls, some cs =>
        (match PySt.trackAll fuel (PySt.init cls) cs ([], [], []) with
         | none => "fuel" | some none => "(raise)"
         | some (some (s, _)) => s!"(ok {pystToStrX s})")
      | _, _ => "bad-request"
    | "track", [.list (.atom "claims" :: cls), .list (.atom "calls" :: cs)] =>
      match cls.mapM npatOfSexp, cs.mapM callOfSexp with
      | some cls, some cs =>
        -- run call by call so that the index of the first raising call and the state before it are reported
        let rec go (s : PySt) (out : List Instr × List Instr × List Instr) (i : Nat) : List Call → String
          | [] =>
            let (g, c, p) := out
            s!"(ok {pystToStr s} {hexOfBytes (encode g)} {hexOfBytes (encode c)} {hexOfBytes (encode p)})"
          | c :: rest =>
            match PySt.trackAll fuel s [c] out with
            | none => "fuel"
            | some none =>
              let (g, cl, p) := out
              s!"(raise {i} {pystToStr s} {hexOfBytes (encode g)} {hexOfBytes (encode cl)} {hexOfBytes (encode p)})"
            | some (some (s', out')) =>
              -- bytes([...]) raises ValueError on a value above 255
              let (g, cl, p) := out'
              if (encode g ++ encode cl ++ encode p).any (· > 255) then
                let (g0, c0, p0) := out
                s!"(raise {i} {pystToStr s} {hexOfBytes (encode g0)} {hexOfBytes (encode c0)} {hexOfBytes (encode p0)})"
              else go s' out' (i + 1) rest
        go (PySt.init cls) ([], [], []) 0 cs
      | _, _ => "bad-request"
    | "mstate", [.atom ph, .atom g, .atom c, .atom p] =>
      -- reference machine: run gamma, (claim), (proof) on the bytes emitted so far; state of phase `ph`
      match bytesOfHex g, bytesOfHex c, bytesOfHex p with
      | some g, some c, some p =>
        match decode g, decode c, decode p with
        | some gi, some ci, some pi =>
          (match Diag.runWhy .gamma ⟨[], [], []⟩ gi 0 with
           | .inr (k, w) => s!"(rej gamma {k} {w})"
           | .inl s1 =>
             if ph == "gamma" then stToStr s1 else
             match Diag.runWhy .claim { s1 with stack := [] } ci 0 with
             | .inr (k, w) => s!"(rej claim {k} {w})"
             | .inl s2 =>
               if ph == "claim" then stToStr s2 else
               match Diag.runWhy .proof { s2 with stack := [] } pi 0 with
               | .inr (k, w) => s!"(rej proof {k} {w})"
               | .inl s3 => stToStr s3)
        | _, _, _ => "(rej decode)"
      | _, _, _ => "bad-request"
    | "deser-x", [.list (.atom "claims" :: cls), .atom g, .atom c, .atom p] =>
      match cls.mapM npatOfSexp, bytesOfHex g, bytesOfHex c, bytesOfHex p with
      | some cls, some g, some c, some p =>
        (match PySt.deserialize fuel (PySt.init cls) g with
         | some (some s1) =>
           match PySt.track1 fuel s1 .intoClaim with
           | some (some s1') =>
             (match PySt.deserialize fuel s1' c with
              | some (some s2) =>
                match PySt.track1 fuel s2 .intoProof with
                | some (some s2') =>
                  (match PySt.deserialize fuel s2' p with
                   | some (some s3) => s!"(ok {pystToStrX s3})"
                   | _ => "(raise)")
                | _ => "(raise)"
              | _ => "(raise)")
           | _ => "(raise)"
         | _ => "(raise)")
      | _, _, _, _ => "bad-request"
    | "deser", [.list (.atom "claims" :: cls), .atom g, .atom c, .atom p] =>
      match cls.mapM npatOfSexp, bytesOfHex g, bytesOfHex c, bytesOfHex p with
      | some cls, some g, some c, some p =>
        (match PySt.deserialize fuel (PySt.init cls) g with
         | none => "fuel" | some none => "(raise gamma)"
         | some (some s1) =>
           match PySt.track1 fuel s1 .intoClaim with
           | some (some s1') =>
             (match PySt.deserialize fuel s1' c with
              | none => "fuel" | some none => "(raise claim)"
              | some (some s2) =>
                match PySt.track1 fuel s2 .intoProof with
                | some (some s2') =>
                  (match PySt.deserialize fuel s2' p with
                   | none => "fuel" | some none => "(raise proof)"
                   | some (some s3) => s!"(ok {pystToStr s3})")
                | _ => "(raise claim)")
           | _ => "(raise gamma)")
      | _, _, _, _ => "bad-request"
    | "module", [md, .list (.atom "memo" :: memo)] =>
      -- serialise a proof module: memo = (memo) for optimize=False, (memo yes p1 p2 ...) for optimize=True
      match moduleOfSexp md with
      | some md =>
        let cfg? : Option PySt.Cfg := match memo with
          | [] => some {}
          | .atom "yes" :: ps => (ps.mapM npatOfSexp).map fun S => { memo := some S }
          | _ => none
        (match cfg? with
         | none => "bad-request"
         | some cfg =>
           match PModule.executeFull cfg fuel md with
           | none => "fuel"
           | some none => "(raise)"
           | some (some (_, calls)) =>
             match PySt.trackAll fuel (PySt.init md.claimsOf) calls ([], [], []) with
             | some (some (_, (g, c, p))) =>
               if (encode g ++ encode c ++ encode p).any (· > 255) then "(raise)"
               else s!"(ok {hexOfBytes (encode g)} {hexOfBytes (encode c)} {hexOfBytes (encode p)})"
             | _ => "(raise)")
      | none => "bad-request"
    | "pf-conc", [.list (.atom "axioms" :: ax), pf] =>
      match ax.mapM npatOfSexp, pfOfSexp pf with
      | some ax, some pf =>
        (match Pf.concF ax fuel pf with
         | none => "fuel" | some none => "(raise)" | some (some c) => patToStr c.expand)
      | _, _ => "bad-request"
    | "pf-basic", [.list (.atom "axioms" :: ax), pf] =>
      match ax.mapM npatOfSexp, pfOfSexp pf with
      | some ax, some pf =>
        (match Pf.runBasicF ax fuel pf with
         | none => "fuel" | some none => "(raise)" | some (some c) => patToStr c.expand)
      | _, _ => "bad-request"
    | "journal", [.atom g, .atom c, .atom p] =>
      -- the publish journal of the reference machine: axioms published in gamma, claims published, verdict
      match bytesOfHex g, bytesOfHex c, bytesOfHex p with
      | some g, some c, some p =>
        match decode g, decode c, decode p with
        | some gi, some ci, some pi =>
          (match Diag.runWhy .gamma ⟨[], [], []⟩ gi 0 with
           | .inr (k, w) => s!"(rej gamma {k} {w})"
           | .inl s1 =>
             match Diag.runWhy .claim { s1 with stack := [] } ci 0 with
             | .inr (k, w) => s!"(rej claim {k} {w})"
             | .inl s2 =>
               let axs := (run .gamma ⟨[], [], []⟩ gi).map (·.2) |>.getD []
               let cls := (run .claim { s1 with stack := [] } ci).map (·.2) |>.getD []
               let verdict := match Diag.runWhy .proof { s2 with stack := [] } pi 0 with
                 | .inr (k, w) => s!"(rej proof {k} {w})"
                 | .inl s3 => if s3.claims.isEmpty then "(accepted)" else "(rej proof end claimsLeft)"
               "(journal (axioms " ++ " ".intercalate (axs.map patToStr) ++ ") (claims " ++
                 " ".intercalate (cls.map patToStr) ++ ") " ++ verdict ++ ")")
        | _, _, _ => "(rej decode)"
      | _, _, _ => "bad-request"
    | "mmproof", [.list (.atom "floats" :: fl), .list (.atom "vars" :: vs), .atom hex] =>
      let atoms (xs : List Sexp) : Option (List String) := xs.mapM fun x => match x with | .atom a => some a | _ => none
      match atoms fl, atoms vs, bytesOfHex hex with
      | some fl, some vs, some bs =>
        let str := String.ofList (bs.map Char.ofNat)
        let toks := (str.splitOn " ").filter (· ≠ "")
        (match MM.importProof fl vs toks with
         | none => "(raise)"
         | some (labels, steps) =>
           "(proof (labels " ++ " ".intercalate labels ++ ") (steps " ++ " ".intercalate (steps.map toString) ++ "))")
      | _, _, _ => "bad-request"
    | "lemma-conc", [idx, .list ps, .list cs] =>
      -- the conclusion a library method advertises, computed by the translated body on conclusions
      match nat? idx, ps.mapM patOfSexp, cs.mapM patOfSexp with
      | some i, some ps, some cs =>
        (match (Lem.sem Lem.algC Gen.lemmaDefs)[i]? with
         | none => "bad-request"
         | some f => match f ps cs with
           | none => "(raise)"
           | some c => patToStr c)
      | _, _, _ => "bad-request"
    | "lemma-table", [] =>
      "(" ++ " ".intercalate (Gen.lemmaDefs.map fun d => s!"({d.name} {d.nP} {d.nT})") ++ ")"
    | "kconv", [sg, t] =>
      match ksigOfSexp sg, ktermOfSexp t with
      | some sg, some t =>
        (match Kore.conv sg {} t with
         | none => "(raise)"
         | some (sc, p) => s!"(ok {npatToStr p} (scope {natsToStr sc.mvs} {natsToStr sc.sortParams}))")
      | _, _ => "bad-request"
    | "ktrace", [sg, .list (.atom "rules" :: rules), init, .list (.atom "steps" :: steps)] =>
      ktraceRun sg rules init steps
    | "mmparse", [toks] =>
      match strsOfSexp toks with
      | some toks => (match MM.parseDb toks with | some db => mdbToStr db | none => "(raise)")
      | none => "bad-request"
    | "mmprint", [db] =>
      match mdbOfSexp db with
      | some db => strsToStr (MM.printDb db)
      | none => "bad-request"
    | "mmslice", [db, .list (.atom "deps" :: deps), incl, excl] =>
      let deps? := deps.mapM fun d => match d with
        | .list [k, v] => do pure (← strOfHexAtom k, ← strsOfSexp v)
        | _ => none
      match mdbOfSexp db, deps?, strsOfSexp incl, strsOfSexp excl with
      | some db, some deps, some incl, some excl =>
        (match MM.sliceDatabase db deps incl excl with
         | none => "(raise)"
         | some out => "(slices " ++ " ".intercalate (out.map fun (l, d) => s!"({hexAtomOfStr l} {mdbToStr d})") ++ ")")
      | _, _, _, _ => "bad-request"
    | "mmcheck", [db, label] =>
      -- the reference Metamath verifier (Pi2/MM/Verify.lean): does the `$p` labelled `label` verify in `db`?
      match mdbOfSexp db, strOfHexAtom label with
      | some db, some l => toString (MM.verifyLemma db l)
      | _, _ => "bad-request"
    | "mmwf", [db] =>
      -- the hypotheses of `slice_verifies` (`WellFormedDb`) as a program
      match mdbOfSexp db with
      | some db => toString (MM.wellFormedDbB db)
      | none => "bad-request"
    | "mmcheckdb", [db] =>
      match mdbOfSexp db with
      | some db => toString (MM.verifyDb db)
      | none => "bad-request"
    | "mmverify", [db, goal, .list ls, steps] =>
      match mmDbOfSexp db, mmTermOfSexp goal, ls.mapM mmLblOfSexp, natList? steps with
      | some db, some goal, some ls, some steps => s!"(verify {MM.mmVerify db goal ls steps} wf {db.wf})"
      | _, _, _, _ => "bad-request"
    | "mmxlate", [.list (.atom "memo" :: memo), db, goal, .list ls, steps] =>
      match mmDbOfSexp db, mmTermOfSexp goal, ls.mapM mmLblOfSexp, natList? steps with
      | some db, some goal, some ls, some steps =>
        let cfg? : Option PySt.Cfg := match memo with
          | [] => some {}
          | .atom "yes" :: ps => (ps.mapM npatOfSexp).map fun S => { memo := some S }
          | _ => none
        (match cfg? with
         | none => "bad-request"
         | some cfg =>
           match MM.translateFull cfg fuel db goal ls steps with
           | none => "fuel"
           | some none => "(raise)"
           | some (some (_, calls)) =>
             match PySt.trackAll fuel (PySt.init [MM.image db goal]) calls ([], [], []) with
             | some (some (_, (g, c, p))) =>
               if (encode g ++ encode c ++ encode p).any (· > 255) then "(raise)"
               else s!"(ok {hexOfBytes (encode g)} {hexOfBytes (encode c)} {hexOfBytes (encode p)})"
             | _ => "(raise)")
      | _, _, _, _ => "bad-request"
    | "taut-cf", [f] =>
      match formOfSexp f with
      | some f => cfToStr (CF.ofForm f)
      | none => "bad-request"
    | "taut-propag", [c] =>
      match cfOfSexp c with
      | some c => (match CF.propagNeg c with | some r => cfToStr r | none => "(raise)")
      | none => "bad-request"
    | "taut-cnf", [c] =>
      match cfOfSexp c with
      | some c => (match CF.toCnfF 100000 c with | some r => cfToStr r | none => "(raise)")
      | none => "bad-request"
    | "taut-clauses", [c] =>
      match cfOfSexp c with
      | some c => (match CF.toClauses c with | some r => clausesToStr r | none => "(raise)")
      | none => "bad-request"
    | "taut-resolve", [cs] =>
      match clausesOfSexp cs with
      | some cs => (match Res.start 10000000 cs with
          | none => "fuel" | some none => "none" | some (some b) => toString b)
      | none => "bad-request"
    | "taut-prove", [f] =>
      match formOfSexp f with
      | some f => (match proveTautology 10000000 f with
          | none => "(raise)" | some none => "none" | some (some b) => toString b)
      | none => "bad-request"
    | "rule-mp", [a, b] =>
      match npatOfSexp a, npatOfSexp b with
      | some a, some b => (match NPat.pyMP fuel a b with
          | none => "fuel" | some none => "(raise AssertionError)" | some (some r) => npatToStr r)
      | _, _ => "bad-request"
    | "rule-gen", [a, x] =>
      match npatOfSexp a, nat? x with
      | some a, some x => (match NPat.pyGen fuel a x with
          | none => "fuel" | some none => "(raise AssertionError)" | some (some r) => npatToStr r)
      | _, _ => "bad-request"
    | "rule-inst", [a, d] =>
      match npatOfSexp a, nmapOfSexp d with
      | some a, some d => (match NPat.pyInst fuel a d with | none => "fuel" | some r => npatToStr r)
      | _, _ => "bad-request"
    | "pretty", [p] =>
      match ppOfSexp p with
      | some p => (match p.pretty with | some s => "s:" ++ s | none => "(raise ValueError)")
      | none => "bad-request"
    | "match", [p, i, s] =>
      match npatOfSexp p, npatOfSexp i, nmapOfSexp s with
      | some p, some i, some s =>
        (match NPat.matchF fuel p i s with
         | none => "fuel" | some none => "none" | some (some r) => s!"(some {substToStr r})")
      | _, _, _ => "bad-request"
    | "matchlist", [.list eqs] =>
      match eqs.mapM (fun e => match e with
          | .list [p, i] => do pure ((← npatOfSexp p), (← npatOfSexp i))
          | _ => none) with
      | some eqs =>
        (match NPat.matchListF fuel eqs [] with
         | none => "fuel" | some none => "none" | some (some r) => s!"(some {substToStr r})")
      | none => "bad-request"
    | "nary", [p] =>
      match npatOfSexp p with
      | some p =>
        (match NPat.naryF fuel p with
         | none => "fuel"
         | some (h, as) => "(some " ++ npatToStr h ++ " (" ++ " ".intercalate (as.map npatToStr) ++ "))")
      | none => "bad-request"
    | "nmatches", [d, a, p] =>
      match npatOfSexp d, nat? a, npatOfSexp p with
      | some d, some a, some p =>
        (match NPat.notationMatchesF fuel d a p with
         | none => "fuel" | some none => "none"
         | some (some r) => "(some (" ++ " ".intercalate (r.map npatToStr) ++ "))")
      | _, _, _ => "bad-request"
    | "nmetavars", [p] =>
      match npatOfSexp p with
      | some p => (match NPat.metavarsF fuel p with
          | some l => natsToStr (l.eraseDups.toArray.qsort (· < ·)).toList
          | none => "fuel")
      | none => "bad-request"
    | _, _ => "bad-request"
  | _ => "bad-request"

partial def loop (h : IO.FS.Stream) (out : IO.FS.Stream) : IO Unit := do
  let line ← h.getLine
  if line.isEmpty then return ()
  out.putStrLn (handle line)
  loop h out

def main : IO Unit := do
  let stdin ← IO.getStdin
  let stdout ← IO.getStdout
  loop stdin stdout
  stdout.flush
