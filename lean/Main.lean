import Pi2.Sexp
/-!
# `pi2drv` — the Lean model behind the line protocol (one request per line, one answer per line)
-/
open Pat Sexp

def optPatStr : Option Pat → String
  | some p => s!"(some {patToStr p})"
  | none => "none"

def handle (line : String) : String :=
  match parseAll line with
  | none => "bad-request"
  | some [] => "bad-request"
  | some (.atom cmd :: args) =>
    match cmd, args with
    | "judge", [.atom k, n, p] =>
      match nat? n, patOfSexp p with
      | some n, some p =>
        match k with
        | "efresh" => toString (p.eFresh n)
        | "sfresh" => toString (p.sFresh n)
        | "pos" => toString (p.pos n)
        | "neg" => toString (p.ng n)
        | _ => "bad-request"
      | _, _ => "bad-request"
    | "esubst", [n, plug, p] =>
      match nat? n, patOfSexp plug, patOfSexp p with
      | some n, some plug, some p => optPatStr (applyESubst n plug p)
      | _, _, _ => "bad-request"
    | "ssubst", [n, plug, p] =>
      match nat? n, patOfSexp plug, patOfSexp p with
      | some n, some plug, some p => optPatStr (applySSubst n plug p)
      | _, _, _ => "bad-request"
    | "inst", [ids, .list plugs, p] =>
      match natList? ids, plugs.mapM patOfSexp, patOfSexp p with
      | some ids, some plugs, some p =>
        if ids.length != plugs.length then "bad-request" else optPatStr (inst (lookupPlug ids plugs) p)
      | _, _, _ => "bad-request"
    | "verify", [.atom g, .atom c, .atom p] =>
      match bytesOfHex g, bytesOfHex c, bytesOfHex p with
      | some g, some c, some p =>
        match verifyStatesBytes g c p with
        | none => "(rej)"
        | some (s1, s2, s3, _, _) =>
          let verdict := if s3.claims.isEmpty then "ok" else "rej"
          s!"({verdict} {stToStr s1} {stToStr s2} {stToStr s3})"
      | _, _, _ => "bad-request"
    | _, _ => "bad-request"
  | _ => "bad-request"

partial def loop (h : IO.FS.Stream) (out : IO.FS.Stream) : IO Unit := do
  let line ← h.getLine
  if line.isEmpty then return ()
  out.putStrLn (handle line)
  loop h out

def main : IO Unit := do
  let stdin ← IO.getStdin
  let stdout ← IO.getStdout
  loop stdin stdout
  stdout.flush
