import Pi2.Sexp
/-!
# `pi2drv` — the Lean model behind the line protocol (one request per line, one answer per line)
-/
open Pat Sexp

def optPatStr : Option Pat → String
  | some p => s!"(some {patToStr p})"
  | none => "none"

def fuel : Nat := 4000

def handle (line : String) : String :=
  match parseAll line with
  | none => "bad-request"
  | some [] => "bad-request"
  | some (.atom cmd :: args) =>
    match cmd, args with
    | "judge", [.atom k, n, p] =>
      match nat? n, patOfSexp p with
      | some n, some p =>
        match k with
        | "efresh" => toString (p.eFresh n)
        | "sfresh" => toString (p.sFresh n)
        | "pos" => toString (p.pos n)
        | "neg" => toString (p.ng n)
        | _ => "bad-request"
      | _, _ => "bad-request"
    | "esubst", [n, plug, p] =>
      match nat? n, patOfSexp plug, patOfSexp p with
      | some n, some plug, some p => optPatStr (applyESubst n plug p)
      | _, _, _ => "bad-request"
    | "ssubst", [n, plug, p] =>
      match nat? n, patOfSexp plug, patOfSexp p with
      | some n, some plug, some p => optPatStr (applySSubst n plug p)
      | _, _, _ => "bad-request"
    | "inst", [ids, .list plugs, p] =>
      match natList? ids, plugs.mapM patOfSexp, patOfSexp p with
      | some ids, some plugs, some p =>
        if ids.length != plugs.length then "bad-request" else optPatStr (inst (lookupPlug ids plugs) p)
      | _, _, _ => "bad-request"
    | "verify", [.atom g, .atom c, .atom p] =>
      match bytesOfHex g, bytesOfHex c, bytesOfHex p with
      | some g, some c, some p =>
        match verifyStatesBytes g c p with
        | none => "(rej)"
        | some (s1, s2, s3, _, _) =>
          let verdict := if s3.claims.isEmpty then "ok" else "rej"
          s!"({verdict} {stToStr s1} {stToStr s2} {stToStr s3})"
      | _, _, _ => "bad-request"
    | "expand", [p] =>
      match npatOfSexp p with
      | some p => patToStr p.expand
      | none => "bad-request"
    | "nfree", [n, p] =>
      match nat? n, npatOfSexp p with
      | some n, some p => (match NPat.evarIsFreeF fuel n p with | some b => toString b | none => "fuel")
      | _, _ => "bad-request"
    | "ninst", [d, p] =>
      match nmapOfSexp d, npatOfSexp p with
      | some d, some p => (match NPat.instF fuel d p with | some r => npatToStr r | none => "fuel")
      | _, _ => "bad-request"
    | "nesubst", [n, plug, p] =>
      match nat? n, npatOfSexp plug, npatOfSexp p with
      | some n, some plug, some p => (match NPat.esubF fuel n plug p with | some r => npatToStr r | none => "fuel")
      | _, _, _ => "bad-request"
    | "nssubst", [n, plug, p] =>
      match nat? n, npatOfSexp plug, npatOfSexp p with
      | some n, some plug, some p => (match NPat.ssubF fuel n plug p with | some r => npatToStr r | none => "fuel")
      | _, _, _ => "bad-request"
    | "peq", [a, b] =>
      match npatOfSexp a, npatOfSexp b with
      | some a, some b => (match NPat.peqF fuel a b with | some r => toString r | none => "fuel")
      | _, _ => "bad-request"
    | "rule-mp", [a, b] =>
      match npatOfSexp a, npatOfSexp b with
      | some a, some b => (match NPat.pyMP fuel a b with
          | none => "fuel" | some none => "(raise AssertionError)" | some (some r) => npatToStr r)
      | _, _ => "bad-request"
    | "rule-gen", [a, x] =>
      match npatOfSexp a, nat? x with
      | some a, some x => (match NPat.pyGen fuel a x with
          | none => "fuel" | some none => "(raise AssertionError)" | some (some r) => npatToStr r)
      | _, _ => "bad-request"
    | "rule-inst", [a, d] =>
      match npatOfSexp a, nmapOfSexp d with
      | some a, some d => (match NPat.pyInst fuel a d with | none => "fuel" | some r => npatToStr r)
      | _, _ => "bad-request"
    | "pretty", [p] =>
      match ppOfSexp p with
      | some p => (match p.pretty with | some s => "s:" ++ s | none => "(raise ValueError)")
      | none => "bad-request"
    | "match", [p, i, s] =>
      match npatOfSexp p, npatOfSexp i, nmapOfSexp s with
      | some p, some i, some s =>
        (match NPat.matchF fuel p i s with
         | none => "fuel" | some none => "none" | some (some r) => s!"(some {substToStr r})")
      | _, _, _ => "bad-request"
    | "matchlist", [.list eqs] =>
      match eqs.mapM (fun e => match e with
          | .list [p, i] => do pure ((← npatOfSexp p), (← npatOfSexp i))
          | _ => none) with
      | some eqs =>
        (match NPat.matchListF fuel eqs [] with
         | none => "fuel" | some none => "none" | some (some r) => s!"(some {substToStr r})")
      | none => "bad-request"
    | "nmatches", [d, a, p] =>
      match npatOfSexp d, nat? a, npatOfSexp p with
      | some d, some a, some p =>
        (match NPat.notationMatchesF fuel d a p with
         | none => "fuel" | some none => "none"
         | some (some r) => "(some (" ++ " ".intercalate (r.map npatToStr) ++ "))")
      | _, _, _ => "bad-request"
    | "nmetavars", [p] =>
      match npatOfSexp p with
      | some p => (match NPat.metavarsF fuel p with
          | some l => natsToStr (l.eraseDups.toArray.qsort (· < ·)).toList
          | none => "fuel")
      | none => "bad-request"
    | _, _ => "bad-request"
  | _ => "bad-request"

partial def loop (h : IO.FS.Stream) (out : IO.FS.Stream) : IO Unit := do
  let line ← h.getLine
  if line.isEmpty then return ()
  out.putStrLn (handle line)
  loop h out

def main : IO Unit := do
  let stdin ← IO.getStdin
  let stdout ← IO.getStdout
  loop stdin stdout
  stdout.flush
