import Pi2.Sexp
import Pi2.PrettyTie
import Pi2.MM.AstEmbed
/-!
# `pi2gen` — a second driver, for requests that evaluate GENERATED code (`Pi2/Gen/*`, regenerated from /repo on every run)

Kept apart from `pi2drv` on purpose: `pi2drv` must build from the hand-written model alone (plus the generated TABLES), so
that a change of the sources that breaks a translated module or its tie proof cannot take the model driver down with it.
When this driver does not build, the checks that use it report the broken tie and go on without it.
-/
open Pat Sexp

def fuel : Nat := 4000

/-- the symbol names of a `PP` term, in order of first occurrence -/
def ppSyms : PP → List String → List String
  | .sym s, acc => if acc.contains s then acc else acc ++ [s]
  | .imp l r, acc => ppSyms r (ppSyms l acc)
  | .app l r, acc => ppSyms r (ppSyms l acc)
  | .ex _ p, acc => ppSyms p acc
  | .mu _ p, acc => ppSyms p acc
  | .esub p _ q, acc => ppSyms q (ppSyms p acc)
  | .ssub p _ q, acc => ppSyms q (ppSyms p acc)
  | .napp _ args, acc => go args acc
  | _, acc => acc
where
  go : List PP → List String → List String
    | [], acc => acc
    | a :: r, acc => go r (ppSyms a acc)

/-- `pretty-gen MODE SYMTAB p`: the *translated* `Pattern.pretty` (`Gen.PyPretty.pretty`) on the object `p` stands for;
MODE = table | empty (`PrettyOptions()`: the fallback branch) | simplify | simplify-empty; SYMTAB = the names of the
symbols that occur in the definitions of the notation table (`(number name) …`, as numbered by the table dump); the
other names of `p` get numbers from 5000 -/
def prettyGen (mode : String) (symtab : List (Nat × String)) (p : PP) : String :=
  let names := ppSyms p []
  let code : String → Nat := fun s =>
    match symtab.find? (·.2 == s) with
    | some (k, _) => k
    | none => 5000 + (names.idxOf? s).getD names.length
  let σ : Nat → String := fun i =>
    match symtab.find? (·.1 == i) with
    | some (_, nm) => nm
    | none => names.getD (i - 5000) ""
  let opts? : Option PyP.PrettyOptions := match mode with
    | "table" => some PrettyTie.tableOpts
    | "empty" => some Gen.PyPretty.PrettyOptions_default
    | "simplify" => some { PrettyTie.tableOpts with simplify_instantiations := true }
    | "simplify-empty" => some { Gen.PyPretty.PrettyOptions_default with simplify_instantiations := true }
    | _ => none
  match opts?, PrettyTie.obj code p with
  | some opts, some q =>
    (match Gen.PyPretty.pretty σ fuel q opts with
     | none => "fuel" | some none => "(raise ValueError)" | some (some s) => "s:" ++ s)
  | _, _ => "bad-request"

def handle (line : String) : String :=
  match parseAll line with
  | none => "bad-request"
  | some [] => "bad-request"
  | some (.atom cmd :: args) =>
    match cmd, args with
    | "pretty-gen", [.atom mode, .list tab, p] =>
      let tab? : Option (List (Nat × String)) := tab.mapM fun (kv : Sexp) => match kv with
        | .list [k, .atom nm] => do pure (← nat? k, nm)
        | _ => none
      match tab?, ppOfSexp p with
      | some tab, some p => prettyGen mode tab p
      | _, _ => "bad-request"
    | "mmtext", [db] =>
      -- the translated Encoder (Pi2/Gen/MMAst.lean) through the Printer model (Pi2/MMAstSupport.lean): the TEXT, as a hex atom
      match mdbOfSexp db with
      | some db => (match AstTie.textOf db with | some t => hexAtomOfStr t | none => "(raise)")
      | none => "bad-request"
    | _, _ => "bad-request"
  | _ => "bad-request"

partial def loop (h : IO.FS.Stream) (out : IO.FS.Stream) : IO Unit := do
  let line ← h.getLine
  if line.isEmpty then return ()
  out.putStrLn (handle line)
  loop h out

def main : IO Unit := do
  let stdin ← IO.getStdin
  let stdout ← IO.getStdout
  loop stdin stdout
  stdout.flush
