import Pi2.Sexp
import Pi2.PrettyTie
import Pi2.MM.AstEmbed
import Pi2.MM.ConvSpec
import Pi2.Gen.MMConv
import Pi2.MM.ConvCompose
import Pi2.MM.ConvShape
import Pi2.KDefTie
import Pi2.KoreModule
/-!
# `pi2gen` — a second driver, for requests that evaluate GENERATED code (`Pi2/Gen/*`, regenerated from /repo on every run)

Kept apart from `pi2drv` on purpose: `pi2drv` must build from the hand-written model alone (plus the generated TABLES), so
that a change of the sources that breaks a translated module or its tie proof cannot take the model driver down with it.
When this driver does not build, the checks that use it report the broken tie and go on without it.
-/
open Pat Sexp

def fuel : Nat := 4000

/-- the symbol names of a `PP` term, in order of first occurrence -/
def ppSyms : PP → List String → List String
  | .sym s, acc => if acc.contains s then acc else acc ++ [s]
  | .imp l r, acc => ppSyms r (ppSyms l acc)
  | .app l r, acc => ppSyms r (ppSyms l acc)
  | .ex _ p, acc => ppSyms p acc
  | .mu _ p, acc => ppSyms p acc
  | .esub p _ q, acc => ppSyms q (ppSyms p acc)
  | .ssub p _ q, acc => ppSyms q (ppSyms p acc)
  | .napp _ args, acc => go args acc
  | _, acc => acc
where
  go : List PP → List String → List String
    | [], acc => acc
    | a :: r, acc => go r (ppSyms a acc)

/-- `pretty-gen MODE SYMTAB p`: the *translated* `Pattern.pretty` (`Gen.PyPretty.pretty`) on the object `p` stands for;
MODE = table | empty (`PrettyOptions()`: the fallback branch) | simplify | simplify-empty; SYMTAB = the names of the
symbols that occur in the definitions of the notation table (`(number name) …`, as numbered by the table dump); the
other names of `p` get numbers from 5000 -/
def prettyGen (mode : String) (symtab : List (Nat × String)) (p : PP) : String :=
  let names := ppSyms p []
  let code : String → Nat := fun s =>
    match symtab.find? (·.2 == s) with
    | some (k, _) => k
    | none => 5000 + (names.idxOf? s).getD names.length
  let σ : Nat → String := fun i =>
    match symtab.find? (·.1 == i) with
    | some (_, nm) => nm
    | none => names.getD (i - 5000) ""
  let opts? : Option PyP.PrettyOptions := match mode with
    | "table" => some PrettyTie.tableOpts
    | "empty" => some Gen.PyPretty.PrettyOptions_default
    | "simplify" => some { PrettyTie.tableOpts with simplify_instantiations := true }
    | "simplify-empty" => some { Gen.PyPretty.PrettyOptions_default with simplify_instantiations := true }
    | _ => none
  match opts?, PrettyTie.obj code p with
  | some opts, some q =>
    (match Gen.PyPretty.pretty σ fuel q opts with
     | none => "fuel" | some none => "(raise ValueError)" | some (some s) => "s:" ++ s)
  | _, _ => "bad-request"

/-! ## `mmdb` / `mmconv`: the specification `dbOfMDb` and the generated converter on a parsed database -/
partial def mmTermToStr : MM.Term → String
  | .var v => s!"(v {v})"
  | .imp a b => s!"(imp {mmTermToStr a} {mmTermToStr b})"
  | .app a b => s!"(app {mmTermToStr a} {mmTermToStr b})"
  | .con c xs => "(" ++ " ".intercalate (s!"con {c}" :: xs.map mmTermToStr) ++ ")"

def mmLblToStr : MM.Lbl → String
  | .float v => s!"(f {v})" | .impC => "imp" | .appC => "app" | .ctor i => s!"(ctor {i})" | .rule i => s!"(rule {i})"
  | .p1 => "p1" | .p2 => "p2" | .mp => "mp"

def mmDbToStr (db : MM.DB) : String :=
  let ctors := " ".intercalate (db.ctors.map fun c =>
    match c.body with
    | none => s!"({c.sym} {natsToStr c.args})"
    | some b => s!"({c.sym} {natsToStr c.args} (body {mmTermToStr b}))")
  let rules := " ".intercalate (db.rules.map fun r => s!"(({" ".intercalate (r.hyps.map mmTermToStr)}) {mmTermToStr r.concl})")
  s!"(db {natsToStr db.floats} (imp {db.impArgs.1} {db.impArgs.2}) (app {db.appArgs.1} {db.appArgs.2}) (ctors {ctors}) (rules {rules}) (p1 {db.p1.1} {db.p1.2}) (p2 {db.p2.1} {db.p2.2.1} {db.p2.2.2}) (mp {db.mp.1} {db.mp.2}))"

def resTag {α} : ConvSup.Res α → String
  | .ok _ => "ok" | .raise => "(raise)" | .outside => "(outside)" | .nofuel => "(nofuel)"

/-- the answers of the generated converter to the queries of `translate.py`, in a fixed order -/
def mmconvRun (mdb : MM.MDb) (target : String) : String :=
  let nm := MM.ConvSpec.namesOf mdb
  let σ : String → Nat := fun s => nm.consts.idxOf s
  match Gen.MMConv.MetamathConverter_init σ fuel default mdb with
  | .ok c =>
    let strs (xs : List String) := strsToStr xs
    let ax (l : String) : String :=
      match Gen.MMConv.get_axiom_by_name σ fuel c l, Gen.MMConv.get_metavars_in_order σ fuel c l with
      | .ok a, .ok mio =>
        let ants := match a.antecedents? with | some l => "(some " ++ " ".intercalate (l.map npatToStr) ++ ")" | none => "none"
        s!"({hexAtomOfStr l} {npatToStr a.pattern} {strs (ConvSup.sortedStrs a.metavars)} {ants} {strs mio})"
      | _, _ => s!"({hexAtomOfStr l} raise)"
    let fps := c._fp_label_to_pattern.map fun (l, ps) => s!"({hexAtomOfStr l} {" ".intercalate (ps.map npatToStr)})"
    let mvs := c._floating_patterns.map fun v =>
      match Gen.MMConv.resolve_metavar σ fuel c v with | .ok p => s!"({hexAtomOfStr v} {npatToStr p})" | _ => s!"({hexAtomOfStr v} raise)"
    let lem := match Gen.MMConv.get_lemma_by_name σ fuel c target with
      | .ok a => (match a.proof? with
          | some pf => s!"(lemma {npatToStr a.pattern} {strs (pf.labels.map fun (p : Nat × List Char) => String.ofList p.2)} {natsToStr (pf.labels.map fun (p : Nat × List Char) => p.1)} {natsToStr pf.applied_lemmas})"
          | none => "(lemma noproof)")
      | _ => "(lemma raise)"
    s!"(ok (pcs {strs (ConvSup.sortedStrs (Gen.MMConv.pattern_constructors σ fuel c))}) (prs {strs (ConvSup.sortedStrs (Gen.MMConv.proof_rules σ fuel c))}) (exported {strs (Gen.MMConv.exported_axioms σ fuel c)}) (axioms {" ".intercalate ((Gen.MMConv.axioms σ fuel c).map ax)}) (fps {" ".intercalate fps}) (mvs {" ".intercalate mvs}) (lemmas {strs (Gen.MMConv.lemmas σ fuel c)}) {lem} (consts {strs nm.consts}))"
  | r => resTag r

/-! ## `kdef` / `khints`: the specification `sigOfDefinition` / `traceStepsR` and the generated builder on a Kore definition -/
open PyK in
def ksentOfSexp : Sexp → Option KSentence
  | .list [.atom "import", n] => do pure (.«import» (← nat? n))
  | .list [.atom "sort", n, .atom hk] => do pure (.sortDecl (← nat? n) (hk == "1"))
  | .list [.atom "symbol", n, .list (.atom "vars" :: vs), .list (.atom "params" :: ps), srt, .list (.atom "attrs" :: as)] => do
      pure (.symbolDecl (← nat? n) (← vs.mapM ksortOfSexp) (← ps.mapM ksortOfSexp) (← ksortOfSexp srt) (← as.mapM ktermOfSexp))
  | .list [.atom "axiom", t] => do pure (.«axiom» (← ktermOfSexp t))
  | .list [.atom "other"] => some .other
  | _ => none

open PyK in
def kdefOfSexp : Sexp → Option KDefinition
  | .list (.atom "def" :: ms) => do
      let ms ← ms.mapM fun (m : Sexp) => match m with
        | .list (.atom "module" :: n :: ss) => do pure ({ name := ← nat? n, sentences := ← ss.mapM ksentOfSexp } : KModuleDef)
        | _ => none
      pure { modules := ms }
  | _ => none

open PyK in
def ktraceOfSexp : Sexp → Option PyLLVMTrace
  | .list (.atom "trace" :: init :: items) => do
      let items ← items.mapM fun (it : Sexp) => match it with
        | .list [.atom "rule", o, .list kvs] => do
            let kvs ← kvs.mapM fun (kv : Sexp) => match kv with
              | .list [x, t] => do pure (← nat? x, ← ktermOfSexp t)
              | _ => none
            pure (PyTraceItem.rule (← nat? o) kvs)
        | .list [.atom "config", t] => do pure (PyTraceItem.config (← ktermOfSexp t))
        | .list [.atom "other"] => some PyTraceItem.otherEvent
        | _ => none
      pure { initial_config := ← ktermOfSexp init, trace := items }
  | _ => none

def b01 (b : Bool) : String := if b then "1" else "0"

def symDeclStr (d : Kore.SymDecl) : String :=
  s!"({d.name} {d.nSortParams} {d.nInputs} {b01 d.isCell} {b01 d.isFunctional} {b01 d.isKseq})"

def ruleKindStr : KDefSpec.RuleKind → String
  | .rewrite => "rw" | .equational => "eq"

/-- `sigOfDefinition d` -/
def specStr (ds : KDefSpec.DefSem) : String :=
  let rules := ds.rules.map fun r => s!"({r.ordinal} {ruleKindStr r.kind} {npatToStr r.pattern} {natsToStr r.scope.mvs} {natsToStr r.scope.sortParams})"
  s!"(spec (sig {natsToStr ds.sg.sorts} ({" ".intercalate (ds.sg.symbols.map symDeclStr)})) (rules {" ".intercalate rules}) (naxioms {ds.nAxioms}))"

def axiomStr : PyK.PyAxiom → String
  | .rewriting r => s!"{r.ordinal} rw {npatToStr r.pattern}"
  | .equational r => s!"{r.ordinal} eq {npatToStr r.pattern}"

def sortRefStr : PyK.PySortRef → String
  | .sort s => s!"(s {s.name})" | .var v => s!"(sv {v.name})"

def scopeStr (sc : PyK.PyScope) : String := s!"{natsToStr (sc._metavars.map (·.1))} {natsToStr (sc._sort_param_metavars.map (·.1))}"

/-- the store the generated `from_kore_definition` returns (all modules, in allocation order) -/
def lsStr (h : PyK.PyLS) : String :=
  let mods := h.modules.map fun m =>
    let sorts := m._sorts.map fun (_, s) => s!"({s.name} {b01 s.hooked})"
    let syms := m._symbols.map fun (_, s) =>
      s!"({s.name} {natsToStr (s.sort_params.map (·.name))} ({" ".intercalate (s.input_sorts.map sortRefStr)}) {sortRefStr s.output_sort} {b01 s.is_functional} {b01 s.is_ctor} {b01 s.is_cell})"
    let axs := m._axioms.map fun (_, a) => s!"({axiomStr a})"
    s!"(module {m._name} (sorts {" ".intercalate sorts}) (symbols {" ".intercalate syms}) (axioms {" ".intercalate axs}))"
  let scopes := h._cached_axiom_scopes.map fun (o, sc) => s!"({o} {scopeStr sc})"
  s!"(ls {" ".intercalate mods} (scopes {" ".intercalate scopes}) (counters {natsToStr h.counters}))"

def hintStr (h : PyK.PyHint) : String :=
  let σ := h.substitutions.map fun (k, p) => s!"({k} {npatToStr p})"
  s!"(hint ({axiomStr h.«axiom»}) {npatToStr h.configuration_before} {npatToStr h.configuration_after} ({" ".intercalate σ}))"

def pyStr {α} (f : α → String) : PyI.Py α → String
  | none => "fuel" | some none => "(raise)" | some (some a) => f a

/-- `sigOfDefinitionM d` (any number of modules), with the modules and the scopes of ALL rules; on a one-module definition the
one-module specification `sigOfDefinition` must say the same (`(one-module-spec-differs)` otherwise) -/
def specMStr (d : PyK.KDefinition) : String :=
  match KDefSpec.sigOfDefinitionM d, KDefSpec.modulesOfDefinition d with
  | some ds, some (all, ms) =>
    let mods := ms.map fun (m : KDefSpec.ModSem) =>
      s!"({m.name} {natsToStr m.imports} {natsToStr m.reach} {natsToStr m.sorts} {natsToStr m.symbols} {natsToStr m.ordinals})"
    let scopes := all.rules.map fun (r : KDefSpec.Rule) => s!"({r.ordinal} {natsToStr r.scope.mvs} {natsToStr r.scope.sortParams})"
    let base := String.ofList ((specStr ds).toList.dropLast)
    s!"{base} (mods {" ".intercalate mods}) (allscopes {" ".intercalate scopes}))"
  | _, _ => "(refused)"

def specOf (d : PyK.KDefinition) : Option KDefSpec.DefSem := KDefSpec.sigOfDefinitionM d

def oneModuleAgrees (d : PyK.KDefinition) : Bool :=
  d.modules.length != 1 ||
    (match KDefSpec.sigOfDefinition d, KDefSpec.sigOfDefinitionM d with
     | none, none => true
     | some a, some b => specStr a == specStr b
     | _, _ => false)

def kdefRun (d : PyK.KDefinition) : String :=
  let spec := if oneModuleAgrees d then specMStr d else "(one-module-spec-differs)"
  let gen := pyStr lsStr (Gen.PyKDef.LanguageSemantics.from_kore_definition id fuel d)
  s!"(kdef {spec} {gen})"

def khintsRun (d : PyK.KDefinition) (tr : PyK.PyLLVMTrace) : String :=
  let spec := match specOf d with
    | none => "(refused)"
    | some ds => match KDefSpec.traceStepsR ds tr with
      | none => "(raise)"
      | some (_, rules, steps) =>
        -- the cache holds the scopes of the rules of ALL modules; the trace extends those of the rules `get_axiom` finds
        let allRules := (KDefSpec.allRulesOfDefinition d).getD rules
        let scopes := allRules.map fun (r0 : KDefSpec.Rule) =>
          let r := (rules.find? (fun (x : KDefSpec.Rule) => x.ordinal == r0.ordinal)).getD r0
          s!"({r.ordinal} {natsToStr r.scope.mvs} {natsToStr r.scope.sortParams})"
        s!"(hints {" ".intercalate (steps.map fun s => hintStr (KDefTie.hintOf s))} (scopes {" ".intercalate scopes}))"
  let gen := match Gen.PyKDef.LanguageSemantics.from_kore_definition id fuel d with
    | some (some h) =>
      pyStr (fun (x : PyK.PyLS × List PyK.PyHint) =>
        let scopes := x.1._cached_axiom_scopes.map fun (e : Nat × PyK.PyScope) => s!"({e.1} {scopeStr e.2})"
        s!"(hints {" ".intercalate (x.2.map hintStr)} (scopes {" ".intercalate scopes}))") (Gen.PyKDef.get_proof_hints fuel h tr)
    | some none => "(refused)"
    | none => "fuel"
  s!"(khints {spec} {gen})"

def handle (line : String) : String :=
  match parseAll line with
  | none => "bad-request"
  | some [] => "bad-request"
  | some (.atom cmd :: args) =>
    match cmd, args with
    | "pretty-gen", [.atom mode, .list tab, p] =>
      let tab? : Option (List (Nat × String)) := tab.mapM fun (kv : Sexp) => match kv with
        | .list [k, .atom nm] => do pure (← nat? k, nm)
        | _ => none
      match tab?, ppOfSexp p with
      | some tab, some p => prettyGen mode tab p
      | _, _ => "bad-request"
    | "mmdb", [db, target] =>
      -- the specification `dbOfMDb` (Pi2/MM/ConvSpec.lean) in the protocol of `mmverify` / `mmxlate`, with the numberings
      match mdbOfSexp db, strOfHexAtom target with
      | some mdb, some t =>
        (match MM.ConvSpec.dbOfMDb mdb t with
         | none => s!"(outside (shape {MM.ConvSpec.FragmentShape mdb t}))"
         | some sp => s!"(spec {mmDbToStr sp.db} {mmTermToStr sp.goal} ({" ".intercalate (sp.labels.map mmLblToStr)}) {natsToStr sp.steps} (consts {strsToStr sp.names.consts}) (vars {strsToStr sp.names.vars}) (table {" ".intercalate (sp.table.map fun (l, x) => s!"({hexAtomOfStr l} {mmLblToStr x})")}) (shape {MM.ConvSpec.FragmentShape mdb t}) (frag {ConvTie.InFragmentX mdb t} {ConvTie.InFragment mdb t} {ConvTie.InFragmentM mdb (ConvTie.dbFuel mdb) t} {ConvTie.dbFuel mdb}) (wf {sp.db.wf}))")
      | _, _ => "bad-request"
    | "mmconv", [db, target] =>
      match mdbOfSexp db, strOfHexAtom target with
      | some mdb, some t => mmconvRun mdb t
      | _, _ => "bad-request"
    | "kimports", [] =>
      -- the axioms of the modules `ExecutionProofExp` imports, as `Pi2/KoreModule.lean` transcribes them (fully expanded)
      "(kimports " ++ " ".intercalate ((PModule.gammaAxioms.gammaList KMod.kImports).map fun a => patToStr a.expand) ++ ")"
    | "kdef", [d] =>
      match kdefOfSexp d with
      | some d => kdefRun d
      | none => "bad-request"
    | "kcount", [d, t] =>
      -- the generated `count_simplifications` on the conversion of a Kore term (generated `from_kore_definition`, `convert_pattern`)
      match kdefOfSexp d, ktermOfSexp t with
      | some d, some t =>
        (match Gen.PyKDef.LanguageSemantics.from_kore_definition id fuel d with
         | some (some h) =>
           (match Gen.PyKore.LanguageSemantics.convert_pattern (PyK.semView h) t with
            | some (some p) => pyStr (fun (c : Nat) => s!"(count {c})") (Gen.PyKDef.LanguageSemantics.count_simplifications id fuel h p)
            | _ => "(raise)")
         | some none => "(refused)"
         | none => "fuel")
      | _, _ => "bad-request"
    | "khints", [d, tr] =>
      match kdefOfSexp d, ktraceOfSexp tr with
      | some d, some tr => khintsRun d tr
      | _, _ => "bad-request"
    | "mmtext", [db] =>
      -- the translated Encoder (Pi2/Gen/MMAst.lean) through the Printer model (Pi2/MMAstSupport.lean): the TEXT, as a hex atom
      match mdbOfSexp db with
      | some db => (match AstTie.textOf db with | some t => hexAtomOfStr t | none => "(raise)")
      | none => "bad-request"
    | _, _ => "bad-request"
  | _ => "bad-request"

partial def loop (h : IO.FS.Stream) (out : IO.FS.Stream) : IO Unit := do
  let line ← h.getLine
  if line.isEmpty then return ()
  out.putStrLn (handle line)
  loop h out

def main : IO Unit := do
  let stdin ← IO.getStdin
  let stdout ← IO.getStdout
  loop stdin stdout
  stdout.flush
