import Pi2.StageSupport
/-!
# What the generated clause utilities WITH their proof objects (`Pi2/Gen/ClauseProofs.lean`, written by
`vlib/transclause.py`) are expressed in, beyond `Pi2/TautSupport.lean` and `Pi2/StageSupport.lean`

Hand-written and deliberately tiny: the Python primitives that only the clause utilities of `tautology.py` use
(`sorted`, `abs`, `xs[i] = v`, `a, b = <tuple of unknown length>`).  A first-class `N.assert_matches` (the parameter
`extract_op` of `ac_move_to_front`) is `Lem.matchNotn N : Pat → Option (List Pat)` (the tuple of the arguments of the
notation; `none` = `AssertionError`).
-/
namespace ClauseSup

/-- insertion into an ascending list (after the elements `≤ x`... before the first element `≥ x`) -/
def pyInsert (x : Int) : List Int → List Int
  | [] => [x]
  | y :: r => if x ≤ y then x :: y :: r else y :: pyInsert x r

/-- `sorted(xs)` on integers -/
def pySorted : List Int → List Int
  | [] => []
  | x :: xs => pyInsert x (pySorted xs)

/-- `abs(x)` -/
def pyAbs (x : Int) : Int := (x.natAbs : Int)

/-- `xs[i] = v` (negative `i` counts from the end; `IndexError`) -/
def pyListSet {α : Type} (xs : List α) (i : Int) (v : α) : Option (List α) :=
  if 0 ≤ i then (if i.toNat < xs.length then some (xs.set i.toNat v) else none)
  else if -i ≤ (xs.length : Int) then some (xs.set (xs.length - (-i).toNat) v) else none

/-- `a, b = xs` for a tuple / list of statically unknown length (`ValueError` unless exactly two elements) -/
def pyUnpack2 {α : Type} : List α → Option (α × α)
  | [a, b] => some (a, b)
  | _ => none

end ClauseSup
