import Pi2.Machine
/-!
# The execution monad of the translated `execute_instructions` / `verify` (hand-written, trusted base)

`Pi2/Gen/RustExec.lean` is regenerated from `rust/src/lib.rs` on every run (translator `vlib/transexec.py`): the Rust
statements of `pop_stack*`, `read_u8_vec`, every arm of the instruction `match` of `execute_instructions`, and `verify`,
one to one in `do`-notation.  This file only provides what those statements are written *in*: the mutable state the Rust
functions thread through `&mut` parameters, and one primitive per Rust library call that occurs in them.

* a Rust panic (`panic!`, `unimplemented!`, a failed `expect` / `assert!`, an out-of-bounds index) is `none`;
* `Vec::push` on the stack is `cons` (head = top); `memory.push` appends at the end; `claims` has its last pushed
  element at the head — the same conventions as `St` of `Pi2.Machine`;
* `enum Entry` (memory) and `enum Term` (stack) of lib.rs have the same two variants `Pattern`/`Proved`; both are `Term`
  here (the translator checks the two `enum` declarations and reports a problem if they differ);
* bytes, ids and indices are `Nat` (the casts `as Id`, `as usize` are the identity on wire bytes `< 256`).

Nothing here mentions an opcode, a check or a pattern constructor: all of that is in the generated file.
-/

namespace RustExec

/-- the state the Rust code mutates: the byte iterator and the three `&mut Vec`s -/
structure RSt where
  iter : List Nat        -- what `iterator` has not consumed yet
  stack : List Term      -- head = top
  memory : List Term     -- in push order
  claims : List Pat      -- head = last pushed
deriving DecidableEq, Repr, Inhabited

abbrev RM := StateT RSt Option

/-- `panic!(..)`, `unimplemented!(..)` -/
def rpanic {α : Type} : RM α := fun _ => none

/-- the result of a (translated) function that can panic but does not touch the state -/
def liftO {α : Type} : Option α → RM α
  | none => rpanic
  | some a => pure a

/-- `assert!(c, ..)` -/
def assert (c : Bool) : RM Unit := if c then pure () else rpanic

/-! ## the iterator -/

/-- `let iterator = &mut buffer.iter();` -/
def iterInit (buffer : List Nat) : RM Unit := fun s => some ((), { s with iter := buffer })

/-- `*iterator.next().expect(..)` -/
def next : RM Nat := fun s =>
  match s.iter with
  | [] => none
  | b :: r => some (b, { s with iter := r })

/-! ## the stack (`Vec<Term>`) -/

/-- `stack.push(t)` -/
def push (t : Term) : RM Unit := fun s => some ((), { s with stack := t :: s.stack })

/-- `stack.pop().expect(..)` -/
def stackPop : RM Term := fun s =>
  match s.stack with
  | [] => none
  | t :: st => some (t, { s with stack := st })

/-- `stack.last().expect(..)` (the translation clones what it reads) -/
def stackLast : RM Term := fun s =>
  match s.stack with
  | [] => none
  | t :: _ => some (t, s)

/-- `let mut stack = Vec::with_capacity(..);` and `stack.clear()` -/
def stackClear : RM Unit := fun s => some ((), { s with stack := [] })

/-! ## the memory (`Vec<Entry>`) -/

/-- `let mut memory: Memory = Vec::with_capacity(..);` -/
def memoryNew : RM Unit := fun s => some ((), { s with memory := [] })

/-- `memory.push(e)` -/
def memPush (t : Term) : RM Unit := fun s => some ((), { s with memory := s.memory ++ [t] })

/-- `&memory[i]` (panics out of bounds) -/
def memGet (i : Nat) : RM Term := fun s => (s.memory[i]?).map fun t => (t, s)

/-! ## the claims (`Vec<Rc<Pattern>>`) -/

/-- `let mut claims: Claims = Vec::with_capacity(..);` -/
def claimsNew : RM Unit := fun s => some ((), { s with claims := [] })

/-- `claims.push(p)` -/
def claimsPush (p : Pat) : RM Unit := fun s => some ((), { s with claims := p :: s.claims })

/-- `claims.pop().expect(..)` -/
def claimsPop : RM Pat := fun s =>
  match s.claims with
  | [] => none
  | c :: cs => some (c, { s with claims := cs })

/-- `claims.is_empty()` -/
def claimsIsEmpty : RM Bool := fun s => some (s.claims.isEmpty, s)

/-! ## loops -/

/-- `for _ in 0..n { body }` where `body` updates the local variables `σ` (and the state) -/
def forN {σ : Type} : Nat → (σ → RM σ) → σ → RM σ
  | 0, _, a => pure a
  | n + 1, body, a => do
      let a' ← body a
      forN n body a'

/-- `while let Some(x) = iterator.next() { body x }`, by structural recursion on fuel -/
def whileNextF (body : Nat → RM Unit) : Nat → RM Unit
  | 0 => fun s =>
      match s.iter with
      | [] => some ((), s)
      | _ :: _ => none                      -- out of fuel (unreachable with `whileNext`, see `whileNextF_fuel`)
  | f + 1 => fun s =>
      match s.iter with
      | [] => some ((), s)
      | b :: r =>
        match body b { s with iter := r } with
        | none => none
        | some (_, s') => whileNextF body f s'

/-- every iteration consumes the byte it matches on and no primitive ever gives bytes back, so the number of remaining
bytes is enough fuel -/
def whileNext (body : Nat → RM Unit) : RM Unit := fun s => whileNextF body s.iter.length s

/-! ## the loop equation (not trusted: a sanity lemma about `whileNext`) -/

/-- if the body never lengthens the iterator, more fuel than bytes changes nothing -/
theorem whileNextF_fuel (body : Nat → RM Unit)
    (hb : ∀ b s u s', body b s = some (u, s') → s'.iter.length ≤ s.iter.length) :
    ∀ (f : Nat) (s : RSt), s.iter.length ≤ f → whileNextF body f s = whileNextF body s.iter.length s := by
  intro f
  induction f using Nat.strongRecOn with
  | _ f ih =>
    intro s hlen
    obtain ⟨it, stk, mem, cl⟩ := s
    cases it with
    | nil => cases f <;> simp [whileNextF]
    | cons b r =>
      cases f with
      | zero => simp at hlen
      | succ f =>
        simp only [List.length_cons, whileNextF]
        cases h : body b ⟨r, stk, mem, cl⟩ with
        | none => rfl
        | some us =>
          obtain ⟨u, s'⟩ := us
          have hr : s'.iter.length ≤ r.length := hb b _ u s' h
          simp only [List.length_cons] at hlen
          simp only []
          rw [ih f (Nat.lt_succ_self f) s' (by omega)]
          by_cases hf : r.length = f
          · subst hf; rw [ih r.length (Nat.lt_succ_self _) s' hr]
          · rw [ih r.length (by omega) s' hr]

/-- the defining equation of the Rust loop -/
theorem whileNext_eq (body : Nat → RM Unit)
    (hb : ∀ b s u s', body b s = some (u, s') → s'.iter.length ≤ s.iter.length) (s : RSt) :
    whileNext body s =
      match s.iter with
      | [] => some ((), s)
      | b :: r =>
        match body b { s with iter := r } with
        | none => none
        | some (_, s') => whileNext body s' := by
  obtain ⟨it, stk, mem, cl⟩ := s
  cases it with
  | nil => simp [whileNext, whileNextF]
  | cons b r =>
    simp only [whileNext, List.length_cons, whileNextF]
    cases h : body b ⟨r, stk, mem, cl⟩ with
    | none => rfl
    | some us =>
      obtain ⟨u, s'⟩ := us
      have hr : s'.iter.length ≤ r.length := hb b _ u s' h
      simp only []
      exact whileNextF_fuel body hb r.length s' hr

end RustExec
