import Pi2.Gen.PyTaut
import Pi2.TautThm
/-!
# The tautology prover as written is the model

`Pi2/Gen/PyTaut.lean` is regenerated on every run from `tautology.py` (`vlib/transtaut.py`: the normal-form classes and the
DATA SLICE of every stage, statement by statement).  This file proves the generated functions equal to the hand-written
model `Pi2/Taut.lean`, about which `Pi2/TautThm.lean` proves C09:

* `to_conj_form_eq`, `propag_neg_eq`, `to_cnf_eq` (at EVERY fuel), `to_clauses_eq`, `resolvable_eq`, `is_trivial_clause_eq`,
  `simplify_clause_eq`: equalities, raises included (fuel ≥ the nesting depth where the model has no fuel);
  `*_none_or`: at ANY fuel a stage either runs out of fuel or answers as the model;
* the resolution loop: `for2_sound` / `for1_sound` / `resolution_algorithm_sound` (whatever the two nested loops as written
  answer, the model's index machine `Res.loop` answers: same pairs in the same order) and `loops_complete` /
  `resolution_algorithm_complete` (conversely, at every fuel ≥ the model's); `bpfh_ok`: the reconstruction of the proof
  from the hint hits none of its assertions (the hint bookkeeping is well founded: `WF`);
* `start_sound` / `start_complete`, `prove_tautology_sound` / `prove_tautology_complete`: the verdicts coincide, in both
  directions, up to fuel.
The model and the code DIFFER on clauses that contain the literal `0` (`trivial_zero_differs`); literals are `±(id + 1)`.
-/
set_option linter.unusedSimpArgs false
namespace TautTie
open Gen.PyTaut TautSup

theorem translated : Gen.PyTaut.translated = true := by decide

/-- the model's normal forms inside the generated class hierarchy (`CFVar.id` is a Python `int`; the model's ids are the
natural numbers, which is what `MetaVar.name` yields) -/
def ofCF : CF → ConjForm
  | .bot n => .CFBot n
  | .var n i => .CFVar n (i : Int)
  | .or n l r => .CFOr n (ofCF l) (ofCF r)
  | .and n l r => .CFAnd n (ofCF l) (ofCF r)

theorem ofCF_inj : ∀ a b : CF, ofCF a = ofCF b → a = b := by
  intro a
  induction a with
  | bot n => intro b h; cases b <;> simp_all [ofCF]
  | var n i =>
    intro b h; cases b <;> simp [ofCF] at h
    obtain ⟨h1, h2⟩ := h
    rw [h1, Int.ofNat_inj.mp h2]
  | or n l r ihl ihr =>
    intro b h; cases b <;> simp [ofCF] at h
    obtain ⟨h1, h2, h3⟩ := h
    rw [h1, ihl _ h2, ihr _ h3]
  | and n l r ihl ihr =>
    intro b h; cases b <;> simp [ofCF] at h
    obtain ⟨h1, h2, h3⟩ := h
    rw [h1, ihl _ h2, ihr _ h3]

@[simp] theorem negated_ofCF (c : CF) : ConjForm.negated (ofCF c) = c.negated := by cases c <;> rfl
@[simp] theorem set_negated_ofCF (c : CF) (b : Bool) : ConjForm.set_negated (ofCF c) b = ofCF (c.setNeg b) := by
  cases c <;> rfl
@[simp] theorem isCFBot_ofCF (c : CF) : ConjForm.isCFBot (ofCF c) = c.isBot := by cases c <;> rfl

/-! ## stage 1: `to_conj_form` -/

/-- `to_conj_form` as written computes `CF.ofForm`; the third component (the backward proof) is `None` exactly for the
constants; it never raises on a propositional pattern and needs no more recursion depth than the size of the pattern -/
theorem to_conj_form_eq (f : Form) : ∀ n, f.size ≤ n →
    to_conj_form n f = some (ofCF (CF.ofForm f), (), if (CF.ofForm f).isBot then none else some ()) := by
  induction f with
  | bot =>
    intro n hn
    cases n with
    | zero => simp [Form.size] at hn
    | succ k => simp [to_conj_form, TautSup.bot, CF.ofForm, ofCF, CFBot_new, CF.isBot]
  | var i =>
    intro n hn
    cases n with
    | zero => simp [Form.size] at hn
    | succ k =>
      simp [to_conj_form, TautSup.bot, TautSup.top, Form.top, isMetaVar, MetaVar_name, CF.ofForm, ofCF, CFVar_new, CF.isBot]
  | imp p0 p1 ih0 ih1 =>
    intro n hn
    cases n with
    | zero => simp [Form.size] at hn
    | succ k =>
      have h0 : p0.size ≤ k := by simp [Form.size] at hn; omega
      have h1 : p1.size ≤ k := by simp [Form.size] at hn; omega
      have e0 := ih0 k h0
      have e1 := ih1 k h1
      simp only [CF.ofForm]
      by_cases hb : p0 = .bot ∧ p1 = .bot
      · obtain ⟨rfl, rfl⟩ := hb
        simp [to_conj_form, TautSup.bot, TautSup.top, Form.top, ofCF, CFBot_new, CF.isBot]
      · rw [if_neg hb]
        have htop : (Form.imp p0 p1 == TautSup.top) = false := by
          simp only [TautSup.top, Form.top, beq_eq_false_iff_ne, ne_eq, Form.imp.injEq]; exact hb
        generalize CF.ofForm p1 = c1 at e1 ⊢
        generalize CF.ofForm p0 = c0 at e0 ⊢
        simp only [to_conj_form, htop, TautSup.bot, isMetaVar, Implies_extract]
        cases c1 with
        | bot b1 =>
          cases b1 <;> cases c0 with
          | bot b0 => cases b0 <;> simp [e0, e1, pyIndex, ofCF, CFBot_new, CF.isBot, ConjForm.isCFBot, ConjForm.negated, pyAssert]
          | var n0 i0 => cases n0 <;> simp [e0, e1, pyIndex, ofCF, CFBot_new, CF.isBot, ConjForm.isCFBot, ConjForm.negated, pyAssert, CF.negated, CF.setNeg, ConjForm.set_negated]
          | or n0 l0 r0 => cases n0 <;> simp [e0, e1, pyIndex, ofCF, CFBot_new, CF.isBot, ConjForm.isCFBot, ConjForm.negated, pyAssert, CF.negated, CF.setNeg, ConjForm.set_negated]
          | and n0 l0 r0 => cases n0 <;> simp [e0, e1, pyIndex, ofCF, CFBot_new, CF.isBot, ConjForm.isCFBot, ConjForm.negated, pyAssert, CF.negated, CF.setNeg, ConjForm.set_negated]
        | var n1 i1 =>
          cases c0 with
          | bot b0 => cases b0 <;> simp [e0, e1, pyIndex, ofCF, CFBot_new, CFOr_new, CF.isBot, ConjForm.isCFBot, ConjForm.negated, pyAssert]
          | var n0 i0 => cases n0 <;> simp [e0, e1, pyIndex, ofCF, CFBot_new, CFOr_new, CF.isBot, ConjForm.isCFBot, ConjForm.negated, pyAssert, CF.negated, CF.setNeg, ConjForm.set_negated]
          | or n0 l0 r0 => cases n0 <;> simp [e0, e1, pyIndex, ofCF, CFBot_new, CFOr_new, CF.isBot, ConjForm.isCFBot, ConjForm.negated, pyAssert, CF.negated, CF.setNeg, ConjForm.set_negated]
          | and n0 l0 r0 => cases n0 <;> simp [e0, e1, pyIndex, ofCF, CFBot_new, CFOr_new, CF.isBot, ConjForm.isCFBot, ConjForm.negated, pyAssert, CF.negated, CF.setNeg, ConjForm.set_negated]
        | or n1 l1 r1 =>
          cases c0 with
          | bot b0 => cases b0 <;> simp [e0, e1, pyIndex, ofCF, CFBot_new, CFOr_new, CF.isBot, ConjForm.isCFBot, ConjForm.negated, pyAssert]
          | var n0 i0 => cases n0 <;> simp [e0, e1, pyIndex, ofCF, CFBot_new, CFOr_new, CF.isBot, ConjForm.isCFBot, ConjForm.negated, pyAssert, CF.negated, CF.setNeg, ConjForm.set_negated]
          | or n0 l0 r0 => cases n0 <;> simp [e0, e1, pyIndex, ofCF, CFBot_new, CFOr_new, CF.isBot, ConjForm.isCFBot, ConjForm.negated, pyAssert, CF.negated, CF.setNeg, ConjForm.set_negated]
          | and n0 l0 r0 => cases n0 <;> simp [e0, e1, pyIndex, ofCF, CFBot_new, CFOr_new, CF.isBot, ConjForm.isCFBot, ConjForm.negated, pyAssert, CF.negated, CF.setNeg, ConjForm.set_negated]
        | and n1 l1 r1 =>
          cases c0 with
          | bot b0 => cases b0 <;> simp [e0, e1, pyIndex, ofCF, CFBot_new, CFOr_new, CF.isBot, ConjForm.isCFBot, ConjForm.negated, pyAssert]
          | var n0 i0 => cases n0 <;> simp [e0, e1, pyIndex, ofCF, CFBot_new, CFOr_new, CF.isBot, ConjForm.isCFBot, ConjForm.negated, pyAssert, CF.negated, CF.setNeg, ConjForm.set_negated]
          | or n0 l0 r0 => cases n0 <;> simp [e0, e1, pyIndex, ofCF, CFBot_new, CFOr_new, CF.isBot, ConjForm.isCFBot, ConjForm.negated, pyAssert, CF.negated, CF.setNeg, ConjForm.set_negated]
          | and n0 l0 r0 => cases n0 <;> simp [e0, e1, pyIndex, ofCF, CFBot_new, CFOr_new, CF.isBot, ConjForm.isCFBot, ConjForm.negated, pyAssert, CF.negated, CF.setNeg, ConjForm.set_negated]

/-! ## stage 2: `propag_neg` -/

/-- nesting depth of a normal form = the recursion depth the stages need -/
def depth : CF → Nat
  | .bot _ => 1
  | .var _ _ => 1
  | .or _ l r => max (depth l) (depth r) + 1
  | .and _ l r => max (depth l) (depth r) + 1

@[simp] theorem negated_CFOr (b l r) : ConjForm.negated (.CFOr b l r) = b := rfl
@[simp] theorem negated_CFAnd (b l r) : ConjForm.negated (.CFAnd b l r) = b := rfl
@[simp] theorem negated_CFBot (b) : ConjForm.negated (.CFBot b) = b := rfl
@[simp] theorem negated_CFVar (b i) : ConjForm.negated (.CFVar b i) = b := rfl

theorem setNeg_negated (c : CF) : c.setNeg c.negated = c := by cases c <;> rfl

/-- the in-place inversion `term.left.negated = not term.left.negated` before the recursive call is the `flip` argument of
the model -/
theorem propag_neg_aux (c : CF) : ∀ (flip : Bool) (n : Nat), depth c ≤ n →
    propag_neg n (ofCF (c.setNeg (xor c.negated flip))) = (CF.propagNegAux flip c).map fun r => (ofCF r, (), ()) := by
  induction c with
  | bot b =>
    intro flip n hn
    cases n with
    | zero => simp [depth] at hn
    | succ k => simp [propag_neg, CF.setNeg, ofCF, ConjForm.isCFVar, ConjForm.isCFOr, CF.propagNegAux]
  | var b i =>
    intro flip n hn
    cases n with
    | zero => simp [depth] at hn
    | succ k => simp [propag_neg, CF.setNeg, ofCF, ConjForm.isCFVar, CF.propagNegAux, CF.negated]
  | and b l r _ _ =>
    intro flip n hn
    cases n with
    | zero => simp [depth] at hn
    | succ k => simp [propag_neg, CF.setNeg, ofCF, ConjForm.isCFVar, ConjForm.isCFOr, CF.propagNegAux]
  | or b l r ihl ihr =>
    intro flip n hn
    cases n with
    | zero => simp [depth] at hn
    | succ k =>
      have hl : depth l ≤ k := by simp [depth] at hn; omega
      have hr : depth r ≤ k := by simp [depth] at hn; omega
      simp only [CF.propagNegAux, CF.negated, CF.setNeg, ofCF]
      by_cases hx : xor b flip = true
      · have el := ihl true k hl
        have er := ihr true k hr
        simp only [Bool.xor_true] at el er
        simp [propag_neg, ConjForm.isCFVar, ConjForm.isCFOr, hx, ConjForm.left, ConjForm.right,
          ConjForm.set_left, ConjForm.set_right, el, er, CFAnd_new]
        cases CF.propagNegAux true l <;> cases CF.propagNegAux true r <;> simp [ofCF]
      · have el := ihl false k hl
        have er := ihr false k hr
        simp only [Bool.xor_false, setNeg_negated] at el er
        simp only [Bool.not_eq_true] at hx
        simp [propag_neg, ConjForm.isCFVar, ConjForm.isCFOr, hx, ConjForm.left, ConjForm.right,
          el, er, CFOr_new]
        cases CF.propagNegAux false l <;> cases CF.propagNegAux false r <;> simp [ofCF]

/-- `propag_neg` as written is `CF.propagNeg`, raises included, at every fuel ≥ the depth of the term -/
theorem propag_neg_eq (c : CF) (n : Nat) (hn : depth c ≤ n) :
    propag_neg n (ofCF c) = (CF.propagNeg c).map fun r => (ofCF r, (), ()) := by
  have := propag_neg_aux c false n hn
  simpa [setNeg_negated, CF.propagNeg] using this

/-! ## stage 3: `to_cnf` -/

/-- `to_cnf` as written is `CF.toCnfF`, at every fuel (same recursion, same fuel discipline): same result, same
`AssertionError`s, same exhaustion -/
theorem to_cnf_eq : ∀ (k : Nat) (c : CF), to_cnf k (ofCF c) = (CF.toCnfF k c).map fun r => (ofCF r, (), ()) := by
  intro k
  induction k with
  | zero => intro c; simp [to_cnf, CF.toCnfF]
  | succ k ih =>
    intro c
    cases c with
    | bot b => simp [to_cnf, CF.toCnfF, ofCF, ConjForm.isCFVar, ConjForm.isCFAnd, ConjForm.isCFOr]
    | var b i => simp [to_cnf, CF.toCnfF, ofCF, ConjForm.isCFVar]
    | and b l r =>
      simp only [to_cnf, CF.toCnfF, ofCF, ConjForm.isCFVar, ConjForm.isCFAnd, ConjForm.left, ConjForm.right,
        Option.pure_def, Option.bind_eq_bind, Option.bind_some, ih l, ih r]
      cases CF.toCnfF k l <;> cases CF.toCnfF k r <;> simp [CFAnd_new, ofCF]
    | or b l r =>
      simp only [to_cnf, CF.toCnfF, ofCF, ConjForm.isCFVar, ConjForm.isCFAnd, ConjForm.isCFOr, ConjForm.left, ConjForm.right,
        Option.pure_def, Option.bind_eq_bind, Option.bind_some, ih l, ih r]
      cases hl : CF.toCnfF k l with
      | none => simp
      | some l' =>
        cases hr : CF.toCnfF k r with
        | none => simp
        | some r' =>
          cases l' with
          | and bl ll lr =>
            have := ih (.and false (.or false ll r') (.or false lr r'))
            simp [ofCF, ConjForm.isCFAnd, ConjForm.left, ConjForm.right, CFAnd_new, CFOr_new] at this ⊢
            rw [this]
            cases CF.toCnfF k (.and false (.or false ll r') (.or false lr r')) <;> simp
          | bot bl =>
            cases r' with
            | and br rl rr =>
              have := ih (.and false (.or false (.bot bl) rl) (.or false (.bot bl) rr))
              simp [ofCF, ConjForm.isCFAnd, ConjForm.left, ConjForm.right, CFAnd_new, CFOr_new] at this ⊢
              rw [this]
              cases CF.toCnfF k (.and false (.or false (.bot bl) rl) (.or false (.bot bl) rr)) <;> simp
            | _ => simp [ofCF, ConjForm.isCFAnd, CFOr_new]
          | var bl il =>
            cases r' with
            | and br rl rr =>
              have := ih (.and false (.or false (.var bl il) rl) (.or false (.var bl il) rr))
              simp [ofCF, ConjForm.isCFAnd, ConjForm.left, ConjForm.right, CFAnd_new, CFOr_new] at this ⊢
              rw [this]
              cases CF.toCnfF k (.and false (.or false (.var bl il) rl) (.or false (.var bl il) rr)) <;> simp
            | _ => simp [ofCF, ConjForm.isCFAnd, CFOr_new]
          | or bl ll lr =>
            cases r' with
            | and br rl rr =>
              have := ih (.and false (.or false (.or bl ll lr) rl) (.or false (.or bl ll lr) rr))
              simp [ofCF, ConjForm.isCFAnd, ConjForm.left, ConjForm.right, CFAnd_new, CFOr_new] at this ⊢
              rw [this]
              cases CF.toCnfF k (.and false (.or false (.or bl ll lr) rl) (.or false (.or bl ll lr) rr)) <;> simp
            | _ => simp [ofCF, ConjForm.isCFAnd, CFOr_new]

/-! ## stage 4: `to_clauses` -/

/-- what the model does not check but the code asserts (`assert l > 0`, twice): `to_clauses` never yields an empty
clause list nor an empty clause -/
theorem toClauses_nonempty (c : CF) : ∀ a, CF.toClauses c = some a → a ≠ [] ∧ ∀ x ∈ a, x ≠ [] := by
  induction c with
  | bot b => intro a h; simp [CF.toClauses] at h
  | var b i => intro a h; simp [CF.toClauses] at h; subst h; simp
  | and b l r ihl ihr =>
    intro a h
    simp only [CF.toClauses] at h
    cases hl : CF.toClauses l with
    | none => simp [hl] at h
    | some x =>
      cases hr : CF.toClauses r with
      | none => simp [hl, hr] at h
      | some y =>
        simp [hl, hr] at h
        subst h
        obtain ⟨h1, h2⟩ := ihl x hl
        obtain ⟨_, h4⟩ := ihr y hr
        refine ⟨by simp [h1], ?_⟩
        intro z hz
        rcases List.mem_append.mp hz with hz | hz
        · exact h2 z hz
        · exact h4 z hz
  | or b l r ihl ihr =>
    intro a h
    simp only [CF.toClauses] at h
    cases hl : CF.toClauses l with
    | none => simp [hl] at h
    | some x =>
      cases hr : CF.toClauses r with
      | none => simp [hl, hr] at h
      | some y =>
        obtain ⟨_, h2⟩ := ihl x hl
        match x, y, hl, hr, h, h2 with
        | [x1], [y1], hl, hr, h, h2 =>
          simp [hl, hr] at h
          subst h
          have := h2 x1 (by simp)
          simp [this]
        | [], _, hl, hr, h, _ => simp [hl, hr] at h
        | _ :: _ :: _, _, hl, hr, h, _ => simp [hl, hr] at h
        | [_], [], hl, hr, h, _ => simp [hl, hr] at h
        | [_], _ :: _ :: _, hl, hr, h, _ => simp [hl, hr] at h

theorem pyLen_pos {α} (x : List α) : decide (pyLen x > 0) = !x.isEmpty := by
  cases x <;> simp [pyLen]

/-- `to_clauses` as written is `CF.toClauses`, raises included, at every fuel ≥ the depth of the term -/
theorem to_clauses_eq (c : CF) : ∀ n, depth c ≤ n →
    to_clauses n (ofCF c) = (CF.toClauses c).map fun r => (r, (), ()) := by
  induction c with
  | bot b =>
    intro n hn
    cases n with
    | zero => simp [depth] at hn
    | succ k => simp [to_clauses, ofCF, ConjForm.isCFVar, ConjForm.isCFAnd, ConjForm.isCFOr, CF.toClauses]
  | var b i =>
    intro n hn
    cases n with
    | zero => simp [depth] at hn
    | succ k => cases b <;> simp [to_clauses, ofCF, ConjForm.isCFVar, ConjForm.negated, ConjForm.id, CF.toClauses]
  | and b l r ihl ihr =>
    intro n hn
    cases n with
    | zero => simp [depth] at hn
    | succ k =>
      have hl : depth l ≤ k := by simp [depth] at hn; omega
      have hr : depth r ≤ k := by simp [depth] at hn; omega
      simp only [to_clauses, CF.toClauses, ofCF, ConjForm.isCFVar, ConjForm.isCFAnd, ConjForm.left, ConjForm.right,
        Option.pure_def, Option.bind_eq_bind, Option.bind_some, ihl k hl, ihr k hr]
      cases hx : CF.toClauses l with
      | none => simp
      | some x =>
        cases hy : CF.toClauses r with
        | none => simp
        | some y =>
          have := (toClauses_nonempty l x hx).1
          cases x with
          | nil => exact absurd rfl this
          | cons x1 xs => simp [pyAssert, pyLen]
  | or b l r ihl ihr =>
    intro n hn
    cases n with
    | zero => simp [depth] at hn
    | succ k =>
      have hl : depth l ≤ k := by simp [depth] at hn; omega
      have hr : depth r ≤ k := by simp [depth] at hn; omega
      simp only [to_clauses, CF.toClauses, ofCF, ConjForm.isCFVar, ConjForm.isCFAnd, ConjForm.isCFOr, ConjForm.left,
        ConjForm.right, Option.pure_def, Option.bind_eq_bind, Option.bind_some, ihl k hl, ihr k hr]
      cases hx : CF.toClauses l with
      | none => simp
      | some x =>
        cases hy : CF.toClauses r with
        | none => simp
        | some y =>
          have h2 := (toClauses_nonempty l x hx).2
          match x, y, h2 with
          | [x1], [y1], h2 =>
            have := h2 x1 (by simp)
            cases x1 with
            | nil => exact absurd rfl this
            | cons a as => simp [pyAssert, pyLen, pyIndex]
          | [], _, _ => simp [pyAssert, pyLen]
          | _ :: _ :: _, _, _ => simp [pyAssert, pyLen]; omega
          | [_], [], _ => simp [pyAssert, pyLen]
          | [_], _ :: _ :: _, _ => simp [pyAssert, pyLen]; omega

/-! ## the clause helpers -/

theorem canon_singleton (x : Int) : Res.canon [x] = [x] := by simp [Res.canon, Res.insertSorted]

theorem contains_canon (c : List Int) (y : Int) : (Res.canon c).contains y = c.contains y := by
  rw [Bool.eq_iff_iff]; simp [Res.mem_canon]

/-- `resolvable` as written is `Res.resolvable` (on all lists; it never raises) -/
theorem resolvable_eq (c1 c2 : List Int) : resolvable c1 c2 = some (Res.resolvable c1 c2) := by
  have hf : (fsInter (fsOfList (List.map (fun x => -x) (fsToList c1))) c2) = c2.filter (fun y => c1.contains (-y)) := by
    simp only [fsInter, fsOfList, fsToList]
    apply List.filter_congr
    intro y _
    rw [contains_canon, Bool.eq_iff_iff]
    simp only [List.contains_iff_mem, List.mem_map]
    constructor
    · rintro ⟨x, hx, rfl⟩; simpa using hx
    · intro h; exact ⟨-y, h, by simp⟩
  simp only [resolvable, Res.resolvable, hf]
  match h : c2.filter (fun y => c1.contains (-y)) with
  | [] => simp [fsLen]
  | [r] =>
    have e1 : c1.filter (fun x => !([-r] : List Int).contains x) = c1.filter (fun x => decide (x ≠ -r)) := by
      apply List.filter_congr; intro x _; simp
    have e2 : c2.filter (fun x => !([r] : List Int).contains x) = c2.filter (fun x => decide (x ≠ r)) := by
      apply List.filter_congr; intro x _; simp
    simp [fsLen, pyUnpack1, fsToList, fsDiff, fsUnion, fsOfList, canon_singleton, e1, e2]
  | a :: b :: t => simp [fsLen]; omega

/-! `is_trivial_clause`: the loop over `combinations(list(cl), 2)` -/

theorem is_trivial_clause_for1_eq (ps : List (Int × Int)) :
    is_trivial_clause_for1 ps = some (cond (ps.any (fun p => p.1 + p.2 == 0)) (Ctl.ret true) (Ctl.go ())) := by
  induction ps with
  | nil => simp [is_trivial_clause_for1]
  | cons p ps ih =>
    obtain ⟨x1, x2⟩ := p
    by_cases h : x1 + x2 = 0
    · have hb : (x1 + x2 == 0) = true := by simpa using h
      simp only [is_trivial_clause_for1, List.any_cons, hb, Bool.true_or]
      simp
    · have hb : (x1 + x2 == 0) = false := by simpa using h
      simp only [is_trivial_clause_for1, List.any_cons, hb, Bool.false_or, ih]
      simp

theorem mem_comb2 {α} (l : List α) (a b : α) : (a, b) ∈ pyCombinations2 l → a ∈ l ∧ b ∈ l := by
  induction l with
  | nil => simp [pyCombinations2]
  | cons x xs ih =>
    simp only [pyCombinations2, List.mem_append, List.mem_map, List.mem_cons]
    rintro (⟨y, hy, h⟩ | h)
    · cases h; exact ⟨Or.inl rfl, Or.inr hy⟩
    · have := ih h; exact ⟨Or.inr this.1, Or.inr this.2⟩

theorem comb2_of_mem {α} (l : List α) (a b : α) (ha : a ∈ l) (hb : b ∈ l) (hab : a ≠ b) :
    (a, b) ∈ pyCombinations2 l ∨ (b, a) ∈ pyCombinations2 l := by
  induction l with
  | nil => simp at ha
  | cons x xs ih =>
    simp only [pyCombinations2, List.mem_append, List.mem_map, List.mem_cons] at ha hb ⊢
    rcases ha with rfl | ha <;> rcases hb with rfl | hb
    · exact absurd rfl hab
    · exact Or.inl (Or.inl ⟨b, hb, rfl⟩)
    · exact Or.inr (Or.inl ⟨a, ha, rfl⟩)
    · rcases ih ha hb with h | h
      · exact Or.inl (Or.inr h)
      · exact Or.inr (Or.inr h)

/-- `is_trivial_clause` as written is `Res.trivial` on clauses without the literal `0` (the literal `0` does not occur:
literals are `±(id + 1)`); it never raises.  With the literal `0` the two DIFFER: `Res.trivial [0] = true`, the code
answers `False` (see `trivial_zero_differs`) -/
theorem is_trivial_clause_eq (c : List Int) (hz : Res.NoZero c) : is_trivial_clause c = some (Res.trivial c) := by
  simp only [is_trivial_clause, fsToList, is_trivial_clause_for1_eq, Option.pure_def, Option.bind_eq_bind, Option.bind_some]
  have : (pyCombinations2 c).any (fun p => p.1 + p.2 == 0) = Res.trivial c := by
    rw [Bool.eq_iff_iff, Res.trivial_iff]
    simp only [List.any_eq_true, beq_iff_eq]
    constructor
    · rintro ⟨⟨a, b⟩, hm, h⟩
      have := mem_comb2 c a b hm
      refine ⟨a, this.1, ?_⟩
      have : -a = b := by simp at h; omega
      rw [this]; exact ‹a ∈ c ∧ b ∈ c›.2
    · rintro ⟨x, hx, hnx⟩
      have hne : x ≠ -x := by
        have := hz x hx; omega
      rcases comb2_of_mem c x (-x) hx hnx hne with h | h
      · exact ⟨(x, -x), h, by show x + -x = 0; omega⟩
      · exact ⟨(-x, x), h, by show -x + x = 0; omega⟩
  rw [this]
  cases Res.trivial c <;> simp

theorem trivial_zero_differs : is_trivial_clause [0] = some false ∧ Res.trivial [0] = true := by decide

/-! ## `dict`: the keys of the hint are the work list -/

abbrev Hint := PyDict FrozenSet (Sum ResolutionHintSource Int)

theorem dictHas_keys (d : Hint) (k : FrozenSet) : dictHas d k = (dictKeys d).contains k := by
  induction d with
  | nil => simp [dictHas, dictKeys]
  | cons p d ih =>
    obtain ⟨k', v⟩ := p
    simp only [dictHas, dictKeys, List.lookup, List.map_cons, List.contains_cons] at ih ⊢
    by_cases h : k = k'
    · subst h; simp
    · have : (k == k') = false := by simpa using h
      simp [this, ih]

theorem dictKeys_set (d : Hint) (k : FrozenSet) (v) :
    dictKeys (dictSet d k v) = if (dictKeys d).contains k then dictKeys d else dictKeys d ++ [k] := by
  induction d with
  | nil => simp [dictSet, dictKeys]
  | cons p d ih =>
    obtain ⟨k', v'⟩ := p
    by_cases h : k' = k
    · subst h; simp [dictSet, dictKeys]
    · have h1 : (k' == k) = false := by simpa using h
      have h2 : (k == k') = false := by simpa using fun e => h e.symm
      have e : dictSet ((k', v') :: d) k v = (k', v') :: dictSet d k v := by simp [dictSet, h1]
      have hk : dictKeys ((k', v') :: d) = k' :: dictKeys d := rfl
      have hk2 : dictKeys ((k', v') :: dictSet d k v) = k' :: dictKeys (dictSet d k v) := rfl
      rw [e, hk, hk2, ih, List.contains_cons, h2, Bool.false_or]
      split <;> simp

/-- the `for index, cl_set in enumerate(resolution_list)` loop of `start_resolution_algorithm`: the keys of the hint
it builds are the fold of `Res.initial` -/
theorem start_for1_keys (xs : List (List Int)) (hz : ∀ c ∈ xs, Res.NoZero c) : ∀ (k : Int) (hint : Hint),
    ∃ hint', start_resolution_algorithm_for1 (pyEnumerateFrom k xs) hint = some hint' ∧
      dictKeys hint' = xs.foldl (fun acc c => if Res.trivial c || acc.contains c then acc else acc ++ [c]) (dictKeys hint) := by
  induction xs with
  | nil => intro k hint; exact ⟨hint, by simp [pyEnumerateFrom, start_resolution_algorithm_for1], rfl⟩
  | cons c xs ih =>
    intro k hint
    have hc := hz c (by simp)
    have hxs : ∀ c ∈ xs, Res.NoZero c := fun c h => hz c (by simp [h])
    simp only [pyEnumerateFrom, start_resolution_algorithm_for1, is_trivial_clause_eq c hc, Option.pure_def,
      Option.bind_eq_bind, Option.bind_some, List.foldl_cons]
    cases ht : Res.trivial c with
    | true =>
      obtain ⟨h', e1, e2⟩ := ih hxs (k + 1) hint
      exact ⟨h', by simpa using e1, by simpa using e2⟩
    | false =>
      obtain ⟨h', e1, e2⟩ := ih hxs (k + 1) (dictSet hint c (Sum.inr k))
      refine ⟨h', by simpa using e1, ?_⟩
      rw [e2, dictKeys_set]
      simp


/-! ## the resolution loop -/

/-- one step of the model's index machine at a pair `j < i` -/
theorem loop_step (m : Nat) (l : List (List Int)) (i j : Nat) (cl1 cl2 : List Int) (hi : l[i]? = some cl1)
    (hji : j < i) (hj : l[j]? = some cl2) :
    Res.loop (m + 1) l i j =
      match Res.resolvable cl1 cl2 with
      | none => Res.loop m l i (j + 1)
      | some (_, res) =>
        if l.contains res then Res.loop m l i (j + 1)
        else if res.isEmpty then some true else Res.loop m (l ++ [res]) i (j + 1) := by
  have : ¬ j ≥ i := by omega
  cases hr : Res.resolvable cl1 cl2 <;> simp [Res.loop, hi, hj, this, hr]

/-- the model at the diagonal: the inner loop is over -/
theorem loop_diag (m : Nat) (l : List (List Int)) (i : Nat) (cl1 : List Int) (hi : l[i]? = some cl1) :
    Res.loop (m + 1) l i i = Res.loop m l (i + 1) 0 := by
  simp [Res.loop, hi]

/-- what the inner loop started at `(i, j)` promises about its outcome -/
def Post2 (l : List FrozenSet) (i j : Nat) (cl1 : FrozenSet)
    (out : Ctl (Bool × Hint × List FrozenSet) (Hint × List FrozenSet)) : Prop :=
  (∀ r, out = .ret r → r.1 = true ∧ ∃ n, ∀ m, Res.loop (n + m) l i j = some true) ∧
  (∀ h' l', out = .go (h', l') → dictKeys h' = l' ∧ l'.Nodup ∧ l'[i]? = some cl1 ∧
    ∃ n, ∀ m, Res.loop (n + m) l i j = Res.loop m l' (i + 1) 0)

/-- one more step of the model in front -/
theorem Post2_step (l l1 : List FrozenSet) (i j : Nat) (cl1 : FrozenSet) (out)
    (hs : ∀ m, Res.loop (m + 1) l i j = Res.loop m l1 i (j + 1))
    (hp : (∀ r, out = .ret r → r.1 = true ∧ ∃ n, ∀ m, Res.loop (n + m) l1 i (j + 1) = some true) ∧
      (∀ h' l', out = Ctl.go (h', l') → dictKeys h' = l' ∧ l'.Nodup ∧ l'[i]? = some cl1 ∧
        ∃ n, ∀ m, Res.loop (n + m) l1 i (j + 1) = Res.loop m l' (i + 1) 0)) : Post2 l i j cl1 out := by
  obtain ⟨a, b⟩ := hp
  refine ⟨?_, ?_⟩
  · intro r hr
    obtain ⟨h1, n, hn⟩ := a r hr
    refine ⟨h1, n + 1, fun m => ?_⟩
    have : n + 1 + m = (n + m) + 1 := by omega
    rw [this, hs]; exact hn m
  · intro h' l' e
    obtain ⟨h1, h2, h3, n, hn⟩ := b h' l' e
    refine ⟨h1, h2, h3, n + 1, fun m => ?_⟩
    have : n + 1 + m = (n + m) + 1 := by omega
    rw [this, hs]; exact hn m

/-- the INNER loop as written (`for cl2 in l` with its `break`, `continue`, `return True`, `l.append`), started at index `j`
of the list iterator, follows the model's machine from `(i, j)`: either it returns `True` and so does the model, or it
ends with the state from which the model goes on at `(i + 1, 0)`.  Invariants: the keys of `hint` are `l` (so
`res_set in hint` is `l.contains res`), `l` has no repetitions (so `cl2 == cl1` happens exactly at `j = i`). -/
theorem for2_sound : ∀ (F : Nat) (hint : Hint) (l : List FrozenSet) (i j : Nat) (cl1 : FrozenSet)
    (out : Ctl (Bool × Hint × List FrozenSet) (Hint × List FrozenSet)),
    dictKeys hint = l → l.Nodup → l[i]? = some cl1 → j ≤ i →
    resolution_algorithm_for2 cl1 F j hint l = some out → Post2 l i j cl1 out := by
  intro F
  induction F with
  | zero => intro hint l i j cl1 out _ _ _ _ h; simp [resolution_algorithm_for2] at h
  | succ F ih =>
    intro hint l i j cl1 out hk hnd hi hji h
    have hil : i < l.length := by
      rcases Nat.lt_or_ge i l.length with h' | h'
      · exact h'
      · rw [List.getElem?_eq_none h'] at hi; cases hi
    have hjl : j < l.length := by omega
    have hj : l[j]? = some l[j] := List.getElem?_eq_getElem hjl
    generalize l[j] = cl2 at hj
    simp only [resolution_algorithm_for2, hj] at h
    by_cases hc : cl2 = cl1
    · -- break
      subst hc
      have hij : j = i := (List.getElem?_inj hjl hnd).mp (hj.trans hi.symm)
      subst hij
      simp at h
      subst h
      refine ⟨(by intro r hr; cases hr), ?_⟩
      intro h' l' e
      cases e
      refine ⟨hk, hnd, hi, 1, fun m => ?_⟩
      rw [Nat.add_comm]; exact loop_diag m l j cl2 hi
    · have hlt : j < i := by
        rcases Nat.lt_or_ge j i with h' | h'
        · exact h'
        · have : j = i := by omega
          subst this
          rw [hi] at hj; cases hj; exact absurd rfl hc
      have hbeq : (cl2 == cl1) = false := by simpa using hc
      have hd : dictHas hint = l.contains := by funext k; rw [dictHas_keys, hk]
      simp only [hbeq, resolvable_eq, Option.pure_def, Option.bind_eq_bind, Option.bind_some, hd] at h
      have step := fun m => loop_step m l i j cl1 cl2 hi hlt hj
      cases hr : Res.resolvable cl1 cl2 with
      | none =>
        simp [hr] at h
        exact Post2_step l l i j cl1 out (fun m => by rw [step m, hr]) (ih hint l i (j + 1) cl1 out hk hnd hi hlt h)
      | some p =>
        obtain ⟨r, res⟩ := p
        simp only [hr, Option.isNone_some] at h
        simp only [Bool.false_eq_true, if_false, Option.bind_some] at h
        by_cases hcon : l.contains res = true
        · simp only [hcon, Bool.not_true, Bool.false_eq_true, if_false] at h
          exact Post2_step l l i j cl1 out (fun m => by simp only [step m, hr, hcon, if_true])
            (ih hint l i (j + 1) cl1 out hk hnd hi hlt h)
        · have hcon' : l.contains res = false := by simpa using hcon
          simp only [hcon', Bool.not_false, if_true] at h
          -- the assignments before `hint[res_set] = ..` only orient the hint source: any value `v` will do
          have key : ∀ v : Sum ResolutionHintSource Int,
              (if (!fsTruthy res) = true then some (Ctl.ret (true, dictSet hint res v, l))
                else resolution_algorithm_for2 cl1 F (j + 1) (dictSet hint res v) (l ++ [res])) = some out →
              Post2 l i j cl1 out := by
            intro v h
            by_cases he : res = []
            · subst he
              simp [fsTruthy] at h
              subst h
              refine ⟨?_, (by intro h' l' e; cases e)⟩
              intro r' e
              cases e
              refine ⟨rfl, 1, fun m => ?_⟩
              rw [Nat.add_comm]; simp only [step m, hr, hcon', Bool.false_eq_true, if_false, List.isEmpty_nil, if_true]
            · have hemp : res.isEmpty = false := by cases res <;> simp_all
              simp only [fsTruthy, hemp, Bool.not_false, Bool.not_true, Bool.false_eq_true, if_false] at h
              have hk' : dictKeys (dictSet hint res v) = l ++ [res] := by rw [dictKeys_set, hk, hcon']; simp
              have hnd' : (l ++ [res]).Nodup := by
                rw [List.nodup_append]
                refine ⟨hnd, by simp, ?_⟩
                intro a ha b hb
                simp at hb; subst hb
                intro e; subst e
                simp [List.contains_iff_mem] at hcon'
                exact hcon' ha
              have hi' : (l ++ [res])[i]? = some cl1 := by rw [List.getElem?_append_left hil]; exact hi
              exact Post2_step l (l ++ [res]) i j cl1 out (fun m => by simp only [step m, hr, hcon', hemp, Bool.false_eq_true, if_false])
                (ih _ _ i (j + 1) cl1 out hk' hnd' hi' hlt h)
          by_cases hr0 : r < 0
          · simp only [hr0, decide_true, if_true, Option.bind_some] at h
            exact key _ h
          · simp only [hr0, decide_false, Bool.false_eq_true, if_false, Option.bind_some] at h
            exact key _ h

/-- the OUTER loop as written, started at index `i` of the list iterator: if it returns `True` the model's machine
started at `(i, 0)` answers `some true`, if it ends the model answers `some false` -/
theorem for1_sound : ∀ (F : Nat) (hint : Hint) (l : List FrozenSet) (i : Nat)
    (out : Ctl (Bool × Hint × List FrozenSet) (Hint × List FrozenSet)),
    dictKeys hint = l → l.Nodup → resolution_algorithm_for1 F i hint l = some out →
    (∀ r, out = .ret r → r.1 = true ∧ ∃ n, ∀ m, Res.loop (n + m) l i 0 = some true) ∧
    (∀ s, out = .go s → ∃ n, ∀ m, Res.loop (n + m) l i 0 = some false) := by
  intro F
  induction F with
  | zero => intro hint l i out _ _ h; simp [resolution_algorithm_for1] at h
  | succ F ih =>
    intro hint l i out hk hnd h
    simp only [resolution_algorithm_for1] at h
    cases hi : l[i]? with
    | none =>
      simp [hi] at h
      subst h
      refine ⟨(by intro r e; cases e), ?_⟩
      intro s _
      exact ⟨1, fun m => by rw [Nat.add_comm]; simp [Res.loop, hi]⟩
    | some cl1 =>
      simp only [hi, Option.pure_def, Option.bind_eq_bind] at h
      cases h2 : resolution_algorithm_for2 cl1 F 0 hint l with
      | none => simp [h2] at h
      | some o2 =>
        obtain ⟨a, b⟩ := for2_sound F hint l i 0 cl1 o2 hk hnd hi (Nat.zero_le _) h2
        simp only [h2, Option.bind_some] at h
        cases o2 with
        | ret r =>
          simp at h
          subst h
          refine ⟨?_, (by intro s e; cases e)⟩
          intro r' e
          cases e
          exact a r rfl
        | go s =>
          obtain ⟨h', l'⟩ := s
          simp only at h
          obtain ⟨hk', hnd', _, n, hn⟩ := b h' l' rfl
          obtain ⟨a', b'⟩ := ih h' l' (i + 1) out hk' hnd' h
          refine ⟨?_, ?_⟩
          · intro r e
            obtain ⟨h1, n', hn'⟩ := a' r e
            refine ⟨h1, n + n', fun m => ?_⟩
            have : n + n' + m = n + (n' + m) := by omega
            rw [this, hn]; exact hn' m
          · intro s e
            obtain ⟨n', hn'⟩ := b' s e
            refine ⟨n + n', fun m => ?_⟩
            have : n + n' + m = n + (n' + m) := by omega
            rw [this, hn]; exact hn' m

/-- `resolution_algorithm` as written (both loops): whatever it answers, the model's machine answers with enough fuel -/
theorem resolution_algorithm_sound (F : Nat) (hint : Hint) (l : List FrozenSet) (b : Bool) (h' : Hint) (l' : List FrozenSet)
    (hk : dictKeys hint = l) (hnd : l.Nodup) (h : resolution_algorithm F hint l = some (b, h', l')) :
    ∃ n, ∀ m, Res.loop (n + m) l 0 0 = some b := by
  simp only [resolution_algorithm, Option.pure_def, Option.bind_eq_bind] at h
  cases h1 : resolution_algorithm_for1 F 0 hint l with
  | none => simp [h1] at h
  | some o =>
    obtain ⟨a, c⟩ := for1_sound F hint l 0 o hk hnd h1
    simp only [h1, Option.bind_some] at h
    cases o with
    | ret r =>
      simp at h
      obtain ⟨h1, n, hn⟩ := a r rfl
      rw [h] at h1
      simp at h1
      subst h1
      exact ⟨n, hn⟩
    | go s =>
      obtain ⟨hh, ll⟩ := s
      simp at h
      obtain ⟨n, hn⟩ := c _ rfl
      rw [h.1]
      exact ⟨n, hn⟩


/-! ## `start_resolution_algorithm` -/

theorem initial_fold_nodup (xs : List (List Int)) : ∀ acc : List (List Int), acc.Nodup →
    (xs.foldl (fun acc c => if Res.trivial c || acc.contains c then acc else acc ++ [c]) acc).Nodup := by
  induction xs with
  | nil => intro acc h; exact h
  | cons c xs ih =>
    intro acc h
    simp only [List.foldl_cons]
    apply ih
    split
    · exact h
    · rename_i hc
      simp only [Bool.or_eq_true, not_or, Bool.not_eq_true] at hc
      rw [List.nodup_append]
      refine ⟨h, by simp, ?_⟩
      intro a ha b hb
      simp at hb; subst hb
      intro e; subst e
      have := hc.2
      simp [List.contains_iff_mem] at this
      exact this ha

theorem initial_nodup (cls : List (List Int)) : (Res.initial cls).Nodup :=
  initial_fold_nodup _ [] List.nodup_nil

/-- the verdict of `start_resolution_algorithm` as written (`True` = all clauses trivial, `False` = refuted, `None` =
inconclusive) is, whenever the code answers at all, the answer of `Res.start` at every sufficient fuel.  (Clauses without
the literal `0`.)  The converse is `start_complete`. -/
theorem start_sound (F : Nat) (cls : List (List Int)) (hz : ∀ cl ∈ cls, Res.NoZero cl) (v : Option (Bool × Unit))
    (h : start_resolution_algorithm F cls = some v) :
    ∃ n, ∀ m, Res.start (n + m) cls = some (v.map (·.1)) := by
  simp only [start_resolution_algorithm, Option.pure_def, Option.bind_eq_bind] at h
  cases cls with
  | nil =>
    simp at h; subst h
    exact ⟨0, fun m => by simp [Res.start]⟩
  | cons c0 cs =>
    have hz' : ∀ c ∈ List.map (fun cl => fsOfList cl) (c0 :: cs), Res.NoZero c := by
      intro c hc
      obtain ⟨c', hc', rfl⟩ := List.mem_map.mp hc
      intro x hx
      exact hz c' hc' x ((Res.mem_canon x c').mp hx)
    obtain ⟨hint', e1, e2⟩ := start_for1_keys _ hz' 0 ([] : Hint)
    have e2' : dictKeys hint' = Res.initial (c0 :: cs) := e2
    simp only [pyEnumerate, e1, Option.bind_some, List.isEmpty_cons, Bool.not_false, Bool.not_true,
      Bool.false_eq_true, if_false] at h
    have hne : (c0 :: cs).isEmpty = false := rfl
    by_cases hemp : hint' = []
    · subst hemp
      have hl : Res.initial (c0 :: cs) = [] := by rw [← e2']; rfl
      simp [dictTruthy] at h
      subst h
      exact ⟨0, fun m => by simp [Res.start, hl]⟩
    · have hl : (Res.initial (c0 :: cs)).isEmpty = false := by
        rw [← e2']; cases hint' with
        | nil => exact absurd rfl hemp
        | cons p d => rfl
      have htr : dictTruthy hint' = true := by
        cases hint' with
        | nil => exact absurd rfl hemp
        | cons p d => rfl
      simp only [htr, Bool.not_true, Bool.false_eq_true, if_false] at h
      cases hr : resolution_algorithm F hint' (dictKeys hint') with
      | none => simp [hr] at h
      | some r =>
        obtain ⟨b, h2, l2⟩ := r
        obtain ⟨n, hn⟩ := resolution_algorithm_sound F hint' _ b h2 l2 rfl (e2' ▸ initial_nodup _) hr
        rw [e2'] at hn
        simp only [hr, Option.bind_some] at h
        cases b with
        | false =>
          simp at h; subst h
          exact ⟨n, fun m => by simp [Res.start, hl, hn m]⟩
        | true =>
          simp only [Bool.not_true, Bool.false_eq_true, if_false] at h
          cases hb : build_proof_from_hint F h2 (fsOfList []) (c0 :: cs) with
          | none => simp [hb] at h
          | some t =>
            simp only [hb, Option.bind_some, Bool.not_not] at h
            cases ha : pyAssert t.1.isEmpty with
            | none => simp [ha] at h
            | some u =>
              simp only [ha, Option.bind_some, Option.some.injEq] at h; subst h
              exact ⟨n, fun m => by simp [Res.start, hl, hn m]⟩

/-! ## at ANY fuel a stage either runs out of fuel or answers as the model does -/

theorem to_conj_form_none_or (n : Nat) : ∀ f : Form, to_conj_form n f = none ∨
    to_conj_form n f = some (ofCF (CF.ofForm f), (), if (CF.ofForm f).isBot then none else some ()) := by
  induction n with
  | zero => intro f; left; rfl
  | succ k ih =>
    intro f
    cases f with
    | bot => right; exact to_conj_form_eq .bot (k + 1) (by simp [Form.size])
    | var i => right; exact to_conj_form_eq (.var i) (k + 1) (by simp [Form.size])
    | imp p0 p1 =>
      simp only [CF.ofForm]
      by_cases hb : p0 = .bot ∧ p1 = .bot
      · obtain ⟨rfl, rfl⟩ := hb
        right
        simp [to_conj_form, TautSup.bot, TautSup.top, Form.top, ofCF, CFBot_new, CF.isBot]
      · rw [if_neg hb]
        have htop : (Form.imp p0 p1 == TautSup.top) = false := by
          simp only [TautSup.top, Form.top, beq_eq_false_iff_ne, ne_eq, Form.imp.injEq]; exact hb
        simp only [to_conj_form, htop, TautSup.bot, isMetaVar, Implies_extract]
        rcases ih p1 with e1 | e1
        · left; simp [e1, pyIndex]
        · generalize CF.ofForm p1 = c1 at e1 ⊢
          rcases ih p0 with e0 | e0
          · cases c1 with
            | bot b1 => cases b1 <;> simp [e0, e1, pyIndex, ofCF, CFBot_new, CF.isBot, ConjForm.isCFBot]
            | var n1 i1 => simp [e0, e1, pyIndex, ofCF, CFBot_new, CF.isBot, ConjForm.isCFBot]
            | or n1 l1 r1 => simp [e0, e1, pyIndex, ofCF, CFBot_new, CF.isBot, ConjForm.isCFBot]
            | and n1 l1 r1 => simp [e0, e1, pyIndex, ofCF, CFBot_new, CF.isBot, ConjForm.isCFBot]
          · right
            generalize CF.ofForm p0 = c0 at e0 ⊢
            cases c1 with
            | bot b1 =>
              cases b1 <;> cases c0 with
              | bot b0 => cases b0 <;> simp [e0, e1, pyIndex, ofCF, CFBot_new, CF.isBot, ConjForm.isCFBot, pyAssert]
              | var n0 i0 => cases n0 <;> simp [e0, e1, pyIndex, ofCF, CFBot_new, CF.isBot, ConjForm.isCFBot, pyAssert, CF.negated, CF.setNeg, ConjForm.set_negated]
              | or n0 l0 r0 => cases n0 <;> simp [e0, e1, pyIndex, ofCF, CFBot_new, CF.isBot, ConjForm.isCFBot, pyAssert, CF.negated, CF.setNeg, ConjForm.set_negated]
              | and n0 l0 r0 => cases n0 <;> simp [e0, e1, pyIndex, ofCF, CFBot_new, CF.isBot, ConjForm.isCFBot, pyAssert, CF.negated, CF.setNeg, ConjForm.set_negated]
            | var n1 i1 =>
              cases c0 with
              | bot b0 => cases b0 <;> simp [e0, e1, pyIndex, ofCF, CFBot_new, CFOr_new, CF.isBot, ConjForm.isCFBot, pyAssert]
              | var n0 i0 => cases n0 <;> simp [e0, e1, pyIndex, ofCF, CFBot_new, CFOr_new, CF.isBot, ConjForm.isCFBot, pyAssert, CF.negated, CF.setNeg, ConjForm.set_negated]
              | or n0 l0 r0 => cases n0 <;> simp [e0, e1, pyIndex, ofCF, CFBot_new, CFOr_new, CF.isBot, ConjForm.isCFBot, pyAssert, CF.negated, CF.setNeg, ConjForm.set_negated]
              | and n0 l0 r0 => cases n0 <;> simp [e0, e1, pyIndex, ofCF, CFBot_new, CFOr_new, CF.isBot, ConjForm.isCFBot, pyAssert, CF.negated, CF.setNeg, ConjForm.set_negated]
            | or n1 l1 r1 =>
              cases c0 with
              | bot b0 => cases b0 <;> simp [e0, e1, pyIndex, ofCF, CFBot_new, CFOr_new, CF.isBot, ConjForm.isCFBot, pyAssert]
              | var n0 i0 => cases n0 <;> simp [e0, e1, pyIndex, ofCF, CFBot_new, CFOr_new, CF.isBot, ConjForm.isCFBot, pyAssert, CF.negated, CF.setNeg, ConjForm.set_negated]
              | or n0 l0 r0 => cases n0 <;> simp [e0, e1, pyIndex, ofCF, CFBot_new, CFOr_new, CF.isBot, ConjForm.isCFBot, pyAssert, CF.negated, CF.setNeg, ConjForm.set_negated]
              | and n0 l0 r0 => cases n0 <;> simp [e0, e1, pyIndex, ofCF, CFBot_new, CFOr_new, CF.isBot, ConjForm.isCFBot, pyAssert, CF.negated, CF.setNeg, ConjForm.set_negated]
            | and n1 l1 r1 =>
              cases c0 with
              | bot b0 => cases b0 <;> simp [e0, e1, pyIndex, ofCF, CFBot_new, CFOr_new, CF.isBot, ConjForm.isCFBot, pyAssert]
              | var n0 i0 => cases n0 <;> simp [e0, e1, pyIndex, ofCF, CFBot_new, CFOr_new, CF.isBot, ConjForm.isCFBot, pyAssert, CF.negated, CF.setNeg, ConjForm.set_negated]
              | or n0 l0 r0 => cases n0 <;> simp [e0, e1, pyIndex, ofCF, CFBot_new, CFOr_new, CF.isBot, ConjForm.isCFBot, pyAssert, CF.negated, CF.setNeg, ConjForm.set_negated]
              | and n0 l0 r0 => cases n0 <;> simp [e0, e1, pyIndex, ofCF, CFBot_new, CFOr_new, CF.isBot, ConjForm.isCFBot, pyAssert, CF.negated, CF.setNeg, ConjForm.set_negated]

theorem propag_neg_none_or (n : Nat) : ∀ (c : CF) (flip : Bool),
    propag_neg n (ofCF (c.setNeg (xor c.negated flip))) = none ∨
    propag_neg n (ofCF (c.setNeg (xor c.negated flip))) = (CF.propagNegAux flip c).map fun r => (ofCF r, (), ()) := by
  induction n with
  | zero => intro c flip; left; rfl
  | succ k ih =>
    intro c flip
    cases c with
    | bot b => right; exact propag_neg_aux (.bot b) flip (k + 1) (by simp [depth])
    | var b i => right; exact propag_neg_aux (.var b i) flip (k + 1) (by simp [depth])
    | and b l r =>
      right
      simp [propag_neg, CF.setNeg, ofCF, ConjForm.isCFVar, ConjForm.isCFOr, CF.propagNegAux]
    | or b l r =>
      simp only [CF.propagNegAux, CF.negated, CF.setNeg, ofCF]
      by_cases hx : xor b flip = true
      · have el := ih l true
        have er := ih r true
        simp only [Bool.xor_true] at el er
        rcases el with el | el
        · left
          simp [propag_neg, ConjForm.isCFVar, ConjForm.isCFOr, hx, ConjForm.left, ConjForm.right,
            ConjForm.set_left, ConjForm.set_right, el]
        · rcases er with er | er
          · left
            simp [propag_neg, ConjForm.isCFVar, ConjForm.isCFOr, hx, ConjForm.left, ConjForm.right,
              ConjForm.set_left, ConjForm.set_right, el, er]
          · right
            simp [propag_neg, ConjForm.isCFVar, ConjForm.isCFOr, hx, ConjForm.left, ConjForm.right,
              ConjForm.set_left, ConjForm.set_right, el, er, CFAnd_new]
            cases CF.propagNegAux true l <;> cases CF.propagNegAux true r <;> simp [ofCF]
      · have el := ih l false
        have er := ih r false
        simp only [Bool.xor_false, setNeg_negated] at el er
        simp only [Bool.not_eq_true] at hx
        rcases el with el | el
        · left
          simp [propag_neg, ConjForm.isCFVar, ConjForm.isCFOr, hx, ConjForm.left, ConjForm.right, el]
        · rcases er with er | er
          · left
            simp [propag_neg, ConjForm.isCFVar, ConjForm.isCFOr, hx, ConjForm.left, ConjForm.right, el, er]
          · right
            simp [propag_neg, ConjForm.isCFVar, ConjForm.isCFOr, hx, ConjForm.left, ConjForm.right, el, er, CFOr_new]
            cases CF.propagNegAux false l <;> cases CF.propagNegAux false r <;> simp [ofCF]

theorem to_clauses_none_or (n : Nat) : ∀ c : CF, to_clauses n (ofCF c) = none ∨
    to_clauses n (ofCF c) = (CF.toClauses c).map fun r => (r, (), ()) := by
  induction n with
  | zero => intro c; left; rfl
  | succ k ih =>
    intro c
    cases c with
    | bot b => right; exact to_clauses_eq (.bot b) (k + 1) (by simp [depth])
    | var b i => right; exact to_clauses_eq (.var b i) (k + 1) (by simp [depth])
    | and b l r =>
      simp only [to_clauses, CF.toClauses, ofCF, ConjForm.isCFVar, ConjForm.isCFAnd, ConjForm.left, ConjForm.right,
        Option.pure_def, Option.bind_eq_bind, Option.bind_some]
      rcases ih l with el | el
      · left; simp [el]
      · rcases ih r with er | er
        · left; simp [el, er]
        · right
          rw [el, er]
          cases hx : CF.toClauses l with
          | none => simp
          | some x =>
            cases hy : CF.toClauses r with
            | none => simp
            | some y =>
              have := (toClauses_nonempty l x hx).1
              cases x with
              | nil => exact absurd rfl this
              | cons x1 xs => simp [pyAssert, pyLen]
    | or b l r =>
      simp only [to_clauses, CF.toClauses, ofCF, ConjForm.isCFVar, ConjForm.isCFAnd, ConjForm.isCFOr, ConjForm.left,
        ConjForm.right, Option.pure_def, Option.bind_eq_bind, Option.bind_some]
      rcases ih l with el | el
      · left; simp [el]
      · rcases ih r with er | er
        · left; simp [el, er]
        · right
          rw [el, er]
          cases hx : CF.toClauses l with
          | none => simp
          | some x =>
            cases hy : CF.toClauses r with
            | none => simp
            | some y =>
              have h2 := (toClauses_nonempty l x hx).2
              match x, y, h2 with
              | [x1], [y1], h2 =>
                have := h2 x1 (by simp)
                cases x1 with
                | nil => exact absurd rfl this
                | cons a as => simp [pyAssert, pyLen, pyIndex]
              | [], _, _ => simp [pyAssert, pyLen]
              | _ :: _ :: _, _, _ => simp [pyAssert, pyLen]; omega
              | [_], [], _ => simp [pyAssert, pyLen]
              | [_], _ :: _ :: _, _ => simp [pyAssert, pyLen]; omega

/-! ## `prove_tautology` -/

theorem distr_mono (k : Nat) (ih : ∀ c r, CF.toCnfF k c = some r → CF.toCnfF (k + 1) c = some r) (l' r' x : CF)
    (h : CF.distr k l' r' = some x) : CF.distr (k + 1) l' r' = some x := by
  unfold CF.distr at h ⊢
  split at h
  · exact ih _ _ h
  · exact ih _ _ h
  · exact h

/-- more fuel does not change an answer of the model's `toCnfF` -/
theorem toCnfF_mono : ∀ (k : Nat) (c r : CF), CF.toCnfF k c = some r → CF.toCnfF (k + 1) c = some r := by
  intro k
  induction k with
  | zero => intro c r h; simp [CF.toCnfF] at h
  | succ k ih =>
    intro c r h
    cases c with
    | bot b => simp [CF.toCnfF] at h
    | var b i => simpa [CF.toCnfF] using h
    | and b l r' =>
      simp only [CF.toCnfF, Option.bind_eq_bind, Option.bind_eq_some_iff, Option.pure_def] at h ⊢
      obtain ⟨a, ha, c', hc', e⟩ := h
      exact ⟨a, ih _ _ ha, c', ih _ _ hc', e⟩
    | or b l r' =>
      rw [CF.toCnfF_or] at h ⊢
      simp only [Option.bind_eq_some_iff] at h ⊢
      obtain ⟨a, ha, c', hc', e⟩ := h
      exact ⟨a, ih _ _ ha, c', ih _ _ hc', distr_mono k ih _ _ _ e⟩

theorem toCnfF_mono_add (k m : Nat) (c r : CF) (h : CF.toCnfF k c = some r) : CF.toCnfF (k + m) c = some r := by
  induction m with
  | zero => exact h
  | succ m ih => exact toCnfF_mono _ _ _ ih

theorem toClauses_noZero (c : CF) : ∀ cls, CF.toClauses c = some cls → ∀ cl ∈ cls, Res.NoZero cl := by
  induction c with
  | bot b => intro cls h; simp [CF.toClauses] at h
  | var b i =>
    intro cls h cl hcl x hx
    simp [CF.toClauses] at h; subst h
    simp at hcl; subst hcl
    simp at hx; subst hx
    cases b <;> simp <;> omega
  | and b l r ihl ihr =>
    intro cls h
    simp only [CF.toClauses, Option.bind_eq_bind, Option.bind_eq_some_iff, Option.pure_def, Option.some.injEq] at h
    obtain ⟨a, ha, c', hc', e⟩ := h
    subst e
    intro cl hcl
    rcases List.mem_append.mp hcl with h1 | h1
    · exact ihl a ha cl h1
    · exact ihr c' hc' cl h1
  | or b l r ihl ihr =>
    intro cls h
    simp only [CF.toClauses, Option.bind_eq_bind, Option.bind_eq_some_iff] at h
    obtain ⟨a, ha, c', hc', e⟩ := h
    match a, c', ha, hc', e with
    | [x], [y], ha, hc', e =>
      simp at e; subst e
      intro cl hcl z hz
      simp at hcl; subst hcl
      rcases List.mem_append.mp hz with h1 | h1
      · exact ihl _ ha x (by simp) z h1
      · exact ihr _ hc' y (by simp) z h1
    | [], _, _, _, e => simp at e
    | _ :: _ :: _, _, _, _, e => simp at e
    | [_], [], _, _, e => simp at e
    | [_], _ :: _ :: _, _, _, e => simp at e

/-- the generic branch of `prove_tautology` (the normal form of `¬pat` is not a constant): the four stages in a row -/
theorem pipeline_sound (F : Nat) (c : CF) (t2 t3 : ConjForm × Unit × Unit) (t4 : List (List Int) × Unit × Unit)
    (v : Option (Bool × Unit))
    (h2 : propag_neg F (ofCF c) = some t2) (h3 : to_cnf F t2.1 = some t3) (h4 : to_clauses F t3.1 = some t4)
    (h5 : start_resolution_algorithm F t4.1 = some v) :
    ∃ n, ∀ m, (do
      let n' ← CF.propagNeg c
      let cnf ← CF.toCnfF (n + m) n'
      let cls ← CF.toClauses cnf
      Res.start (n + m) cls) = some (v.map (·.1)) := by
  have h : (do
      let t2_ ← propag_neg F (ofCF c)
      let t3_ ← to_cnf F t2_.1
      let t4_ ← to_clauses F t3_.1
      let t5_ ← start_resolution_algorithm F t4_.1
      pure t5_) = some v := by simp [h2, h3, h4, h5]
  simp only [Option.bind_eq_bind, Option.pure_def] at h
  have hp := propag_neg_none_or F c false
  simp only [Bool.xor_false, setNeg_negated] at hp
  rcases hp with hp | hp
  · simp [hp] at h
  · rw [hp] at h
    cases hn : CF.propagNegAux false c with
    | none => simp [hn] at h
    | some nt =>
      simp only [hn, Option.map_some, Option.bind_some, to_cnf_eq] at h
      cases hcnf : CF.toCnfF F nt with
      | none => simp [hcnf] at h
      | some cnf =>
        simp only [hcnf, Option.map_some, Option.bind_some] at h
        rcases to_clauses_none_or F cnf with hcl | hcl
        · simp [hcl] at h
        · rw [hcl] at h
          cases hcls : CF.toClauses cnf with
          | none => simp [hcls] at h
          | some cls =>
            simp only [hcls, Option.map_some, Option.bind_some] at h
            cases hs : start_resolution_algorithm F cls with
            | none => simp [hs] at h
            | some sv =>
              simp only [hs, Option.bind_some, Option.some.injEq] at h
              subst h
              obtain ⟨n, hn'⟩ := start_sound F cls (toClauses_noZero cnf cls hcls) sv hs
              refine ⟨F + n, fun m => ?_⟩
              have e1 : CF.toCnfF (F + n + m) nt = some cnf := by
                have := toCnfF_mono_add F (n + m) nt cnf hcnf
                rwa [← Nat.add_assoc] at this
              have e2 : Res.start (F + n + m) cls = some (sv.map (·.1)) := by
                have := hn' (F + m)
                have e : n + (F + m) = F + n + m := by omega
                rwa [e] at this
              simp [CF.propagNeg, hn, e1, hcls, e2]

theorem proveTautology_nonbot (fuel : Nat) (f : Form) (hnb : (CF.ofForm (Form.neg f)).isBot = false) :
    proveTautology fuel f = (do
      let n ← CF.propagNeg (CF.ofForm (Form.neg f))
      let cnf ← CF.toCnfF fuel n
      let cls ← CF.toClauses cnf
      match ← Res.start fuel cls with
      | none => pure none
      | some true => pure (some false)
      | some false => pure (some true)) := by
  unfold proveTautology
  cases h : CF.ofForm (Form.neg f) with
  | bot b => simp [h, CF.isBot] at hnb
  | var b i => rfl
  | or b l r => rfl
  | and b l r => rfl

/-- the verdict of `prove_tautology` as written (`(True, _)` / `(False, _)` / `None`), whenever the code answers at all (at any
fuel), is the verdict of the model `proveTautology` at every sufficient fuel -/
theorem prove_tautology_sound (F : Nat) (f : Form) (v : Option (Bool × Unit)) (h : prove_tautology F f = some v) :
    ∃ n, ∀ m, proveTautology (n + m) f = some (v.map (·.1)) := by
  simp only [prove_tautology, TautSup.neg, Option.pure_def, Option.bind_eq_bind] at h
  rcases to_conj_form_none_or F (Form.neg f) with e | e
  · simp [e] at h
  · simp only [e, Option.bind_some, isCFBot_ofCF, negated_ofCF] at h
    cases hb : (CF.ofForm (Form.neg f)).isBot with
    | true =>
      cases hc : CF.ofForm (Form.neg f) with
      | bot b =>
        cases b <;> simp [hc, CF.isBot, CF.negated] at h <;> subst h <;>
          exact ⟨0, fun m => by simp [proveTautology, hc]⟩
      | var b i => simp [hc, CF.isBot] at hb
      | or b l r => simp [hc, CF.isBot] at hb
      | and b l r => simp [hc, CF.isBot] at hb
    | false =>
      simp only [hb, Bool.false_eq_true, if_false, Option.isSome_some, pyAssert, if_true, Option.bind_some] at h
      cases h2 : propag_neg F (ofCF (CF.ofForm (Form.neg f))) with
      | none => simp [h2] at h
      | some t2 =>
        simp only [h2, Option.bind_some] at h
        cases h3 : to_cnf F t2.1 with
        | none => simp [h3] at h
        | some t3 =>
          simp only [h3, Option.bind_some] at h
          cases h4 : to_clauses F t3.1 with
          | none => simp [h4] at h
          | some t4 =>
            simp only [h4, Option.bind_some] at h
            cases h5 : start_resolution_algorithm F t4.1 with
            | none => simp [h5] at h
            | some sv =>
              simp only [h5, Option.bind_some] at h
              obtain ⟨n, hn⟩ := pipeline_sound F _ t2 t3 t4 sv h2 h3 h4 h5
              refine ⟨n, fun m => ?_⟩
              rw [proveTautology_nonbot _ _ hb]
              have := hn m
              simp only [Option.bind_eq_bind, Option.bind_eq_some_iff] at this
              obtain ⟨a, ha, b, hb', c, hc, hs⟩ := this
              simp only [Option.bind_eq_bind, ha, hb', hc, hs, Option.bind_some]
              cases sv with
              | none => simp at h; subst h; rfl
              | some p =>
                obtain ⟨pt, u⟩ := p
                cases pt <;> simp at h <;> subst h <;> rfl

/-! ## the reconstruction of the proof from the hint (`build_proof_from_hint`, `simplify_clause`): it never raises -/

theorem sorted_ext : ∀ (a b : List Int), a.Pairwise (· < ·) → b.Pairwise (· < ·) → (∀ x, x ∈ a ↔ x ∈ b) → a = b := by
  intro a
  induction a with
  | nil =>
    intro b _ _ h
    cases b with
    | nil => rfl
    | cons y b' => exact absurd ((h y).mpr (by simp)) (by simp)
  | cons x a' ih =>
    intro b ha hb h
    cases b with
    | nil => exact absurd ((h x).mp (by simp)) (by simp)
    | cons y b' =>
      rw [List.pairwise_cons] at ha hb
      have hxy : x = y := by
        have h1 := (h x).mp (by simp)
        have h2 := (h y).mpr (by simp)
        simp only [List.mem_cons] at h1 h2
        rcases h1 with h1 | h1
        · exact h1
        · rcases h2 with h2 | h2
          · exact h2.symm
          · have := ha.1 y h2
            have := hb.1 x h1
            omega
      subst hxy
      congr 1
      apply ih b' ha.2 hb.2
      intro z
      constructor
      · intro hz
        have := (h z).mp (by simp [hz])
        simp only [List.mem_cons] at this
        rcases this with rfl | this
        · have := ha.1 z hz; omega
        · exact this
      · intro hz
        have := (h z).mpr (by simp [hz])
        simp only [List.mem_cons] at this
        rcases this with rfl | this
        · have := hb.1 z hz; omega
        · exact this

theorem canon_ext (a b : List Int) (h : ∀ x, x ∈ a ↔ x ∈ b) : Res.canon a = Res.canon b :=
  sorted_ext _ _ (Res.canon_sorted a) (Res.canon_sorted b) (fun x => by rw [Res.mem_canon, Res.mem_canon]; exact h x)

/-- the loop of `simplify_clause` over the indices of `cl = pre ++ suf`, from index `pre.length` on -/
theorem simplify_clause_for1_spec (x : Int) : ∀ (suf pre pos str : List Int),
    ∃ ps, simplify_clause_for1 (pre ++ suf) x ((List.range' pre.length suf.length).map fun (k : Nat) => (k : Int)) pos str =
        some (pos ++ ps, str ++ suf.filter (· != x)) ∧ (ps = [] ↔ suf.all (· != x) = true) := by
  intro suf
  induction suf with
  | nil => intro pre pos str; exact ⟨[], by simp [simplify_clause_for1], by simp⟩
  | cons a suf ih =>
    intro pre pos str
    have hidx : pyIndex (pre ++ a :: suf) (pre.length : Int) = some a := by
      simp [pyIndex]
    have hcl : pre ++ a :: suf = (pre ++ [a]) ++ suf := by simp
    have hlen : (pre ++ [a]).length = pre.length + 1 := by simp
    simp only [List.length_cons, List.range'_succ, List.map_cons, simplify_clause_for1, hidx, Option.pure_def,
      Option.bind_eq_bind, Option.bind_some]
    by_cases hax : a = x
    · subst hax
      obtain ⟨ps, e, _⟩ := ih (pre ++ [a]) (pos ++ [(pre.length : Int)]) str
      rw [hlen, ← hcl] at e
      refine ⟨(pre.length : Int) :: ps, ?_, by simp⟩
      simp [e]
    · have hb : (a == x) = false := by simpa using hax
      obtain ⟨ps, e, hps⟩ := ih (pre ++ [a]) pos (str ++ [a])
      rw [hlen, ← hcl] at e
      refine ⟨ps, ?_, ?_⟩
      · simp [hb, e, hax]
      · rw [hps]; simp [hax]

/-- `simplify_clause` as written: the occurrences of `resolvent` are moved to the front and merged into one -/
theorem simplify_clause_eq (cl : List Int) (x : Int) :
    simplify_clause cl x = some (if cl.all (· != x) then cl else x :: cl.filter (· != x), ()) := by
  obtain ⟨ps, e, hps⟩ := simplify_clause_for1_spec x cl [] [] []
  have hr : pyRange (pyLen cl) = (List.range' 0 cl.length).map fun (k : Nat) => (k : Int) := by
    simp [pyRange, pyLen, List.range_eq_range']
  simp only [List.nil_append, List.length_nil] at e
  simp only [simplify_clause, hr, e, Option.pure_def, Option.bind_eq_bind, Option.bind_some]
  by_cases hall : cl.all (· != x) = true
  · have : ps = [] := hps.mpr hall
    subst this
    simp [hall]
  · have : ps ≠ [] := fun h => hall (hps.mp h)
    have hne : ps.isEmpty = false := by cases ps <;> simp_all
    simp [hall, hne]

/-- an entry of the hint is justified: an index into the clause list whose clause set is the key, or two EARLIER keys that
clash on the recorded resolvant and whose resolvent is the key -/
def EntryOK (terms : List (List Int)) (pre : List FrozenSet) (k : FrozenSet) : Sum ResolutionHintSource Int → Prop
  | .inr idx => ∃ t, pyIndex terms idx = some t ∧ Res.canon t = k
  | .inl s => s.left_set ∈ pre ∧ s.right_set ∈ pre ∧ -s.resolvant ∈ s.left_set ∧ s.resolvant ∈ s.right_set ∧
      Res.canon (s.left_set.filter (· != -s.resolvant) ++ s.right_set.filter (· != s.resolvant)) = k

/-- the hint bookkeeping is well founded -/
def WF (terms : List (List Int)) (hint : Hint) : Prop :=
  ∀ (p : Nat) (hp : p < hint.length), EntryOK terms ((dictKeys hint).take p) hint[p].1 hint[p].2

theorem dictSet_new (d : Hint) (k : FrozenSet) (v) (h : (dictKeys d).contains k = false) : dictSet d k v = d ++ [(k, v)] := by
  induction d with
  | nil => rfl
  | cons p d ih =>
    obtain ⟨k', v'⟩ := p
    simp only [dictKeys, List.map_cons, List.contains_cons, Bool.or_eq_false_iff] at h
    have h1 : (k' == k) = false := by
      have := h.1
      simp only [beq_eq_false_iff_ne, ne_eq] at this ⊢
      exact fun e => this e.symm
    simp only [dictSet, h1, Bool.false_eq_true, if_false, List.cons_append]
    rw [ih h.2]

theorem WF_append (terms : List (List Int)) (hint : Hint) (k : FrozenSet) (v) (hw : WF terms hint)
    (he : EntryOK terms (dictKeys hint) k v) : WF terms (hint ++ [(k, v)]) := by
  intro p hp
  simp only [List.length_append, List.length_singleton] at hp
  by_cases hlt : p < hint.length
  · have e1 : (hint ++ [(k, v)])[p] = hint[p] := List.getElem_append_left hlt
    have e2 : (dictKeys (hint ++ [(k, v)])).take p = (dictKeys hint).take p := by
      simp only [dictKeys, List.map_append]
      rw [List.take_append_of_le_length (by rw [List.length_map]; omega)]
    rw [e1, e2]
    exact hw p hlt
  · have hpe : p = hint.length := by omega
    subst hpe
    have e1 : (hint ++ [(k, v)])[hint.length] = (k, v) := by simp
    have e2 : (dictKeys (hint ++ [(k, v)])).take hint.length = dictKeys hint := by
      simp only [dictKeys, List.map_append]
      rw [List.take_append_of_le_length (by rw [List.length_map]; exact Nat.le_refl _)]
      rw [← List.length_map (f := fun x : FrozenSet × Sum ResolutionHintSource Int => x.1), List.take_length]
    rw [e1, e2]
    exact he

theorem lookup_getElem (d : Hint) (hnd : (dictKeys d).Nodup) (p : Nat) (hp : p < d.length) :
    dictGet d d[p].1 = some d[p].2 := by
  induction d generalizing p with
  | nil => simp at hp
  | cons e d ih =>
    obtain ⟨k', v'⟩ := e
    simp only [dictKeys, List.map_cons, List.nodup_cons] at hnd
    cases p with
    | zero => simp [dictGet, List.lookup]
    | succ q =>
      have hq : q < d.length := by simpa using hp
      have hne : d[q].1 ≠ k' := by
        intro e
        apply hnd.1
        rw [← e]
        exact List.mem_map.mpr ⟨d[q], List.getElem_mem hq, rfl⟩
      have hb : (d[q].1 == k') = false := by simpa using hne
      simp only [dictGet, List.getElem_cons_succ, List.lookup, hb]
      exact ih hnd.2 q hq

/-- `build_proof_from_hint` as written, on a well-founded hint without repeated keys: for the key at position `p` it
returns (with recursion depth `p + 1`) a clause whose set is that key; none of its assertions fails -/
theorem bpfh_ok (terms : List (List Int)) (hint : Hint) (hw : WF terms hint) (hnd : (dictKeys hint).Nodup) :
    ∀ (p : Nat) (hp : p < hint.length) (G : Nat), p + 1 ≤ G →
      ∃ t, build_proof_from_hint G hint hint[p].1 terms = some (t, ()) ∧ Res.canon t = hint[p].1 := by
  intro p
  induction p using Nat.strongRecOn with
  | _ p ih =>
    intro hp G hG
    obtain ⟨G', rfl⟩ : ∃ g, G = g + 1 := ⟨G - 1, by omega⟩
    have hget := lookup_getElem hint hnd p hp
    have hok := hw p hp
    simp only [build_proof_from_hint, hget, Option.pure_def, Option.bind_eq_bind, Option.bind_some]
    cases hv : hint[p].2 with
    | inr idx =>
      rw [hv] at hok
      obtain ⟨t, ht, hc⟩ := hok
      exact ⟨t, by simp [ht], hc⟩
    | inl s =>
      rw [hv] at hok
      obtain ⟨L, R, r⟩ := s
      simp only [EntryOK, ResolutionHintSource.left_set, ResolutionHintSource.right_set, ResolutionHintSource.resolvant] at hok
      simp only [ResolutionHintSource.left_set, ResolutionHintSource.right_set, ResolutionHintSource.resolvant]
      obtain ⟨hL, hR, hnr, hr, hk⟩ := hok
      -- the two earlier keys
      have find : ∀ X, X ∈ (dictKeys hint).take p → ∃ t, build_proof_from_hint G' hint X terms = some (t, ()) ∧ Res.canon t = X := by
        intro X hX
        obtain ⟨q, hq, e⟩ := List.mem_take_iff_getElem.mp hX
        have hq1 : q < p := by omega
        have hq2 : q < hint.length := by omega
        have : hint[q].1 = X := by simpa [dictKeys] using e
        rw [← this]
        exact ih q hq1 hq2 G' (by omega)
      obtain ⟨tl, e1, c1⟩ := find L hL
      obtain ⟨tr, e2, c2⟩ := find R hR
      have hml : -r ∈ tl := by rw [← c1, Res.mem_canon] at hnr; exact hnr
      have hmr : r ∈ tr := by rw [← c2, Res.mem_canon] at hr; exact hr
      have nl : tl.all (· != -r) = false := by
        rw [Bool.eq_false_iff]; intro h
        have := List.all_eq_true.mp h (-r) hml
        simp at this
      have nr : tr.all (· != r) = false := by
        rw [Bool.eq_false_iff]; intro h
        have := List.all_eq_true.mp h r hmr
        simp at this
      have hfin : Res.canon (tl.filter (· != -r) ++ tr.filter (· != r)) = hint[p].1 := by
        rw [← hk]
        apply canon_ext
        intro x
        simp only [List.mem_append, List.mem_filter, ← c1, ← c2, Res.mem_canon]
      refine ⟨tl.filter (· != -r) ++ tr.filter (· != r), ?_, hfin⟩
      have nl' : ¬ ∀ x, x ∈ tl → ¬ x = -r := fun h => h _ hml rfl
      have nr' : ¬ ∀ x, x ∈ tr → ¬ x = r := fun h => h _ hmr rfl
      simp [e1, e2, simplify_clause_eq, nl', nr', pyIndex, pyAssert, pySliceFrom, fsOfList, hfin]


/-! ## the resolution loop, conversely: where the model answers, the code as written answers the same -/

/-- what a `return True` of the loop leaves behind: a well-founded hint without repeated keys, of bounded length, whose
last key is the empty clause -/
def RetOK (terms : List (List Int)) (N : Nat) (r : Bool × Hint × List FrozenSet) : Prop :=
  r.1 = true ∧ WF terms r.2.1 ∧ (dictKeys r.2.1).Nodup ∧ r.2.1.length ≤ N ∧
    ∃ h0 v, r.2.1 = h0 ++ [(([] : List Int), v)]

/-- the outcome of the outer loop agrees with the model's answer `b` -/
def Final (terms : List (List Int)) (N : Nat) (b : Bool) :
    Ctl (Bool × Hint × List FrozenSet) (Hint × List FrozenSet) → Prop
  | .ret r => b = true ∧ RetOK terms N r
  | .go _ => b = false

/-- the outcome of the inner loop, followed by the rest of the outer loop, agrees with the model's answer `b` -/
def Mid (terms : List (List Int)) (N G1 i : Nat) (b : Bool) :
    Ctl (Bool × Hint × List FrozenSet) (Hint × List FrozenSet) → Prop
  | .ret r => b = true ∧ RetOK terms N r
  | .go s => ∃ o', resolution_algorithm_for1 G1 (i + 1) s.1 s.2 = some o' ∧ Final terms N b o'

theorem RetOK_mono (terms) (N N' : Nat) (h : N ≤ N') (r) (hr : RetOK terms N r) : RetOK terms N' r :=
  ⟨hr.1, hr.2.1, hr.2.2.1, Nat.le_trans hr.2.2.2.1 h, hr.2.2.2.2⟩

theorem Final_mono (terms) (N N' : Nat) (h : N ≤ N') (b o) (hf : Final terms N b o) : Final terms N' b o := by
  cases o with
  | ret r => exact ⟨hf.1, RetOK_mono terms N N' h r hf.2⟩
  | go s => exact hf

theorem Mid_mono (terms) (N N' G1 i : Nat) (h : N ≤ N') (b o) (hm : Mid terms N G1 i b o) : Mid terms N' G1 i b o := by
  cases o with
  | ret r => exact ⟨hm.1, RetOK_mono terms N N' h r hm.2⟩
  | go s =>
    obtain ⟨o', e, hf⟩ := hm
    exact ⟨o', e, Final_mono terms N N' h b o' hf⟩

/-- the model's machine at `(i, j)` with fuel `F` answers `b`; then the inner loop as written, resumed at `j` with any fuel
`G2 ≥ F`, followed by the outer loop from `i + 1` with any fuel `G1 ≥ F`, answers `b`; the hint stays well founded and
grows by at most one entry per step of the model -/
theorem loops_complete (terms : List (List Int)) : ∀ (F : Nat) (l : List FrozenSet) (i j : Nat) (b : Bool),
    Res.loop F l i j = some b →
    ∀ (hint : Hint) (G2 G1 : Nat), F ≤ G2 → F ≤ G1 → dictKeys hint = l → l.Nodup → WF terms hint → j ≤ i →
    (l[i]? = none → b = false) ∧
    (∀ cl1, l[i]? = some cl1 → ∃ o, resolution_algorithm_for2 cl1 G2 j hint l = some o ∧
      Mid terms (hint.length + F) G1 i b o) := by
  intro F
  induction F with
  | zero => intro l i j b h; simp [Res.loop] at h
  | succ F ih =>
    intro l i j b h hint G2 G1 hG2 hG1 hk hnd hwf hji
    refine ⟨fun hi => by simp [Res.loop, hi] at h; exact h, fun cl1 hi => ?_⟩
    · obtain ⟨G2', rfl⟩ : ∃ g, G2 = g + 1 := ⟨G2 - 1, by omega⟩
      obtain ⟨G1', rfl⟩ : ∃ g, G1 = g + 1 := ⟨G1 - 1, by omega⟩
      have hG2' : F ≤ G2' := by omega
      have hG1' : F ≤ G1' := by omega
      have hil : i < l.length := by
        rcases Nat.lt_or_ge i l.length with h' | h'
        · exact h'
        · rw [List.getElem?_eq_none h'] at hi; cases hi
      have hjl : j < l.length := by omega
      have hj : l[j]? = some l[j] := List.getElem?_eq_getElem hjl
      have hjm : l[j] ∈ l := List.getElem_mem hjl
      have him : cl1 ∈ l := List.mem_of_getElem? hi
      generalize l[j] = cl2 at hj hjm
      have hN : hint.length + F ≤ hint.length + (F + 1) := by omega
      by_cases hij : j = i
      · -- the diagonal: `break`, then the next outer iteration
        subst hij
        rw [loop_diag F l j cl1 hi] at h
        rw [hi] at hj; cases hj
        refine ⟨.go (hint, l), by simp [resolution_algorithm_for2, hi], ?_⟩
        obtain ⟨hnone, hsome⟩ := ih l (j + 1) 0 b h hint G1' G1' hG1' hG1' hk hnd hwf (Nat.zero_le _)
        show ∃ o', resolution_algorithm_for1 (G1' + 1) (j + 1) hint l = some o' ∧ Final terms _ b o'
        cases hi1 : l[j + 1]? with
        | none =>
          exact ⟨.go (hint, l), by simp [resolution_algorithm_for1, hi1], hnone hi1⟩
        | some cl1' =>
          obtain ⟨o, ho, hm⟩ := hsome cl1' hi1
          cases o with
          | ret r =>
            exact ⟨.ret r, by simp [resolution_algorithm_for1, hi1, ho], ⟨hm.1, RetOK_mono _ _ _ hN _ hm.2⟩⟩
          | go s =>
            obtain ⟨h', l'⟩ := s
            obtain ⟨o', ho', hf⟩ := hm
            exact ⟨o', by simp [resolution_algorithm_for1, hi1, ho, ho'], Final_mono _ _ _ hN _ _ hf⟩
      · have hlt : j < i := by omega
        have hc : cl2 ≠ cl1 := by
          intro e; subst e
          exact hij ((List.getElem?_inj hjl hnd).mp (hj.trans hi.symm))
        have hbeq : (cl2 == cl1) = false := by simpa using hc
        have hd : dictHas hint = l.contains := by funext k; rw [dictHas_keys, hk]
        rw [loop_step F l i j cl1 cl2 hi hlt hj] at h
        -- one iteration of the inner loop as written
        have body : resolution_algorithm_for2 cl1 (G2' + 1) j hint l =
            match Res.resolvable cl1 cl2 with
            | none => resolution_algorithm_for2 cl1 G2' (j + 1) hint l
            | some (r, res) =>
              if l.contains res then resolution_algorithm_for2 cl1 G2' (j + 1) hint l
              else
                let v : Sum ResolutionHintSource Int :=
                  if r < 0 then Sum.inl (ResolutionHintSource_new cl2 cl1 (-r)) else Sum.inl (ResolutionHintSource_new cl1 cl2 r)
                if res.isEmpty then some (.ret (true, dictSet hint res v, l))
                else resolution_algorithm_for2 cl1 G2' (j + 1) (dictSet hint res v) (l ++ [res]) := by
          simp only [resolution_algorithm_for2, hj, hbeq, resolvable_eq, Option.pure_def, Option.bind_eq_bind,
            Option.bind_some, hd]
          cases hr : Res.resolvable cl1 cl2 with
          | none => simp
          | some p =>
            obtain ⟨r, res⟩ := p
            by_cases hcon : l.contains res = true
            · have hmem : res ∈ l := by simpa using hcon
              simp [hmem]
            · have hnmem : res ∉ l := by simpa using hcon
              by_cases hr0 : r < 0 <;> by_cases he : res = [] <;> simp [hnmem, hr0, he, fsTruthy]
        rw [body]
        have hi_keep : ∀ x, (l ++ [x])[i]? = some cl1 := fun x => by rw [List.getElem?_append_left hil]; exact hi
        cases hr : Res.resolvable cl1 cl2 with
        | none =>
          rw [hr] at h
          obtain ⟨o, ho, hm⟩ := (ih l i (j + 1) b h hint G2' (G1' + 1) hG2' (by omega) hk hnd hwf hlt).2 cl1 hi
          exact ⟨o, ho, Mid_mono _ _ _ _ _ hN _ _ hm⟩
        | some p =>
          obtain ⟨r, res⟩ := p
          rw [hr] at h
          simp only [] at h ⊢
          by_cases hcon : l.contains res = true
          · rw [if_pos hcon] at h ⊢
            obtain ⟨o, ho, hm⟩ := (ih l i (j + 1) b h hint G2' (G1' + 1) hG2' (by omega) hk hnd hwf hlt).2 cl1 hi
            exact ⟨o, ho, Mid_mono _ _ _ _ _ hN _ _ hm⟩
          · rw [if_neg hcon] at h ⊢
            have hcon' : l.contains res = false := by simpa using hcon
            have hnew : ∀ v, dictSet hint res v = hint ++ [(res, v)] := fun v => dictSet_new hint res v (by rw [hk]; exact hcon')
            have hnd' : (l ++ [res]).Nodup := by
              rw [List.nodup_append]
              refine ⟨hnd, by simp, ?_⟩
              intro a ha b hb
              simp at hb; subst hb
              intro e; subst e
              simp [List.contains_iff_mem] at hcon'
              exact hcon' ha
            -- the new entry is justified by the two clauses of the pair
            obtain ⟨c1, c2, _, cmem⟩ := Res.resolvable_clash cl1 cl2 r res hr
            have hres := (Res.resolvable_inv cl1 cl2 r res hr).2
            have hentry : EntryOK terms (dictKeys hint) res
                (if r < 0 then Sum.inl (ResolutionHintSource_new cl2 cl1 (-r)) else Sum.inl (ResolutionHintSource_new cl1 cl2 r)) := by
              rw [hk]
              by_cases hr0 : r < 0
              · rw [if_pos hr0]
                simp only [EntryOK, ResolutionHintSource_new, ResolutionHintSource.left_set, ResolutionHintSource.right_set,
                  ResolutionHintSource.resolvant, Int.neg_neg]
                refine ⟨hjm, him, c1, c2, ?_⟩
                rw [hres]; apply canon_ext; intro x
                simp only [List.mem_append, List.mem_filter, bne_iff_ne, ne_eq, decide_eq_true_eq]
                exact Or.comm
              · rw [if_neg hr0]
                simp only [EntryOK, ResolutionHintSource_new, ResolutionHintSource.left_set, ResolutionHintSource.right_set,
                  ResolutionHintSource.resolvant]
                refine ⟨him, hjm, c2, c1, ?_⟩
                rw [hres]; apply canon_ext; intro x
                simp only [List.mem_append, List.mem_filter, bne_iff_ne, ne_eq, decide_eq_true_eq]
            have hwf' : ∀ v, EntryOK terms (dictKeys hint) res v → WF terms (dictSet hint res v) := fun v hv => by
              rw [hnew]; exact WF_append terms hint res v hwf hv
            have hk' : ∀ v, dictKeys (dictSet hint res v) = l ++ [res] := fun v => by
              rw [dictKeys_set, hk, hcon']; simp
            by_cases he : res.isEmpty = true
            · rw [if_pos he] at h ⊢
              cases h
              have hre : res = [] := by cases res <;> simp_all
              refine ⟨_, rfl, rfl, rfl, hwf' _ hentry, ?_, ?_, ?_⟩
              · show (dictKeys (dictSet hint res _)).Nodup
                rw [hk']; exact hnd'
              · show (dictSet hint res _).length ≤ _
                rw [hnew]; simp
              · exact ⟨hint, _, by rw [hnew, hre]⟩
            · rw [if_neg he] at h ⊢
              obtain ⟨o, ho, hm⟩ := (ih (l ++ [res]) i (j + 1) b h _ G2' (G1' + 1) hG2' (by omega) (hk' _) hnd'
                (hwf' _ hentry) hlt).2 cl1 (hi_keep _)
              refine ⟨o, ho, Mid_mono _ _ _ _ _ ?_ _ _ hm⟩
              rw [hnew]; simp; omega

/-- `resolution_algorithm` as written answers what the model's machine answers, at every larger fuel; when the answer is
`True` the hint it leaves behind is well founded, has no repeated keys, at most `|hint| + F` entries, and ends with the
empty clause -/
theorem resolution_algorithm_complete (terms : List (List Int)) (F : Nat) (hint : Hint) (l : List FrozenSet) (b : Bool)
    (hk : dictKeys hint = l) (hnd : l.Nodup) (hwf : WF terms hint) (h : Res.loop F l 0 0 = some b) (G : Nat) (hG : F < G) :
    ∃ h' l', resolution_algorithm G hint l = some (b, h', l') ∧ (b = true → RetOK terms (hint.length + F) (b, h', l')) := by
  obtain ⟨G', rfl⟩ : ∃ g, G = g + 1 := ⟨G - 1, by omega⟩
  obtain ⟨hnone, hsome⟩ := loops_complete terms F l 0 0 b h hint G' G' (by omega) (by omega) hk hnd hwf (Nat.le_refl _)
  simp only [resolution_algorithm, resolution_algorithm_for1, Option.pure_def, Option.bind_eq_bind]
  cases hi : l[0]? with
  | none =>
    have := hnone hi
    subst this
    exact ⟨hint, l, by simp, by intro h; cases h⟩
  | some cl1 =>
    obtain ⟨o, ho, hm⟩ := hsome cl1 hi
    cases o with
    | ret r =>
      obtain ⟨rfl, hr⟩ := hm
      obtain ⟨b', h', l'⟩ := r
      have : b' = true := hr.1
      subst this
      exact ⟨h', l', by simp [ho], fun _ => hr⟩
    | go s =>
      obtain ⟨h', l'⟩ := s
      obtain ⟨o', ho', hf⟩ := hm
      cases o' with
      | ret r =>
        obtain ⟨rfl, hr⟩ := hf
        obtain ⟨b', h'', l''⟩ := r
        have : b' = true := hr.1
        subst this
        exact ⟨h'', l'', by simp [ho, ho'], fun _ => hr⟩
      | go s' =>
        obtain ⟨h'', l''⟩ := s'
        have : b = false := hf
        subst this
        exact ⟨h'', l'', by simp [ho, ho'], by intro h; cases h⟩

/-! ## `start_resolution_algorithm` and `prove_tautology`, conversely -/

/-- every entry of the initial hint is an index into the clause list whose clause set is the key -/
def AllInr (terms : List (List Int)) (hint : Hint) : Prop :=
  ∀ e ∈ hint, ∃ idx t, e.2 = Sum.inr idx ∧ pyIndex terms idx = some t ∧ Res.canon t = e.1

theorem AllInr_set (terms : List (List Int)) (d : Hint) (k : FrozenSet) (idx : Int) (t : List Int)
    (hd : AllInr terms d) (ht : pyIndex terms idx = some t) (hc : Res.canon t = k) : AllInr terms (dictSet d k (Sum.inr idx)) := by
  induction d with
  | nil =>
    intro e he
    simp [dictSet] at he; subst he
    exact ⟨idx, t, rfl, ht, hc⟩
  | cons p d ih =>
    obtain ⟨k', v'⟩ := p
    have hd' : AllInr terms d := fun e he => hd e (by simp [he])
    simp only [dictSet]
    split
    · rename_i hkk
      have : k' = k := by simpa using hkk
      subst this
      intro e he
      simp only [List.mem_cons] at he
      rcases he with rfl | he
      · exact ⟨idx, t, rfl, ht, hc⟩
      · exact hd' e he
    · intro e he
      simp only [List.mem_cons] at he
      rcases he with rfl | he
      · exact hd _ (by simp)
      · exact ih hd' e he

theorem AllInr_WF (terms : List (List Int)) (d : Hint) (h : AllInr terms d) : WF terms d := by
  intro p hp
  obtain ⟨idx, t, e, ht, hc⟩ := h d[p] (List.getElem_mem hp)
  rw [e]
  exact ⟨t, ht, hc⟩

theorem pyIndex_nat {α} (xs : List α) (k : Nat) : pyIndex xs (k : Int) = xs[k]? := by
  simp [pyIndex]

/-- the enumerate loop of `start_resolution_algorithm` again: the hint it builds consists of justified indices -/
theorem start_for1_allInr (terms : List (List Int)) (xs : List (List Int)) : ∀ (k : Nat) (hint hint' : Hint),
    (∀ q (hq : q < xs.length), ∃ t, terms[k + q]? = some t ∧ Res.canon t = xs[q]) → AllInr terms hint →
    start_resolution_algorithm_for1 (pyEnumerateFrom (k : Int) xs) hint = some hint' → AllInr terms hint' := by
  induction xs with
  | nil => intro k hint hint' _ ha h; simp [pyEnumerateFrom, start_resolution_algorithm_for1] at h; subst h; exact ha
  | cons c xs ih =>
    intro k hint hint' hidx ha h
    have hidx' : ∀ q (hq : q < xs.length), ∃ t, terms[k + 1 + q]? = some t ∧ Res.canon t = xs[q] := by
      intro q hq
      have := hidx (q + 1) (by simp; omega)
      simpa [Nat.add_assoc, Nat.add_comm 1 q] using this
    have hcast : ((k : Int) + 1) = ((k + 1 : Nat) : Int) := by simp
    simp only [pyEnumerateFrom, start_resolution_algorithm_for1, Option.pure_def, Option.bind_eq_bind] at h
    cases ht : is_trivial_clause c with
    | none => simp [ht] at h
    | some tb =>
      simp only [ht, Option.bind_some] at h
      cases tb with
      | true =>
        simp only [Bool.not_true, Bool.false_eq_true, if_false, hcast] at h
        exact ih (k + 1) hint hint' hidx' ha h
      | false =>
        simp only [Bool.not_false, if_true, hcast] at h
        obtain ⟨t, ht', hc⟩ := hidx 0 (by simp)
        simp only [Nat.add_zero, List.getElem_cons_zero] at ht' hc
        exact ih (k + 1) _ hint' hidx' (AllInr_set terms hint c k t ha (by rw [pyIndex_nat]; exact ht') hc) h

theorem canon_eq_nil (t : List Int) (h : Res.canon t = []) : t = [] := by
  cases t with
  | nil => rfl
  | cons a t' =>
    have : a ∈ Res.canon (a :: t') := (Res.mem_canon a _).mpr (by simp)
    rw [h] at this; cases this

/-- where the model `Res.start` answers, `start_resolution_algorithm` as written answers the same at every sufficiently
large fuel — in particular the reconstruction of the proof from the hint (`build_proof_from_hint`, `simplify_clause`) hits
none of its assertions, and `assert not ret_list` holds -/
theorem start_complete (F : Nat) (cls : List (List Int)) (hz : ∀ cl ∈ cls, Res.NoZero cl) (x : Option Bool)
    (h : Res.start F cls = some x) :
    ∃ F', ∀ G, F' ≤ G → start_resolution_algorithm G cls = some (x.map fun b => (b, ())) := by
  cases cls with
  | nil =>
    simp [Res.start] at h; subst h
    exact ⟨0, fun G _ => by simp [start_resolution_algorithm]⟩
  | cons c0 cs =>
    have hz' : ∀ c ∈ List.map (fun cl => fsOfList cl) (c0 :: cs), Res.NoZero c := by
      intro c hc
      obtain ⟨c', hc', rfl⟩ := List.mem_map.mp hc
      intro y hy
      exact hz c' hc' y ((Res.mem_canon y c').mp hy)
    obtain ⟨hint', e1, e2⟩ := start_for1_keys _ hz' 0 ([] : Hint)
    have e2' : dictKeys hint' = Res.initial (c0 :: cs) := e2
    have hall : AllInr (c0 :: cs) hint' := by
      refine start_for1_allInr (c0 :: cs) _ 0 [] hint' ?_ (by intro e he; cases he) (by simpa using e1)
      intro q hq
      have hq' : q < (c0 :: cs).length := by simpa using hq
      exact ⟨(c0 :: cs)[q], by simp [List.getElem?_eq_getElem hq'], by cases q with
        | zero => rfl
        | succ q => simp [fsOfList]⟩
    have hwf := AllInr_WF _ _ hall
    have hnd : (dictKeys hint').Nodup := e2' ▸ initial_nodup _
    simp only [Res.start, List.isEmpty_cons, Bool.false_eq_true, if_false] at h
    by_cases hemp : hint' = []
    · subst hemp
      have hl : Res.initial (c0 :: cs) = [] := by rw [← e2']; rfl
      simp [hl] at h; subst h
      refine ⟨0, fun G _ => ?_⟩
      simp only [start_resolution_algorithm, pyEnumerate, e1, Option.pure_def, Option.bind_eq_bind, Option.bind_some,
        List.isEmpty_cons, Bool.not_false, Bool.not_true, Bool.false_eq_true, if_false, dictTruthy, List.isEmpty_nil, if_true]
      first | rfl | (split <;> rfl)
    · have hl : (Res.initial (c0 :: cs)).isEmpty = false := by
        rw [← e2']; cases hint' with
        | nil => exact absurd rfl hemp
        | cons p d => rfl
      have htr : dictTruthy hint' = true := by
        cases hint' with
        | nil => exact absurd rfl hemp
        | cons p d => rfl
      simp only [hl, Bool.false_eq_true, if_false] at h
      cases hloop : Res.loop F (Res.initial (c0 :: cs)) 0 0 with
      | none => simp [hloop] at h
      | some b =>
        refine ⟨hint'.length + F + 1, fun G hG => ?_⟩
        obtain ⟨h2, l2, hra, hret⟩ := resolution_algorithm_complete (c0 :: cs) F hint' _ b e2' (e2' ▸ hnd) hwf hloop G (by omega)
        rw [← e2'] at hra
        simp only [start_resolution_algorithm, pyEnumerate, e1, Option.pure_def, Option.bind_eq_bind, Option.bind_some,
          List.isEmpty_cons, Bool.not_false, Bool.not_true, Bool.false_eq_true, if_false, htr, hra]
        cases b with
        | false =>
          simp [hloop] at h; subst h
          simp
        | true =>
          simp [hloop] at h; subst h
          obtain ⟨_, hw2, hnd2, hlen, h0, v, hlast⟩ := hret rfl
          simp only at hw2 hnd2 hlen hlast
          have hp : h0.length < h2.length := by rw [hlast]; simp
          obtain ⟨t, ht, hc⟩ := bpfh_ok (c0 :: cs) h2 hw2 hnd2 h0.length hp G (by
            have : h2.length = h0.length + 1 := by rw [hlast]; simp
            omega)
          have hkey : h2[h0.length].1 = ([] : List Int) := by simp [hlast]
          rw [hkey] at ht hc
          have htn : t = [] := canon_eq_nil t hc
          subst htn
          have hfs : fsOfList ([] : List Int) = [] := rfl
          simp [hfs, ht, pyAssert]

theorem toCnfF_mono_le (k k' : Nat) (hk : k ≤ k') (c r : CF) (h : CF.toCnfF k c = some r) : CF.toCnfF k' c = some r := by
  have := toCnfF_mono_add k (k' - k) c r h
  rwa [Nat.add_sub_cancel' hk] at this

/-- where the model `proveTautology` answers, `prove_tautology` as written gives the same verdict at every sufficiently
large fuel: on a propositional pattern it hits none of its assertions -/
theorem prove_tautology_complete (F : Nat) (f : Form) (x : Option Bool) (h : proveTautology F f = some x) :
    ∃ F', ∀ G, F' ≤ G → prove_tautology G f = some (x.map fun b => (b, ())) := by
  cases hb : (CF.ofForm (Form.neg f)).isBot with
  | true =>
    refine ⟨(Form.neg f).size, fun G hG => ?_⟩
    have e := to_conj_form_eq (Form.neg f) G hG
    simp only [prove_tautology, TautSup.neg, e, Option.pure_def, Option.bind_eq_bind, Option.bind_some, isCFBot_ofCF,
      negated_ofCF, hb, if_true]
    cases hc : CF.ofForm (Form.neg f) with
    | bot b =>
      cases b <;> simp [proveTautology, hc] at h <;> subst h <;> simp [CF.negated]
    | var b i => simp [hc, CF.isBot] at hb
    | or b l r => simp [hc, CF.isBot] at hb
    | and b l r => simp [hc, CF.isBot] at hb
  | false =>
    rw [proveTautology_nonbot F f hb] at h
    simp only [Option.bind_eq_bind, Option.bind_eq_some_iff] at h
    obtain ⟨nt, hn, cnf, hcnf, cls, hcls, sx, hs, hx⟩ := h
    obtain ⟨F', hF'⟩ := start_complete F cls (toClauses_noZero cnf cls hcls) sx hs
    refine ⟨(Form.neg f).size + depth (CF.ofForm (Form.neg f)) + F + depth cnf + F', fun G hG => ?_⟩
    have e1 := to_conj_form_eq (Form.neg f) G (by omega)
    have e2 := propag_neg_eq (CF.ofForm (Form.neg f)) G (by omega)
    have e3 := to_cnf_eq G nt
    rw [toCnfF_mono_le F G (by omega) nt cnf hcnf] at e3
    have e4 := to_clauses_eq cnf G (by omega)
    have e5 := hF' G (by omega)
    simp only [prove_tautology, TautSup.neg, e1, Option.pure_def, Option.bind_eq_bind, Option.bind_some, isCFBot_ofCF,
      negated_ofCF, hb, Bool.false_eq_true, if_false, Option.isSome_some, pyAssert, if_true, e2, hn, Option.map_some, e3,
      e4, hcls, e5]
    cases sx with
    | none => simp at hx; subst hx; simp
    | some b =>
      cases b <;> simp at hx <;> subst hx <;> simp

end TautTie

