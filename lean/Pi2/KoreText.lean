import Pi2.KoreModule
import Pi2.KoreTie
import Pi2.KDefTie
import Pi2.ComposeTie
/-!
# From the TEXTS to the model of a K execution module (lemmas for `Pi2/Props/C20c.lean`)

* `execModule e`: the proof module of the Python object `ExecutionProofExp` `e` — its `_axioms`, `_claims`,
  `_proof_expressions` (the `ProofExp` fields that `rewrite_event` fills) and the imports of `ExecutionProofExp.__init__`
  (`kImports`); by definition the module `(toSt e).module` of the model state the object stands for;
* `from_proof_hints_model`: text → model for `ExecutionProofExp.from_proof_hints` (from `KoreTie.from_proof_hints_eq`):
  if the translated text returns an object, the model `traceF` returns a state and the object is that state;
* `allRewriting_of_text`: the hypothesis `AllRewriting` of the tie is itself a consequence of the text returning an object;
* `KPf.keysNodup`: the proof expressions of a K module are dictionaries with distinct keys (the hypothesis of the
  `execute_full` tie);
* `pipeline_model`: text → model for `from_kore_definition` / `get_proof_hints` (from `KDefTie.from_kore_definition_spec`,
  `get_proof_hints_eq`): if the two translated functions return, the specification gives the definition a meaning and the
  stream its steps, and the hints are those steps;
* `ksteps_of_ground`: the fragment condition `KSteps` on those steps follows from the substitutions of the stream's rule
  events being ground (`GroundStream`).
-/
set_option linter.unusedVariables false
set_option linter.unusedSimpArgs false
open Pat PySt

namespace KMod
open NPat Kore PyI PyM PyK KoreTie

/-- the proof module of the Python object: `_axioms`, `_claims`, `_proof_expressions`, importing `kImports` -/
def execModule (e : PyExec) : PModule := .mk e._axioms e._claims e._proof_expressions kImports

theorem execModule_eq (e : PyExec) : execModule e = (toSt e).module := rfl

theorem execModule_withSt (e : PyExec) (st : ExecSt) : execModule (withSt e st) = st.module := rfl

/-- **text → model for `from_proof_hints`**: if the translated text returns an object, `traceF` returns a state, and
the object is the one the first hint created, in that state -/
theorem from_proof_hints_model (n : Nat) (sem : PySem) (h0 : PyHint) (hs : List PyHint)
    (hall : AllRewriting (h0 :: hs)) (e' : PyExec)
    (h : Gen.PyKore.ExecutionProofExp.from_proof_hints n (h0 :: hs) sem = some (some (some e'))) :
    ∃ st, traceF sem.sg n (initSt h0.configuration_before) ((h0 :: hs).map stepOf) = some (some st) ∧
      e' = withSt (Gen.PyKore.ExecutionProofExp.__init__ sem h0.configuration_before) st := by
  rcases from_proof_hints_eq n sem h0 hs hall with h1 | ⟨_, h1⟩
  · rw [h] at h1
    cases hm : traceF sem.sg n (initSt h0.configuration_before) ((h0 :: hs).map stepOf) with
    | none => rw [hm] at h1; cases h1
    | some o =>
      cases o with
      | none => rw [hm] at h1; cases h1
      | some st =>
        rw [hm] at h1
        simp only [ret, Option.some.injEq] at h1
        exact ⟨st, rfl, h1⟩
  · rw [h] at h1; cases h1

/-- the loop of `from_proof_hints` returns a value only if every hint is a rewriting rule (an equational rule raises
`NotImplementedError`) -/
theorem forEach_allRewriting {β} (n : Nat) (sem : PySem)
    (body : PyHint → Option PyExec → (Option PyExec → Py β) → Py β)
    (hb : ∀ h o cont, body h o cont
      = match h.«axiom» with
        | .rewriting r =>
          call (Gen.PyKore.ExecutionProofExp.rewrite_event n
              (o.getD (Gen.PyKore.ExecutionProofExp.__init__ sem h.configuration_before)) r h.substitutions)
            fun x => cont (some x.1)
        | .equational _ => some none) :
    ∀ (hints : List PyHint) (o : Option PyExec) (k : Option PyExec → Py β) (v : β),
      forEach hints o body k = some (some v) → AllRewriting hints := by
  intro hints
  induction hints with
  | nil => intro _ _ _ _ h hh; cases hh
  | cons h hs ih =>
    intro o k v hv
    simp only [PyM.forEach, hb] at hv
    cases hax : h.«axiom» with
    | equational r => rw [hax] at hv; cases hv
    | rewriting r =>
      rw [hax] at hv
      simp only [] at hv
      cases hre : Gen.PyKore.ExecutionProofExp.rewrite_event n
          (o.getD (Gen.PyKore.ExecutionProofExp.__init__ sem h.configuration_before)) r h.substitutions with
      | none => rw [hre] at hv; cases hv
      | some x =>
        cases x with
        | none => rw [hre] at hv; cases hv
        | some x =>
          rw [hre] at hv
          have := ih _ _ _ hv
          intro h' hh'
          rcases List.mem_cons.mp hh' with rfl | hh'
          · exact ⟨r, hax⟩
          · exact this h' hh'

/-- **`AllRewriting` is a consequence of the text returning**: `from_proof_hints` returns a value only on rewriting hints -/
theorem allRewriting_of_text (n : Nat) (sem : PySem) (hints : List PyHint) (v : Option PyExec)
    (h : Gen.PyKore.ExecutionProofExp.from_proof_hints n hints sem = some (some v)) : AllRewriting hints := by
  unfold Gen.PyKore.ExecutionProofExp.from_proof_hints at h
  refine forEach_allRewriting n sem _ ?_ hints none _ v h
  intro h o cont
  cases o <;> (dsimp only; cases h.«axiom» <;> rfl)

/-- the text returns an object only on a non-empty hint list -/
theorem hints_ne_nil_of_text (n : Nat) (sem : PySem) (hints : List PyHint) (e' : PyExec)
    (h : Gen.PyKore.ExecutionProofExp.from_proof_hints n hints sem = some (some (some e'))) :
    ∃ h0 hs, hints = h0 :: hs := by
  cases hints with
  | nil => rw [from_proof_hints_nil] at h; cases h
  | cons h0 hs => exact ⟨h0, hs, rfl⟩

/-- a proof expression of a K module is a dictionary with distinct keys -/
theorem KPf.keysNodup {pf : Pf} (h : KPf pf) : ProofTie.KeysNodup pf := by
  obtain ⟨rule, σ, _, _, hnd, rfl⟩ := h
  cases hσ : σ.isEmpty with
  | true => simp only [if_true]; trivial
  | false => simp only [Bool.false_eq_true, if_false]; exact ⟨trivial, hnd⟩

end KMod

namespace KMod
open Kore PyI PyM PyK Gen.PyKDef KDefSpec KDefTie

/-- **text → model for `from_kore_definition` and `get_proof_hints`**: if the two translated functions return, the
specification gives the definition a meaning `ds` and the stream an initial configuration and steps; the hints are these
steps, and the semantics after reading the hints still has the signature of `ds` -/
theorem pipeline_model (so : SetOrder) (hso : so.Valid) (n : Nat) (d : KDefinition) (hf : InFragment d)
    (tr : PyLLVMTrace) (ls ls' : PyLS) (hints : List PyHint)
    (h1 : LanguageSemantics.from_kore_definition so (n + 2) d = ret ls)
    (h2 : get_proof_hints (n + 2) ls tr = ret (ls', hints)) :
    ∃ ds init rules' steps, sigOfDefinition d = some ds ∧ traceStepsR ds tr = some (init, rules', steps) ∧
      hints = steps.map hintOf ∧ sigView ls' = ds.sg ∧ hints.map KoreTie.stepOf = modelSteps steps := by
  have s1 := from_kore_definition_spec so hso n d hf
  cases hd : sigOfDefinition d with
  | none => rw [hd] at s1; simp only [] at s1; rw [h1] at s1; cases s1
  | some ds =>
    rw [hd] at s1
    obtain ⟨h, hh, hr⟩ := s1
    rw [h1] at hh
    simp only [ret, Option.some.injEq] at hh
    subst hh
    have s2 := get_proof_hints_eq n hr tr
    cases ht : traceStepsR ds tr with
    | none => rw [ht] at s2; simp only [] at s2; rw [h2] at s2; cases s2
    | some x =>
      obtain ⟨init, rules', steps⟩ := x
      rw [ht] at s2
      obtain ⟨h', hh', hr'⟩ := s2
      rw [h2] at hh'
      simp only [ret, Option.some.injEq, Prod.mk.injEq] at hh'
      obtain ⟨rfl, rfl⟩ := hh'
      refine ⟨ds, init, rules', steps, rfl, ht, rfl, represents_sig (ds := { ds with rules := rules' }) hr', ?_⟩
      simp only [modelSteps, List.map_map]
      apply List.map_congr_left
      intro s _
      exact stepOf_hintOf s

/-! ## the fragment condition from the stream: ground substitutions -/

/-- every substitution of a rule event of the stream maps variables to ground terms (execution traces do) -/
def GroundStream (tr : PyLLVMTrace) : Prop :=
  ∀ it ∈ tr.trace, match it with
    | .rule _ σ => ∀ kv ∈ σ, kv.2.ground = true
    | _ => True

theorem kSet_mem {α} (d : KDict α) (k : Nat) (v : α) : ∀ kv ∈ kSet d k v, kv ∈ d ∨ kv.2 = v := by
  induction d with
  | nil => intro kv h; simp only [kSet, List.mem_singleton] at h; subst h; exact Or.inr rfl
  | cons a r ih =>
    obtain ⟨k', v'⟩ := a
    intro kv h
    simp only [kSet] at h
    split at h
    · rcases List.mem_cons.mp h with rfl | h
      · exact Or.inr rfl
      · exact Or.inl (List.mem_cons_of_mem _ h)
    · rcases List.mem_cons.mp h with rfl | h
      · exact Or.inl (by simp)
      · rcases ih kv h with h | h
        · exact Or.inl (List.mem_cons_of_mem _ h)
        · exact Or.inr h

theorem kDictOf_ground (σ : List (Nat × KTerm)) (h : ∀ kv ∈ σ, kv.2.ground = true) :
    ∀ x t, (x, t) ∈ kDictOf σ → t.ground = true := by
  have gen : ∀ (l : List (Nat × KTerm)) (d : KDict KTerm), (∀ kv ∈ d, kv.2.ground = true) →
      (∀ kv ∈ l, kv.2.ground = true) →
      ∀ kv ∈ l.foldl (fun d kv => kSet d kv.1 kv.2) d, kv.2.ground = true := by
    intro l
    induction l with
    | nil => intro d hd _ kv hkv; exact hd kv hkv
    | cons a r ih =>
      intro d hd hl kv hkv
      simp only [List.foldl_cons] at hkv
      refine ih (kSet d a.1 a.2) ?_ (fun x hx => hl x (List.mem_cons_of_mem _ hx)) kv hkv
      intro x hx
      rcases kSet_mem d a.1 a.2 x hx with hx | hx
      · exact hd x hx
      · rw [hx]; exact hl a (by simp)
  intro x t hxt
  exact gen σ [] (by simp) h (x, t) hxt

theorem hintPairs_mem (tr : List PyTraceItem) : ∀ o σ c, (o, σ, c) ∈ hintPairs tr → PyTraceItem.rule o σ ∈ tr := by
  intro o σ c h
  simp only [hintPairs, List.mem_filterMap] at h
  obtain ⟨⟨a, b⟩, hab, hp⟩ := h
  have ha := (List.of_mem_zip hab).1
  cases a with
  | rule o' σ' =>
    cases b with
    | config c' =>
      simp only [pairOf, Option.some.injEq, Prod.mk.injEq] at hp
      obtain ⟨rfl, rfl, _⟩ := hp
      exact ha
    | _ => simp [pairOf] at hp
  | _ => simp [pairOf] at hp

theorem setScope_patterns (rules : List Rule) (o : Nat) (sc : Scope) (h : ∀ r ∈ rules, r.pattern.PF = true) :
    ∀ r ∈ setScope rules o sc, r.pattern.PF = true := by
  induction rules with
  | nil => intro r hr; simp [setScope] at hr
  | cons a rs ih =>
    intro r hr
    simp only [setScope] at hr
    split at hr
    · rcases List.mem_cons.mp hr with rfl | hr
      · exact h a (by simp)
      · exact h r (List.mem_cons_of_mem _ hr)
    · rcases List.mem_cons.mp hr with rfl | hr
      · exact h r (by simp)
      · exact ih (fun x hx => h x (List.mem_cons_of_mem _ hx)) r hr

/-- the rules of a definition are conversions, hence in the propositional fragment -/
theorem addSentences_rules_PF : ∀ (ss : List KSentence) (d d' : DefSem), addSentences d ss = some d' →
    (∀ r ∈ d.rules, r.pattern.PF = true) → ∀ r ∈ d'.rules, r.pattern.PF = true := by
  intro ss
  induction ss with
  | nil => intro d d' h hd; simp only [addSentences, Option.some.injEq] at h; subst h; exact hd
  | cons s ss ih =>
    intro d d' h hd
    simp only [addSentences, Option.bind_eq_some_iff] at h
    obtain ⟨d1, h1, h2⟩ := h
    refine ih d1 d' h2 ?_
    cases s with
    | «import» _ => simp [addSentence] at h1
    | other => simp only [addSentence, Option.some.injEq] at h1; subst h1; exact hd
    | sortDecl name hk =>
      simp only [addSentence] at h1
      split at h1
      · cases h1
      · simp only [Option.some.injEq] at h1; subst h1; exact hd
    | symbolDecl name vars params sort attrs =>
      simp only [addSentence] at h1
      split at h1
      · cases h1
      · split at h1
        · cases h1
        · simp only [Option.some.injEq] at h1; subst h1; exact hd
    | «axiom» p =>
      simp only [addSentence] at h1
      split at h1
      · simp only [Option.some.injEq] at h1; subst h1; exact hd
      · next kind t _ =>
        simp only [Option.map_eq_some_iff] at h1
        obtain ⟨⟨sc, q⟩, hc, rfl⟩ := h1
        intro r hr
        rcases List.mem_append.mp hr with hr | hr
        · exact hd r hr
        · simp only [List.mem_singleton] at hr
          subst hr
          exact conv_PF _ _ _ _ _ hc

theorem stepsF_stepOK (sg : Sig) : ∀ (l : List (Nat × List (Nat × KTerm) × KTerm)) (rules : List Rule) (cur : NPat)
    (rs : List Rule) (steps : List Step), stepsF sg rules cur l = some (rs, steps) →
    (∀ r ∈ rules, r.pattern.PF = true) → (∀ o σ c, (o, σ, c) ∈ l → ∀ kv ∈ σ, kv.2.ground = true) →
    ∀ s ∈ steps, stepOK (s.rule.pattern, s.subst) = true := by
  intro l
  induction l with
  | nil =>
    intro rules cur rs steps h _ _ s hs
    simp only [stepsF, Option.some.injEq, Prod.mk.injEq] at h
    obtain ⟨_, rfl⟩ := h
    cases hs
  | cons a rest ih =>
    obtain ⟨o, σ, c⟩ := a
    intro rules cur rs steps h hr hg s hs
    simp only [stepsF, Option.bind_eq_bind, Option.bind_eq_some_iff, Option.pure_def, Option.some.injEq,
      Prod.mk.injEq] at h
    obtain ⟨post, _, r, hfind, ⟨sc', δ⟩, hcs, ⟨rs', steps'⟩, hrest, rfl, rfl⟩ := h
    have hrm : r ∈ rules := List.mem_of_find?_eq_some hfind
    rcases List.mem_cons.mp hs with rfl | hs
    · have hsub := convertSubst_ok sg (kDictOf σ) r.scope sc' [] δ
        (kDictOf_ground σ (hg o σ c (by simp))) ⟨by simp, by simp⟩ hcs
      exact hsub.stepOK (hr r hrm)
    · exact ih (setScope rules o sc') post rs' steps' hrest (setScope_patterns rules o sc' hr)
        (fun o' σ' c' hm => hg o' σ' c' (List.mem_cons_of_mem _ hm)) s hs

/-- **the fragment condition is a consequence of the stream being ground**: the steps the specification reads off a
definition and a ground hint stream are steps of the fragment (rules: conversions, `conv_PF`; substitutions: conversions
of ground substitutions, `convertSubst_ok`) -/
theorem ksteps_of_ground (d : KDefinition) (ds : DefSem) (tr : PyLLVMTrace) (init : NPat) (rules' : List Rule)
    (steps : List Step) (hd : sigOfDefinition d = some ds) (ht : traceStepsR ds tr = some (init, rules', steps))
    (hg : GroundStream tr) : KSteps (modelSteps steps) = true := by
  have hrules : ∀ r ∈ ds.rules, r.pattern.PF = true := by
    unfold sigOfDefinition at hd
    split at hd
    · exact addSentences_rules_PF _ _ _ hd (by simp)
    · cases hd
  simp only [traceStepsR, Option.bind_eq_bind, Option.bind_eq_some_iff, Option.pure_def, Option.some.injEq,
    Prod.mk.injEq] at ht
  obtain ⟨i0, _, ⟨rs, sts⟩, hsf, rfl, rfl, rfl⟩ := ht
  have := stepsF_stepOK ds.sg _ _ _ _ _ hsf hrules (fun o σ c hm => by
    have hmem := hintPairs_mem tr.trace o σ c hm
    exact hg _ hmem)
  simp only [KSteps, modelSteps, List.all_map, List.all_eq_true]
  intro s hs
  exact this s hs

end KMod
